#!/bin/bash
# usage: seedall.sh [pattern] [tag]   (a tag gives the run its own scratch directory and result file, so that several can run side by side)  -- re-test every seeded change under /verif/seeded (matching the pattern) in an isolated copy:
# a copy of /verif and a scratch worktree of /repo under /tmp/seedrun (removed at the end).  /repo itself is not touched.
pat=${1:-C}
tag=${2:-}
S=/tmp/seedrun$tag
rm -rf $S; mkdir -p $S
rsync -a --exclude .git --exclude replays /verif/ $S/verif/
git -C /repo worktree add --detach $S/repo HEAD >/dev/null 2>&1 || exit 2
export VERIF_REPO=$S/repo
out=/verif/seeded/RESULTS$tag.txt
: > $out.new
for d in $(ls /verif/seeded | grep "^$pat" | sort); do
  [ -f /verif/seeded/$d/patch.diff ] || continue
  id=${d%%_*}
  if ! git -C $S/repo apply /verif/seeded/$d/patch.diff 2>/dev/null; then echo "$d PATCH-DOES-NOT-APPLY" >> $out.new; continue; fi
  t0=$(date +%s)
  line=$(cd $S/verif && timeout 3000 /venv/bin/python tools/check.py $id --tier quick 2>&1 | grep -m1 "^VIOLATION")
  t1=$(date +%s)
  git -C $S/repo checkout -q -- . ; git -C $S/repo clean -fdq
  if [ -z "$line" ]; then echo "$d MISSED ($((t1-t0))s)" >> $out.new
  elif echo "$line" | grep -q no-failing-input-found; then echo "$d caught-without-input ($((t1-t0))s)" >> $out.new
  else echo "$d caught ($((t1-t0))s)" >> $out.new; fi
done
git -C /repo worktree remove --force $S/repo; rm -rf $S
mv $out.new $out
