"""Hiding a parameter key (C10, C18): exhaustive probe over a catalogue of keys that cannot be hidden and keys that can.

Template.add(name, value, showkey=False) and Parameter.showkey = False must raise ValueError for every key
that is not a positive integer without leading zeros / sign / other digits, and leave the template exactly as it was;
for a key that can be hidden they must succeed."""
import copy
import re

CANNOT = ["0", "00", "007", "01", "-1", "+1", "1.5", "1e3", "1_0", "0x1", "1 2", "٣", "１", "²", "①", "a", "a1", "1a", "", " ", "\n",
          "1\n2", "{{x}}", "1{{x}}", "1<!--c-->0", "١٢"]
CAN = ["1", "2", "9", "10", "12", " 3 ", "\n4\n", "100"]
NUM = re.compile(r"[1-9][0-9]*$")
TEMPLATES = ["{{t}}", "{{t|a}}", "{{t|a|b}}", "{{t|x=1}}", "{{t|a|x=1|b}}", "{{t| k = v | k2 = v2 }}"]
VALUES = ["new", "", "a=b", " v "]


def state(t):
    return (str(t), [(str(p.name), str(p.value), p.showkey) for p in t.params])


def probe():
    """-> list of failure descriptions (empty = fine), number of probes"""
    import mwparserfromhell as M
    fails = []
    n = 0
    for tpl in TEMPLATES:
        for key in CANNOT + CAN:
            hideable = bool(NUM.match(key.strip()))
            for existing in (False, True):
                for val in VALUES[:2] if not existing else VALUES:
                    src = tpl
                    if existing:
                        if key.strip() == "" or "\n" in key or "{" in key or "<" in key:
                            continue
                        src = tpl[:-2] + "|" + key + "=old}}"
                    try:
                        t = M.parse(src).nodes[0]
                    except Exception:      # noqa: BLE001
                        continue
                    if not hasattr(t, "params"):
                        continue
                    if existing and not t.has(key):
                        continue
                    n += 1
                    before = state(t)
                    try:
                        t.add(key, val, showkey=False)
                        if not hideable:
                            fails.append("%r .add(%r, %r, showkey=False) hid a key that is not a positive integer: %r" % (src, key, val, str(t)))
                    except ValueError:
                        if state(t) != before:
                            fails.append("%r .add(%r, %r, showkey=False) raised ValueError but changed the template: %r -> %r" % (src, key, val, before[0], str(t)))
                        elif hideable and not existing and _next_positional(before) == int(key.strip()):
                            fails.append("%r .add(%r, %r, showkey=False) refused the next positional key" % (src, key, val))
                    except Exception as e:     # noqa: BLE001
                        fails.append("%r .add(%r, %r, showkey=False) raised %r" % (src, key, val, e))
                    # the setter on an existing parameter
                    if existing:
                        t = M.parse(src).nodes[0]
                        p = t.get(key)
                        before = state(t)
                        try:
                            p.showkey = False
                            if not hideable:
                                fails.append("%r: showkey = False on the key %r hid a key that is not a positive integer: %r" % (src, key, str(t)))
                        except ValueError:
                            if state(t) != before:
                                fails.append("%r: showkey = False on %r raised ValueError but changed the template" % (src, key))
                            elif hideable:
                                fails.append("%r: showkey = False on the hideable key %r was refused" % (src, key))
                        except Exception as e:     # noqa: BLE001
                            fails.append("%r: showkey = False on %r raised %r" % (src, key, e))
    return fails, n


def _next_positional(before):
    hidden = sum(1 for _n, _v, sk in before[1] if not sk)
    return hidden + 1


def work(_items):
    return [probe()]
