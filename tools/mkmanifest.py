#!/usr/bin/env python3
"""Regenerates MANIFEST.json from the table below (kept in one place so that it is always valid)."""
import json, os
V = os.path.dirname(os.path.dirname(os.path.abspath(__file__)))

CHECKS = {
 "C12": dict(
    category="proof",
    text="Theorem (Coq, all pages and all option combinations): the loop of get_sections equals a declarative "
         "specification (one section per qualifying heading, from the heading to the next heading of the same or "
         "higher rank); consequences proved: flat+lead partition, extent, nesting, exact filtering, "
         "include_headings=False drops only the heading, page order. The model is tied to /repo by running "
         "Wikicode.get_sections and the extracted model on the same pages/options and comparing view bounds.",
    design_ref="DESIGN.md section 5, C12",
    note="Trusted: Coq kernel; extraction (ExtrOcamlBasic) + OCaml driver; the correspondence harness; a page is "
         "abstracted to its top-level node list; sorted() modelled as a stable sort on start indices. No axioms.",
    technique="Coq proof of model = spec (induction, loop invariant on the open-heading stack) + model/implementation correspondence"),
 "C13": dict(
    category="proof",
    text="Theorems (Coq, any element type, all states reachable by any sequence of operations on the parent or any sub-list): "
         "every sub-list stays inside its parent (0<=start<=stop<=len) hence is always readable; each operation through a sub-list "
         "has the result/exception/new content of the same operation on a plain list and the parent reflects it at the sub-list's "
         "offset; every other sub-list keeps exactly its survivors in order and gains at most the operation's new elements "
         "(view_after_splice); reverse/sort detach views with all their elements. The model follows the code method by method and is "
         "tied to /repo by comparing result, parent and every view after every step of exhaustive single steps and random histories; "
         "the plain-list spec is tied to CPython's list the same way.",
    design_ref="DESIGN.md section 5, C13",
    note="Trusted: Coq kernel; extraction + OCaml driver; harness. Model covers step-1 slices; extended slices, */*=, comparisons, "
         "pickling and GC of views are outside. Hypothesis: the sort function preserves length. No axioms.",
    technique="Coq proof (invariant by induction over operation sequences, refinement to plain-list splice) + model/implementation correspondence"),
 "C11": dict(
    category="proof",
    text="Theorems (Coq, on top of C13, for every state with valid views and every history of edit calls): an edit through a "
         "section equals the same edit on a plain node list and appears in the page at the section's place; an edit through the page "
         "is the plain-list edit; every other section stays a valid, readable view related to its old content by a chain of splices "
         "that only delete or insert the edit's own new nodes (so it gains nothing from outside); validity holds after any sequence "
         "of edits; page.append/extend reaches every section that ran to the end of the page. Each Wikicode call (insert/append/set/remove/replace/insert_before/insert_after by index, node or view) is "
         "modelled as the list operations the code performs; tied to /repo by comparing page and section contents/bounds after "
         "every call on parsed pages with get_sections views; string targets and nested edits are checked by the oracle only.",
    design_ref="DESIGN.md section 5, C11",
    note="Trusted: as C13, plus: node identity modelled by integers; parse_anything returns the given nodes for Node/Wikicode values. "
         "String-target edits are validated (oracle), not modelled. No axioms.",
    technique="Coq proof (composition of C13 over operation sequences) + model/implementation correspondence on real pages"),
 "C20": dict(
    category="proof",
    text="Theorems (Coq, all strings, any isspace/upper with isspace(' ')=true): matches is the kernel of a normal form, hence "
         "reflexive, symmetric, transitive; it ignores surrounding whitespace, underscores versus spaces and the case of the first "
         "character, and nothing else (iff-characterisation); an iterable matches iff some element does. Tied to /repo by running "
         "Wikicode.matches and the extracted model (fed with the implementation's strip_code output) on generated name pairs, and by "
         "the property oracle incl. str/node/Wikicode agreement and markup removal.",
    design_ref="DESIGN.md section 5, C20",
    note="Trusted: Coq kernel; extraction + driver; harness; strip_code is abstract (its output is the model's input); "
         "isspace/upper tables dumped from CPython. No axioms.",
    technique="Coq proof (kernel of a normalising function; list induction for strip) + model/implementation correspondence"),
 "C17": dict(
    category="proof",
    text="Theorems (Coq): restoring a pickle of a page with some of its views gives valid, registered views with the same content "
         "(pickle_copy over the C13 model); any operation touches only the store of its target, so original and copy never influence "
         "each other (frame theorem, all operations, all states); the pickling methods are pinned to the modelled shape on definitions "
         "regenerated from /repo's source. Tied to /repo by driving objects RESTORED from pickle (every protocol) through C11's edit "
         "histories against the extracted model, and by an oracle on grammar documents x {tree, tree+views, lone view, node} x "
         "{protocols, deepcopy}: text, structure, same slice-info object registered, no shared mutable object, edits both ways.",
    design_ref="DESIGN.md section 5, C17",
    note="Trusted: CPython's pickle/copy build an isomorphic object graph following __reduce_ex__/__setstate__; C13/C11 trusted base; "
         "the source-to-Coq generator for the protocol methods (ast.unparse). No axioms.",
    technique="Coq proof (frame property + copy invariant) + generated protocol shape + model/implementation correspondence on restored objects"),
 "C16": dict(
    category="proof",
    text="Theorems (Coq) over a model of Python attribute lookup and tables regenerated on every run from CPython (dir(str), dir(object)) "
         "and /repo (StringMixIn's definitions and method bodies, names defined by each node class): a str name nobody defines is "
         "delegated to str(x); a name str lacks raises AttributeError without rendering; every explicit magic method has a body that "
         "delegates to str(self) with operands in order; no text behaviour of str is shadowed by object (only 13 object-describing names "
         "are); a class defines a name of dir(str) itself only where that is documented (__str__, __init__, Wikicode.index/replace, the title "
         "attributes, Template.__getitem__). Tied to /repo by comparing the model's lookup outcome with real lookup on live objects for every class x name, and by "
         "an oracle applying every delegated name (25 argument tuples) and every operator to x and to str(x), incl. objects emptied by edits, "
         "operands of another class with the same rendering, and call - edit - call histories.",
    design_ref="DESIGN.md section 5, C16",
    note="Trusted: the lookup model (class MRO, mixin, object, __getattr__); the generator (introspection + ast.unparse); operators + * % "
         "and 13 object-describing names are outside the claim; bytes(x) is compared with str(x).encode(default). No axioms.",
    technique="Coq proof over generated tables (finite, vm_compute) + lookup model lemmas + differential oracle against str"),
 "C01": dict(
    category="proof",
    text="PARTIAL. Proved (Coq, all trees): the Builder rebuilds every well-formed tree from its token stream exactly and the rebuilt "
         "tree renders the same text; rendering is compositional. The Builder and node-rendering model is tied to /repo by comparing, "
         "for every token stream both real tokenizers produce on the input stream, the real tree and its text with the extracted "
         "model's, and by observing that every real stream is in the image of the flattening on which the theorem speaks. NOT proved: "
         "that the tokenizers' output spells the input (1.5k-line backtracking tokenizer, C twin): validated by the round-trip oracle "
         "on table-driven + generated inputs (both tokenizers, skip_style_tags, URL context) and on text assigned through setters."
         " TOKENIZER FRAGMENTS (coq/HeadingFrag.v: only markers '=' and newline - plain text and section headings incl. the depth-limited recursion of _handle_heading_end; coq/EntityFrag.v: only markers & # ; < ! - > - HTML entities and HTML comments in running text, the same theorems for every marker/entity table and size limit; coq/MixFrag.v: all combined on multi-line documents - headings whose titles contain entities and comments, comments spanning lines): on these sub-languages both tokenizers ARE modelled; proved for EVERY string and depth limit: the model's tree renders to the input and the proved Builder applied to the model's token stream returns a tree rendering to the input "
         "(C01 end to end on the fragment); tied to BOTH real tokenizers by comparing token lists on every string over {=,\\n,a} up to length 9, random fragment strings and the MAX_DEPTH neighbourhood.",
    design_ref="DESIGN.md section 5, C01",
    note="Trusted: Coq kernel; extraction + driver; harness; crash-isolating workers. The tokenizer half is testing, not proof. No axioms.",
    technique="Coq proof of the Builder/rendering half (build o flatten = id, induction on token-stream length) and of the full round trip on the modelled tokenizer fragment (headings/plain text) + model/implementation correspondence + round-trip oracle (testing) for the rest of the tokenizers"),
 "C02": dict(
    category="proof",
    text="PARTIAL. Proved (Coq): on the token stream of every well-formed tree the Builder returns a tree (no ParserError, fuel bound), "
         "each node being consumed whatever follows it. NOT proved: that the tokenizers never raise and always emit such streams: "
         "validated by parsing table-driven, generated and memo-collision inputs with both tokenizers in crash-isolating workers "
         "(exception, hang, killed interpreter = failure) and by the Builder model tie on every real stream."
         " TOKENIZER FRAGMENTS (coq/HeadingFrag.v: only markers '=' and newline - plain text and section headings incl. the depth-limited recursion of _handle_heading_end; coq/EntityFrag.v: only markers & # ; < ! - > - HTML entities and HTML comments in running text, the same theorems for every marker/entity table and size limit; coq/MixFrag.v: all combined on multi-line documents - headings whose titles contain entities and comments, comments spanning lines): on these sub-languages both tokenizers ARE modelled; the model is a total function and the Builder accepts its stream for every string and depth limit (C02_fragment_total); tied to both tokenizers by correspondence.",
    design_ref="DESIGN.md section 5, C02",
    note="Trusted: as C01. The tokenizer half is testing, not proof. No axioms.",
    technique="Coq proof of Builder totality on well-formed streams and of totality on the modelled tokenizer fragment + correspondence + totality oracle (testing) for the rest of the tokenizers"),
 "C03": dict(
    category="proof",
    text="PARTIAL. Proved (Coq, all well-formed trees): build (flatten t) = t - same kinds, nesting, names, values, levels, attributes, "
         "flags - and positional parameters are named 1,2,3... NOT proved: tokenizer completeness tokenize(render t) = flatten t: "
         "validated by generating trees of well-formed constructs as real node objects, rendering them and comparing the tree parsed "
         "by BOTH tokenizers field by field; tables by substitution into skeletons. On the modelled tokenizer fragment (coq/HeadingFrag.v) every recognised heading has a level in 1..6 (C03_fragment_heading_levels).",
    design_ref="DESIGN.md section 5, C03",
    note="Trusted: as C01; the tree generator's grammar (context rules listed in the evidence). No axioms.",
    technique="Coq proof of the Builder half + grammar-based generation with field-by-field comparison (testing) for the tokenizers"),
 "C04": dict(
    category="proof",
    text="PARTIAL. Proved (Coq) on tables regenerated on every run from BOTH sources (Python modules imported; C headers/sources parsed): "
         "context flags, tag contexts, markers (+NUM_MARKERS, regex class), MAX_DEPTH, MAX_BRACES, URI scheme lists, tag classes, markup "
         "map, token names, entity tables agree; flags are distinct bits, aggregates use declared bits; the C sources use only the Unicode "
         "character-class macros; for ALL strings the Python lookup "
         "(lower() in TABLE) and the C lookup (ASCII strcmp) agree. NOT proved: equality of the token streams: checked by differential "
         "execution on table-driven inputs (every scheme/tag/entity/brace-run form) and the generated stream, on new tokenizer instances and "
         "on instances that have tokenized up to five other inputs before (a difference is reported with the history)."
         " TOKENIZER FRAGMENTS (coq/HeadingFrag.v: only markers '=' and newline - plain text and section headings incl. the depth-limited recursion of _handle_heading_end; coq/EntityFrag.v: only markers & # ; < ! - > - HTML entities and HTML comments in running text, the same theorems for every marker/entity table and size limit; coq/MixFrag.v: all combined on multi-line documents - headings whose titles contain entities and comments, comments spanning lines): on these sub-languages both tokenizers ARE modelled; each tokenizer is tied to the model instantiated with ITS OWN MAX_DEPTH, and the two instances are proved equal for every string (C04_fragment_streams_agree).",
    design_ref="DESIGN.md section 5, C04",
    note="Trusted: the table generator (import + #define/array parsing, fail-closed); stream equality is testing. No axioms.",
    technique="Coq proof over generated constant tables (vm_compute) + lookup equivalence lemma + proved stream equality on the modelled tokenizer fragment (correspondence to both tokenizers) + differential execution of both tokenizers (testing) elsewhere"),
 "C14": dict(
    category="proof",
    text="PARTIAL. Proved (Coq, all trees): a token stream with no empty and no adjacent Text tokens yields a tree in which NO node list, "
         "top-level or nested, has an empty or two adjacent Text nodes; with the Builder theorem this reduces canonical trees to canonical "
         "streams. NOT proved: that the tokenizers only emit canonical streams: validated on both tokenizers' streams and on every node "
         "list of every parsed tree over the shared input stream."
         " TOKENIZER FRAGMENTS (coq/HeadingFrag.v: only markers '=' and newline - plain text and section headings incl. the depth-limited recursion of _handle_heading_end; coq/EntityFrag.v: only markers & # ; < ! - > - HTML entities and HTML comments in running text, the same theorems for every marker/entity table and size limit; coq/MixFrag.v: all combined on multi-line documents - headings whose titles contain entities and comments, comments spanning lines): on these sub-languages both tokenizers ARE modelled; the text-buffer discipline yields a canonical tree for EVERY string and depth limit (C14_fragment_canonical); tied to both tokenizers by correspondence.",
    design_ref="DESIGN.md section 5, C14",
    note="Trusted: as C01. The tokenizer half is testing, not proof. No axioms.",
    technique="Coq proof (canonical tokens => canonical tree, induction on stream length; canonical output of the modelled tokenizer fragment) + correspondence + canonical-form oracle (testing) for the rest of the tokenizers"),
 "C05": dict(
    category="proof",
    text="PARTIAL. Proved (Coq), on call lists regenerated on every run from tokenizer.py (ast) and tok_parse.c (brace-aware scan): outside "
         "four context-bounded recursions NO cycle of calls between tokenizer functions avoids the depth-limit test (_can_recurse / "
         "Tokenizer_CAN_RECURSE), and a call stack with D depth-limited calls has at most (D+1)*13 frames - for every stack, both tokenizers. "
         "NOT proved: the quadratic work bound, the route memo, native stack size. Those are decided by measurement: 70 size-parameterised "
         "adversarial families (unclosed / crossed / nested openers of every construct, repeated delimiters) plus pairs of alternating "
         "unclosed openers out of 28 (48 random pairs quick, all 756 thorough) at sizes 8..64 then doubling, in "
         "crash-isolating workers: deterministic Python work counts (quadratic envelope, last doubling <= 2^2.7, frame depth <= 420), C CPU time "
         "(<= 2^2.9 per doubling), tree depth, and render/filter/strip/pickle of every tree.",
    design_ref="DESIGN.md section 5, C05",
    note="Trusted: the call-graph translator (tools/gen_defs.py gen_recursion, fail-closed on unknown guard shapes); the exempt list in "
         "coq/props/C05.v; growth thresholds. The work bound is measurement, not proof. No axioms.",
    technique="Coq proof (rank certificate => no unguarded recursion cycle, call-stack bound) over generated call graphs + growth measurement on doubling families (testing)"),
 "C06": dict(
    category="proof",
    text="Theorem (Coq): for ALL prior object states - hence every history of earlier calls, completed or aborted at any point - a call "
         "whose initial reset overwrites every field its body reads returns the same result. The premise is discharged on field lists "
         "regenerated from /repo on every run: every self.<field> of Tokenizer/Builder/Parser vs the fields assigned at the start of "
         "tokenize()/build(); the members of the C Tokenizer struct vs what Tokenizer_tokenize resets before Tokenizer_parse. Tied to the "
         "code additionally by histories on one Tokenizer/CTokenizer/Parser object with a BaseException injected at the k-th token "
         "construction, token attribute read, Builder token or the k-th _push/_pop/_emit/_emit_text, followed by calls compared with a "
         "fresh object's and a check for leftover frames, in crash-isolating children; the injected exception must surface as itself.",
    design_ref="DESIGN.md section 5, C06",
    note="Trusted: hypothesis that a method body reaches instance state only through self.<field> (Python attribute semantics); the "
         "AST / C-text scanner; for C, memory of an abandoned call being released is a C07 matter. No axioms.",
    technique="Coq proof (state-ownership: call = body o reset, quantified over all prior states) over generated field lists + fault-injection histories"),
 "C19": dict(
    category="proof",
    text="PARTIAL. Proved (Coq): machines whose steps touch only their own instance state yield, under EVERY interleaving, the result of "
         "their solo runs; on lists regenerated from the source: C file-scope variables are written only by module initialisation "
         "(+ the idempotent lazy load of ParserError), the Python package has no `global` statement and creates no Tokenizer/Builder/Parser instance at import time or on a "
         "class, every part a Parser stores is a fresh instance made in its own __init__, every tokenizer/builder call "
         "depends only on its own instance (C06). NOT modelled: the GIL, CPython's thread safety, the memory model: validated by "
         "8-16 threads parsing with own objects and through mwparserfromhell.parse() at a 1 microsecond switch interval against sequential results, both tokenizers.",
    design_ref="DESIGN.md section 5, C19",
    note="Trusted: the C-text scanner for file-scope variables and their writers; the stress run is testing. No axioms.",
    technique="Coq proof (interleaving independence by induction over schedules) over generated ownership facts + thread stress run (testing)"),
 "C09": dict(
    category="proof",
    text="Theorems (Coq, all trees): the pre-order walk of _get_children is the node followed by the walks of exactly the Wikicodes "
         "__children__ yields; every Wikicode that contributes text to a node is yielded (emptying all others leaves the rendering "
         "unchanged); walks concatenate. The model of __children__ / __str__ per class is tied to /repo by comparing the model's walk "
         "(kinds and text lengths, computed from the REAL token stream) with filter() on parsed trees. Identity-based clauses (each "
         "node once, typed filters, non-recursive filter, contains, index(recursive), get_ancestors, get_parent, get_tree) are "
         "checked by the oracle against an independent attribute walk for every node of every generated tree; a node the walk finds and "
         "filter() does not must lie in a Wikicode its parent does not render.",
    design_ref="DESIGN.md section 5, C09",
    note="Trusted: Coq kernel; extraction + driver; the hand-written per-class children/str model (tied by correspondence). No axioms.",
    technique="Coq proof over the node-tree model (children cover rendering; walk = node :: children walks) + correspondence + navigation oracle"),
 "C15": dict(
    category="proof",
    text="Theorems (Coq, every well-formed tree, any visibility table, any entity normaliser): with normalize off and template "
         "parameters not kept, strip_code returns a subsequence of the source text, with and without collapse (collapse itself only "
         "removes characters); with normalize on (or off) every returned string is a subsequence of the source after each entity is "
         "replaced by its character; every named entity of the generated table normalises to one character; numeric boundaries. The model "
         "(Wikicode.strip_code + each node's __strip__) is total by construction and tied to /repo by comparing strip_code for all 8 "
         "option combinations on real token streams. Totality on the implementation is checked by the oracle.",
    design_ref="DESIGN.md section 5, C15",
    note="Trusted: as C09; int() of entity values modelled for ASCII digits; is_visible with ASCII lower-casing. No axioms.",
    technique="Coq proof (subsequence by induction on token-stream length of the tree) + correspondence on all option combinations + oracle"),
 "C18": dict(
    category="proof",
    text="Theorems (Coq): every property setter of every node class, regenerated from /repo's source on every run as an effect program, "
         "is atomic - on no execution path (any call may raise) does a store to the object precede a possible raise; all setters the "
         "property names are present; over every sequence of value/quotes assignments an attribute whose value has whitespace has "
         "quotes; the keys can_hide_key accepts are the positive integers without leading zeros (regenerated pattern). Exhaustive probes on the "
         "implementation for hiding keys, Tag.add and the HTMLEntity setters. Oracle on the implementation: every settable attribute x valid/invalid catalogues x value types x sequences: "
         "rejection leaves vars() unchanged, acceptance renders the assigned text and nested markup is navigable, whitespace values "
         "are rendered quoted. 'Renders the assigned text exactly' rests on C01's round trip (validated, not proved).",
    design_ref="DESIGN.md section 5, C18",
    note="Trusted: the AST-to-effect translator (fail-closed; any call except bool/isinstance/len may raise, attribute reads pure); "
         "the trace semantics of the effect language (over-approximates Python's). No axioms.",
    technique="Coq: verified-by-computation atomicity checker over generated setter programs + state-machine invariant proof + setter oracle"),
 "C10": dict(
    category="proof",
    text="Theorems (Coq, any name/value types): over EVERY sequence of add/remove calls hidden keys stay positional (the i-th hidden "
         "parameter is named i); add makes has() true; remove (without keep_field) makes the name disappear and leaves the names of "
         "all other parameters unchanged and in order - removing a positional parameter makes the following ones explicit; "
         "keep_field keeps the name. The model follows remove/_should_remove/_fix_dependendent_params/add with the library's own "
         "key-visibility choice (incl. showing the key for a value whose '=' cannot be escaped) and is tied to /repo by comparing (stripped name, showkey) lists after every call. The re-parse "
         "clause (render, parse, compare names/values/visibility; get() finds the value) is checked by the oracle, not proved; what IS proved "
         "about values: after _surface_escape (modelled, tied by running the real function) no '|' - and for a hidden key no '=' - is left "
         "outside the brackets of a nested node, headings and external links included, and nothing else is changed.",
    design_ref="DESIGN.md section 5, C10",
    note="Trusted: names are plain text; showkey=/before=/after= not passed; values opaque in the model; the re-parse clause is testing. No axioms.",
    technique="Coq proof (invariant by induction over operation sequences on the parameter list) + model/implementation correspondence + re-parse oracle"),
 "C07": dict(
    category="proof",
    text="PARTIAL. Proved (Coq): over a bounds-checked memory, EVERY sequence of Textbuffer operations (write with growth, concat, reverse, "
         "reset, render, the `length -= n` truncation after the backwards scheme scan) stays inside the allocated object and computes the "
         "plain-list result; the entity text buffer stays inside calloc(MAX_ENTITY_SIZE+1) with its terminator; the brace text buffer holds "
         "the longest run. Comparison operators, constants and growth expressions are regenerated from textbuffer.c / tok_parse.c on every "
         "run (template matcher, fail-closed) and the extracted model is run against the real textbuffer.c through a ctypes shim. NOT proved: "
         "reference counting, frees, the AVL tree, undefined behaviour elsewhere. Those are decided by an AddressSanitizer+UBSan build "
         "(PYTHONMALLOC=malloc) over table inputs, adversarial families, grammar documents in all three string widths and calls aborted at "
         "every k-th token construction / attribute read followed by reuse, by libc mallinfo2 / reference counts over windows of repeated "
         "completed and aborted calls, and by a run under PYTHONMALLOC=debug (allocator-family mismatches).",
    design_ref="DESIGN.md section 5, C07",
    note="Trusted: gcc's sanitizers; mallinfo2; the template matcher and shim. Whole-extension memory safety is execution on explored inputs, "
         "not proof. No axioms.",
    technique="Coq proof (buffer model over bounds-checked memory, parameters regenerated from C) + model/implementation correspondence via shim + ASan/UBSan and allocation-count execution (testing)"),
 "C08": dict(
    category="proof",
    text="Theorems (Coq, any node type, at the level of the node list that holds the target): for a node target found at position |P| "
         "(L = P ++ x :: Q, x not in P) remove / replace / insert_before / insert_after yield exactly P ++ Q / P ++ new ++ Q / "
         "P ++ new ++ x :: Q / P ++ x :: new ++ Q, so all other nodes keep identity and order; a target that is not found gives "
         "ValueError (nothing changed); insert(index) puts the value's nodes IN ORDER at the position list.insert would use for any "
         "index; append adds at the end; any rendering distributes over the pieces, so exactly the target's span of text changes. "
         "Through enclosing nodes (all trees): a Wikicode in any place __children__ yields, at any depth, is rendered verbatim once "
         "between a prefix and a suffix independent of it, so an edit of a nested list changes exactly its span of the page text. "
         "String targets with exact matches in one node list (a model of the right-to-left scan of _do_weak_search): the result is the list "
         "with n >= 1 disjoint occurrences of the pattern replaced and every other node kept in order; ValueError exactly when the pattern "
         "is empty or occurs nowhere; in the text exactly those occurrences change - tied to /repo by running the real string-target calls "
         "and the extracted model on the same lists. The list-level model is the one tied to /repo in C11. The inexact string fall-back is "
         "checked by an oracle on parsed trees (targets at any depth located by identity, equal-text nodes, foreign nodes, indices, strings, "
         "section views held and used as targets or as values).",
    design_ref="DESIGN.md section 5, C08",
    note="Trusted: as C11/C13, C09 (children_of tie); node equality '==' modelled as an arbitrary boolean relation; the inexact string path is testing. No axioms.",
    technique="Coq proof (list decomposition at the found index, induction over the inserted nodes) + edit oracle on parsed trees"),
}

NOT_YET = {}

def main():
    props = [json.loads(l) for l in open(os.path.join(V, "properties.jsonl"))]
    checks, na = [], []
    for p in props:
        pid = p["id"]
        if pid in CHECKS:
            c = CHECKS[pid]
            checks.append({
                "property_id": pid,
                "quick_cmd": "/venv/bin/python tools/check.py %s --tier quick" % pid,
                "thorough_cmd": "/venv/bin/python tools/check.py %s --tier thorough" % pid,
                "evidence_file": "/verif/evidence/%s.json" % pid,
                "replay_cmd_template": "/venv/bin/python tools/check.py %s --replay {path}" % pid,
                "engine": "coq-model-correspondence",
                "level_claimed": {"category": c["category"], "text": c["text"], "design_ref": c["design_ref"]},
                "level_note": c["note"],
                "technique": c["technique"],
            })
        else:
            na.append({"property_id": pid, "reason": NOT_YET.get(pid, "check not built yet in this development (work in progress; see DESIGN.md section 10 for the order of work)")})
    m = {
        "version": 1,
        "setup_cmd": "make -C /verif all",
        "hooks": {"guard": "MWPFH_VERIF", "enable": "no hooks are needed: checks import /repo/src directly and compile the C tokenizer from /repo's sources into /verif/.build",
                  "baseline_off_cmd": "cd /repo && /venv/bin/python -m pytest -q -p no:cacheprovider",
                  "source_commits": [], "add_only": True},
        "engines": [{"name": "coq-model-correspondence", "path": "/verif/tools/check.py",
                     "serves_properties": [c["property_id"] for c in checks],
                     "kind_free_text": "Coq 8.16.1 development in /verif/coq (models, proofs, property theorems in coq/props), "
                                       "extracted models + OCaml drivers, Python correspondence harness and property oracles"}],
        "checks": checks,
        "not_applicable": na,
        "notes": "See DESIGN.md. known_findings.json lists defects of the pinned tree (kept or fixed).",
    }
    json.dump(m, open(os.path.join(V, "MANIFEST.json"), "w"), indent=1)

main()
