"""Input generators shared by the checks: grammar documents, mutations, marker-heavy noise.
Every choice comes from the random.Random instance passed in."""

WORDS = ["foo", "bar", "Baz", "x", "y z", "1", "äö", "日本", "𝒳", "a b", "q"]
TAGS = ["b", "i", "span", "div", "ref", "small", "code", "s", "u", "center"]
UNPARSED = ["nowiki", "pre", "math", "gallery", "source", "syntaxhighlight"]
SINGLE = ["br", "hr", "li", "dt", "dd", "wbr"]
ENTS = ["amp", "nbsp", "lt", "Sigma", "thetasym", "#32", "#x41", "#1234", "#x10FFFF", "eacute", "#X3A3", "#Xe9", "#00065"]
SCHEMES = ["http://", "https://", "ftp://", "mailto:", "//", "irc://", "news:", "gopher://"]

ATOMS = ["{{", "}}", "{{{", "}}}", "[[", "]]", "[", "]", "|", "=", "==", "===", "\n", "\n\n", " ", "<", ">", "</", "/>",
         "<!--", "-->", "&", ";", "&amp;", "&apos;", "&check;", "&AMP;", "&#x", "&#", "''", "'''", "'''''", "'", "#", "*", ";", ":", "----", "-----",
         "{|", "|}", "|-", "||", "!!", "!", "|+", "http://", "https://a.b", "mailto:", "//", "://", "<ref>", "</ref>",
         "<br>", "<br/>", "<nowiki>", "</nowiki>", "<b>", "</b>", "<li>", "</br>", "\\", "\"", "a", "b", "foo", "x=y", "1",
         "{", "}", "\t", "_", ".", ",", "(", ")", "é", "ß", "\u0085", "\U0001d4b3", "<!-", "<pre>", "</pre>", "<hr>",
         "style=\"a\"", " class=x", "<span ", "<div a='b'>", "</div>", "-", "--", "~~~~", "__TOC__", "%", "@", "?", "+"]


def word(rng):
    return rng.choice(WORDS)


def gen_inline(rng, depth, ctx=""):
    """one inline construct; ctx restricts what may nest ('link' = no links inside)"""
    c = rng.random()
    if depth <= 0 or c < 0.3:
        return word(rng)
    if c < 0.45:
        n = rng.randint(0, 3)
        parts = [rng.choice(["t", "tpl ", "Cite web", "a_b"])]
        for k in range(n):
            if rng.random() < 0.5:
                parts.append(gen_text(rng, depth - 1, ctx))
            else:
                parts.append(rng.choice(["k", "key ", " n1", "2"]) + "=" + gen_text(rng, depth - 1, ctx))
        return "{{" + "|".join(parts) + "}}"
    if c < 0.5:
        return "{{{" + rng.choice(["1", "arg"]) + (("|" + gen_text(rng, depth - 1, ctx)) if rng.random() < 0.5 else "") + "}}}"
    if c < 0.6 and ctx != "link":
        t = "[[" + rng.choice(["Page", "File:x.png", "a#b", "Cat:é"])
        if rng.random() < 0.5:
            t += "|" + gen_text(rng, depth - 1, "link")
        return t + "]]"
    if c < 0.68 and ctx != "link":
        url = rng.choice(SCHEMES) + rng.choice(["example.com", "a.b/c?d=e", "x.org/~u"])
        if rng.random() < 0.6:
            return "[" + url + ((" " + gen_text(rng, depth - 1, "link")) if rng.random() < 0.7 else "") + "]"
        return url + " "
    if c < 0.73:
        return "<!--" + rng.choice(["", " c ", "x-y", "{{not}}"]) + "-->"
    if c < 0.79:
        return "&" + rng.choice(ENTS) + ";"
    if c < 0.87:
        tag = rng.choice(TAGS)
        attrs = ""
        for _ in range(rng.randint(0, 2)):
            k = rng.choice(["id", "class", "style", "name"])
            v = rng.choice(["x", "a b", "{{t}}", ""])
            q = rng.choice(['"', "'"]) if (" " in v or not v or rng.random() < 0.5) else ""
            attrs += " " + k + "=" + q + v + q
        if rng.random() < 0.15:
            return "<" + tag + attrs + rng.choice(["/>", " />"])
        return "<" + tag + attrs + ">" + gen_text(rng, depth - 1, ctx) + "</" + tag + ">"
    if c < 0.9:
        tag = rng.choice(UNPARSED)
        return "<" + tag + ">" + rng.choice(["raw {{x}} [[y]]", "a < b", ""]) + "</" + tag + ">"
    if c < 0.93:
        return "<" + rng.choice(SINGLE) + rng.choice([">", "/>", " />"])
    if c < 0.97:
        q = rng.choice(["''", "'''", "'''''"])
        return q + word(rng) + q
    return word(rng)


def gen_text(rng, depth, ctx=""):
    return "".join(gen_inline(rng, depth, ctx) + rng.choice(["", " ", ""]) for _ in range(rng.randint(1, 3)))


def gen_block(rng, depth):
    c = rng.random()
    if c < 0.3:
        return gen_text(rng, depth) + "\n"
    if c < 0.5:
        lvl = rng.randint(1, 6)
        return "=" * lvl + " " + gen_text(rng, min(depth, 1), "heading").replace("\n", " ") + " " + "=" * lvl + "\n"
    if c < 0.65:
        return rng.choice(["*", "#", ";", ":", "**", "*#", ":;"]) + " " + gen_text(rng, depth - 1) + "\n"
    if c < 0.7:
        return "----" + rng.choice(["", "-", "--"]) + "\n"
    if c < 0.85:
        rows = []
        for _ in range(rng.randint(1, 3)):
            cells = []
            for _ in range(rng.randint(1, 3)):
                cells.append(rng.choice(["| ", "! ", "| style=\"x\" | "]) + gen_text(rng, depth - 1).replace("\n", " "))
            rows.append("|-\n" + "\n".join(cells))
        return "{| class=\"wikitable\"\n" + "\n".join(rows) + "\n|}\n"
    return gen_text(rng, depth) + "\n\n"


def gen_doc(rng, depth=3, blocks=None):
    n = rng.randint(1, 5) if blocks is None else blocks
    return "".join(gen_block(rng, depth) for _ in range(n))


def mutate(rng, s, n=None):
    """delete / duplicate / transpose / insert marker atoms"""
    n = rng.randint(1, 4) if n is None else n
    for _ in range(n):
        if not s:
            s = rng.choice(ATOMS)
            continue
        i = rng.randrange(len(s))
        c = rng.random()
        if c < 0.3:
            j = min(len(s), i + rng.randint(1, 3))
            s = s[:i] + s[j:]
        elif c < 0.5:
            j = min(len(s), i + rng.randint(1, 4))
            s = s[:j] + s[i:j] + s[j:]
        elif c < 0.65 and len(s) > 2:
            j = rng.randrange(len(s))
            i, j = min(i, j), max(i, j)
            s = s[:i] + s[j:j + 1] + s[i + 1:j] + s[i:i + 1] + s[j + 1:]
        else:
            s = s[:i] + rng.choice(ATOMS) + s[i:]
    return s


def noise(rng, maxatoms=12):
    return "".join(rng.choice(ATOMS) for _ in range(rng.randint(0, maxatoms)))


def any_input(rng, size="small"):
    """the mixed stream used by the tokenizer-level properties"""
    c = rng.random()
    if c < 0.35:
        return noise(rng, 12 if size == "small" else 45)
    if c < 0.6:
        return gen_doc(rng, depth=2 if size == "small" else 4, blocks=rng.randint(1, 2 if size == "small" else 6))
    if c < 0.9:
        return mutate(rng, gen_doc(rng, depth=2 if size == "small" else 3, blocks=rng.randint(1, 2 if size == "small" else 4)))
    u = ["\0", "\u0085", "K", "\U0001d4b3", "\ud800", "\udfff", " ", " ", "﻿", "\U0010ffff"]
    return "".join(rng.choice(ATOMS + u) for _ in range(rng.randint(1, 10)))
