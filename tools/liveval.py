"""A live view of the list being edited as the VALUE of an edit (C11, C13): extend / += / slice assignment / insert of items taken
from a sub-list of the same parent.  What is inserted is what the view holds when the call is made, so the outcome must be the one
the same call gives with a plain copy of those items - for the parent and for every registered view (bounds and contents)."""
import itertools


def _layout(parent, bounds):
    return [parent[a:b] for a, b in bounds]


def _state(parent, views):
    out = [list(parent)]
    for v in views:
        try:
            out.append((v._start, v._stop, list(v)))
        except Exception as e:      # noqa: BLE001
            out.append(("raises", type(e).__name__))
    return out


def probe():
    from mwparserfromhell.smart_list import SmartList
    fails = []
    n_cases = 0
    for n in (3, 5, 6):
        allb = [(a, b) for a in range(0, n + 1) for b in range(a, n + 1)] + [(a, None) for a in range(0, n + 1)]
        layouts = [(x, y, z) for x in allb[::3] for y in allb[1::4] for z in [(n - 2, None), (1, n - 1), (0, 0)]]
        for bounds in layouts[:160]:
            for src in range(3):                     # which view supplies the value
                for tgt in (-1, 0, 1):               # parent or a view receives it
                    for op in ("extend", "iadd", "setslice0", "setslice_mid", "setslice_all"):
                        res = []
                        for alias in (True, False):
                            p = SmartList(list(range(n)))
                            vs = _layout(p, bounds)
                            T = p if tgt < 0 else vs[tgt]
                            val = vs[src] if alias else list(vs[src])
                            try:
                                if op == "extend":
                                    T.extend(val)
                                elif op == "iadd":
                                    T += val
                                elif op == "setslice0":
                                    T[0:0] = val
                                elif op == "setslice_mid":
                                    T[1:2] = val
                                else:
                                    T[:] = val
                                res.append(_state(p, vs))
                            except Exception as e:      # noqa: BLE001
                                res.append("raised %r" % (e,))
                        n_cases += 1
                        if res[0] != res[1] and len(fails) < 12:
                            fails.append("SmartList(range(%d)) with views %r: %s on %s with view %d itself as the value gives %r; with a copy of its items %r"
                                         % (n, bounds, op, "the parent" if tgt < 0 else "view %d" % tgt, src, res[0], res[1]))
    return fails, n_cases


def probe_pages():
    """the same through Wikicode: page.nodes[a:b] = section.nodes, section.append(other section), page.insert(i, section)"""
    import mwparserfromhell as M
    fails = []
    n_cases = 0
    texts = ["intro\n== A ==\na\n== B ==\nb {{t}}\n", "lead {{x}}\n== A ==\na\n=== A1 ===\nsub\n== B ==\nb\n", "== only ==\ntext"]
    for text in texts:
        for opts in ({}, {"flat": True}, {"levels": [2]}, {"include_headings": False}):
            nsec = len(M.parse(text).get_sections(**opts))
            for src in range(nsec):
                for op in ("nodes[0:0]=", "nodes[1:2]=", "nodes+=", "append", "insert0", "sec.append", "sec.nodes[0:0]="):
                    for tgt in range(nsec if op.startswith("sec") else 1):
                        res = []
                        for alias in (True, False):
                            page = M.parse(text)
                            secs = page.get_sections(**opts)
                            val = secs[src].nodes if alias else list(secs[src].nodes)
                            wval = secs[src] if alias else list(secs[src].nodes)
                            try:
                                if op == "nodes[0:0]=":
                                    page.nodes[0:0] = val
                                elif op == "nodes[1:2]=":
                                    page.nodes[1:2] = val
                                elif op == "nodes+=":
                                    x = page.nodes
                                    x += val
                                elif op == "append":
                                    page.append(wval)
                                elif op == "insert0":
                                    page.insert(0, wval)
                                elif op == "sec.append":
                                    secs[tgt].append(wval)
                                else:
                                    secs[tgt].nodes[0:0] = val
                                res.append([str(page)] + [str(s) for s in secs])
                            except Exception as e:      # noqa: BLE001
                                res.append("raised %r" % (e,))
                        n_cases += 1
                        if res[0] != res[1] and len(fails) < 12:
                            fails.append("page %r, get_sections(%r): %s with section %d (a live view) as the value gives %r; with a copy of its nodes %r"
                                         % (text, opts, op if not op.startswith("sec") else "section %d: %s" % (tgt, op), src, res[0], res[1]))
    return fails, n_cases


def work(_items):
    return [probe()]


def work_pages(_items):
    return [probe_pages()]
