/* Test shim around /repo's textbuffer.c (compiled together with it, loaded with ctypes.PyDLL):
   lets the correspondence check drive the real Textbuffer functions with operation sequences. */
#include "textbuffer.h"

Textbuffer *shim_new(PyObject *text) {
    TokenizerInput in;
    in.object = text;
    in.length = PyUnicode_GET_LENGTH(text);
    in.kind = PyUnicode_KIND(text);
    in.data = PyUnicode_DATA(text);
    return Textbuffer_new(&in);
}
void shim_dealloc(Textbuffer *b) { Textbuffer_dealloc(b); }
int shim_reset(Textbuffer *b) { return Textbuffer_reset(b); }
int shim_write(Textbuffer *b, unsigned int code) { return Textbuffer_write(b, (Py_UCS4) code); }
PyObject *shim_render(Textbuffer *b) { return Textbuffer_render(b); }
int shim_concat(Textbuffer *a, Textbuffer *b) { return Textbuffer_concat(a, b); }
void shim_reverse(Textbuffer *b) { Textbuffer_reverse(b); }
void shim_truncate(Textbuffer *b, Py_ssize_t n) { b->length -= n; }
Py_ssize_t shim_len(Textbuffer *b) { return b->length; }
Py_ssize_t shim_cap(Textbuffer *b) { return b->capacity; }
Py_ssize_t shim_objlen(Textbuffer *b) { return PyUnicode_GET_LENGTH(b->object); }
