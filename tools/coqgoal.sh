#!/bin/bash
# usage: coqgoal.sh file.v LINE  -- show the proof state just before LINE (1-based)
f=$1; n=$2
cd /verif/coq
( head -n $((n-1)) "$f"; echo; echo "Show." ) | timeout 120 coqtop -Q . MW 2>&1 | tail -n ${3:-40}
