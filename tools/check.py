#!/venv/bin/python
"""Entry point:  check.py <property id> [--tier quick|thorough] [--replay file]"""
import argparse
import importlib
import json
import os
import sys

sys.path.insert(0, os.path.dirname(os.path.abspath(__file__)))


def main():
    ap = argparse.ArgumentParser()
    ap.add_argument("pid")
    ap.add_argument("--tier", default=os.environ.get("VERIF_TIER", "quick"))
    ap.add_argument("--replay")
    a = ap.parse_args()
    tier = a.tier if a.tier in ("quick", "thorough") else "quick"
    seed = int(os.environ.get("VERIF_SEED", "0") or 0)
    mod = importlib.import_module("props." + a.pid.lower())
    import vlib
    if a.replay:
        data = json.load(open(a.replay))
        if isinstance(data.get("data"), dict) and "crash_item" in data["data"]:
            item = data["data"]["crash_item"]
            item = tuple(item) if isinstance(item, list) else item
            try:
                print(mod._worker([item]))
            except Exception as e:      # noqa: BLE001
                print("the worker raises %r on %r" % (e, item))
                sys.exit(1)
            sys.exit(0)
        sys.exit(mod.replay(data))
    try:
        rc = mod.run(tier, seed)
    except vlib.WorkerCrash as e:
        c = vlib.Check(a.pid.upper(), tier, seed, "proof")
        c.fail("case %r: the code under test raised an exception the check does not expect there: %s" % (e.item, e.what), {"crash_item": e.item})
        rc = c.finish()
    sys.exit(rc)


if __name__ == "__main__":
    main()
