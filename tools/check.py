#!/venv/bin/python
"""Entry point:  check.py <property id> [--tier quick|thorough] [--replay file]"""
import argparse
import importlib
import json
import os
import sys

sys.path.insert(0, os.path.dirname(os.path.abspath(__file__)))


def main():
    ap = argparse.ArgumentParser()
    ap.add_argument("pid")
    ap.add_argument("--tier", default=os.environ.get("VERIF_TIER", "quick"))
    ap.add_argument("--replay")
    a = ap.parse_args()
    tier = a.tier if a.tier in ("quick", "thorough") else "quick"
    seed = int(os.environ.get("VERIF_SEED", "0") or 0)
    mod = importlib.import_module("props." + a.pid.lower())
    if a.replay:
        data = json.load(open(a.replay))
        sys.exit(mod.replay(data))
    sys.exit(mod.run(tier, seed))


if __name__ == "__main__":
    main()
