"""HTMLEntity setters (C18): exhaustive probe over value x hexadecimal.  After an accepted assignment of `value` or of
`hexadecimal = True` the node renders a real entity (it parses back as one HTMLEntity), except for code point 0, which the setters
take and the tokenizers do not; a refused assignment leaves the node as it was.  `hexadecimal = False` on a value with hex letters is
accepted by the library and pinned by its test-suite ('e9'): not judged."""

VALUES = ["65", "1114111", "1114112", "999999", "110000", "10FFFF", "ff", "e9", "41", "0041", "x41", "amp", "nbsp", "0", "00", " 12", "+5", "1_0", "0x10",
          "٣", "12 ", "-1", "", "notanentity", "FFFFFF", "7fffffff", "123456789"]


def state(e):
    return (str(e), e.value, e.named, e.hexadecimal, e.hex_char)


def is_entity(e):
    import mwparserfromhell as M
    back = M.parse(str(e)).nodes
    return len(back) == 1 and type(back[0]).__name__ == "HTMLEntity"


def zero(e):
    return not e.named and str(e.value).strip("0") == ""


def probe():
    import mwparserfromhell as M
    fails = []
    n = 0
    for src in ["&amp;", "&#65;", "&#x41;", "&#1114111;", "&#x10FFFF;"]:
        for v in VALUES:
            for hx in (None, True, False):
                e = M.parse(src).nodes[0]
                n += 1
                before = state(e)
                try:
                    e.value = v
                except ValueError:
                    if state(e) != before:
                        fails.append("%s: value = %r raised ValueError but changed the node to %r" % (src, v, str(e)))
                    continue
                except Exception as ex:      # noqa: BLE001
                    fails.append("%s: value = %r raised %r" % (src, v, ex))
                    continue
                if not zero(e) and not is_entity(e):
                    fails.append("%s: value = %r was accepted, but %r is not an entity" % (src, v, str(e)))
                    continue
                if hx is None:
                    continue
                mid = state(e)
                try:
                    e.hexadecimal = hx
                except ValueError:
                    if state(e) != mid:
                        fails.append("%s: value = %r; hexadecimal = %r raised ValueError but changed the node" % (src, v, hx))
                    continue
                except Exception as ex:      # noqa: BLE001
                    fails.append("%s: value = %r; hexadecimal = %r raised %r" % (src, v, hx, ex))
                    continue
                if hx and not zero(e) and not is_entity(e):
                    fails.append("%s: value = %r; hexadecimal = True was accepted, but %r is not an entity (code point out of range?)" % (src, v, str(e)))
    return fails, n


def work(_items):
    return [probe()]
