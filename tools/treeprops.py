"""Shared driver for the tree-level properties C09 (navigation) and C15 (strip_code): documents are
parsed by the real parser; the real token stream is also fed to the extracted model
(coq/extract/nodeops_run) which builds the tree and computes strip_code for the 8 option
combinations and the pre-order walk; both are compared with the implementation's."""
import random

import buildcorr
import tokharness
import vlib
import wikigen

KIND = {"Text": "T", "Comment": "C", "Heading": "H", "Wikilink": "W", "Argument": "A", "ExternalLink": "E",
        "HTMLEntity": "N", "Template": "P", "Tag": "G"}
OPTS = [dict(normalize=bool(o & 1), collapse=bool(o & 2), keep_template_params=bool(o & 4)) for o in range(8)]


def pstr(s):
    return ".".join(str(ord(c)) for c in s)


def impl_record(code):
    parts = ["ok"]
    for o, kw in enumerate(OPTS):
        try:
            r = pstr(code.strip_code(**kw))
        except (ValueError, KeyError, OverflowError):
            r = "exc"
        parts.append("S%d=%s" % (o, r))
    parts.append("D=" + "".join("%s%d," % (KIND[type(n).__name__], len(str(n))) for n in code.filter()))
    return " | ".join(parts)


def gen_text(rng):
    c = rng.random()
    if c < 0.06:
        # hand-picked shapes: constructs read twice because the route around them fails, brackets in list terms, links in titles
        import tokprops
        shapes = ["[http://a b [[http://c]] d]", "[http://a.com see [[http://b.com]] x] and more", ";Array[0]: first element", "; see [1] for details",
                  ";a[[b]]:c [d]", ";[http://x y]: z", "x\'\'\'\'\'y", "[[a|[http://b c]]]", "{{t|{{u}}{{v}}=w}}"]
        outer = ["", "\'\'\'", "\'\'", "{{t|", "<b>", "== ", "[[File:x.png|", "{{{a|", "\n;"]
        return rng.choice(outer) + rng.choice(shapes) + rng.choice(["", " tail", "\n"])
    if c < 0.55:
        return wikigen.gen_doc(rng, depth=rng.randint(1, 4))
    if c < 0.8:
        return wikigen.mutate(rng, wikigen.gen_doc(rng, depth=2))
    if c < 0.9:
        ents = ["&amp;", "&nbsp;", "&#0;", "&#1;", "&#x10FFFF;", "&#1114111;", "&#xD800;", "&thetasym;", "&#x41;", "&#65;", "&Sigma;", "&apos;", "&check;", "&hookrightarrow;", "&lang;", "&rang;", "&AMP;", "&Amp;", "&ApplyFunction;"]
        return "".join(rng.choice(ents + ["a", " ", "\n", "\n\n\n", "{{t|&lt;}}"]) for _ in range(rng.randint(1, 8)))
    return wikigen.noise(rng)


def all_entities_doc():
    import html.entities as ents
    return ("".join("&%s;x" % n for n in sorted(ents.entitydefs)) + "&#1;&#x1;&#1114111;&#x10ffff;&#x10FFFF;&#55296;&#xDFFF;&#0;&#1114112;&#x110000;&#00065;" +
            # not entities (they must stay text with either tokenizer): hex letters in a decimal reference, other stray characters
            "&#6B;y&#1a;y&#10F;y&#12abc;y&#x1G;y&#xg;y&#0x41;y&# 65;y&#+65;y&#6\uff15;y&#;y&#x;y&amp y&#65 y&thetasymx;y&Amp;y&AMP;y&apos;y&check;y&#X41;y&#X3a3;")


def long_entities_doc():
    """numeric entities beyond int()'s 4300-digit limit"""
    return ("&#" + "0" * 4400 + "65;&#x" + "0" * 4400 + "41;&#" + "9" * 4400 + ";&#" + "0" * 4299 + "66;" +
            "".join("a&#%s;b" % d for d in ("\u0661\u0662\u0663", "\u06f6\u06f5", "\uff10\uff16\uff10", "\u0966\u096f", "\u00b2", "\u2460", "1\u2070")) +
            "&sup2;&frac12;&there4;&#x\uff21;&#x100000041;&#4294967361;a&#x100000000041;b")


def parse_case(seed):
    st = tokharness.setup()
    rng = random.Random(seed)
    special = {0: "py", 1: "py", 2: "c", 3: "c"}.get(seed % 5000)         # the two fixed documents, once with each tokenizer
    text = all_entities_doc() if seed % 5000 in (0, 2) else (long_entities_doc() if seed % 5000 in (1, 3) else gen_text(rng))
    text = text.replace("\ud800", "").replace("\udfff", "")
    which = "c" if (st["c"] is not None and rng.random() < 0.3) else "py"
    if special is not None and (special == "py" or st["c"] is not None):
        which = special
    toks = st[which]().tokenize(text, 0, rng.random() < 0.2)
    # the extracted model is quadratic in the length of one text run: the 4400-digit entities are oracle-only
    enc = None if seed % 5000 in (1, 3) else buildcorr.encode_tokens(toks)
    code = st["builder"]().build(toks)
    return text, enc, code
