"""Running both tokenizers of /repo's working tree on the same inputs (C01, C02, C03, C04, C14 ...).

The C tokenizer is compiled from /repo's sources into /verif/.build (never the in-tree .so).
Workers call setup() once after fork; all parsing happens inside vlib.robust_map children.
"""
import os
import sys

import vlib

_STATE = {}

EXT_LINK_URI = None


def setup(need_c=True):
    """idempotent; returns dict(py=Tokenizer class, c=CTokenizer class or None, ...)"""
    if _STATE:
        return _STATE
    so = None
    log = ""
    if need_c:
        if os.environ.get("MWPFH_CTOK_SANITIZE"):
            so, log = vlib.build_ctokenizer(tag="ctok_asan", sanitize=True)
        else:
            so, log = vlib.build_ctokenizer()
    ctok = None
    if so:
        try:
            ctok = vlib.load_ctokenizer(so)
        except Exception as e:  # noqa: BLE001
            log = "loading %s failed: %r" % (so, e)
    import mwparserfromhell  # noqa: F401  (after the C module is in sys.modules)
    import mwparserfromhell.parser as _P
    # The extension's own initialisation imports mwparserfromhell.parser, which at that moment finds the IN-TREE
    # _tokenizer (possibly stale) and binds it: rebind the package to the extension built from the current sources.
    if ctok is not None:
        _P.CTokenizer = ctok
        _P.use_c = True
    else:
        _P.CTokenizer = None
        _P.use_c = False
    from mwparserfromhell.parser import contexts
    from mwparserfromhell.parser.builder import Builder
    from mwparserfromhell.parser.tokenizer import Tokenizer
    from mwparserfromhell.parser import ParserError
    _STATE.update(py=Tokenizer, c=ctok, builder=Builder, contexts=contexts, clog=log, perr=ParserError,
                  uri=contexts.EXT_LINK_URI)
    return _STATE


def canon(tokens):
    out = []
    for t in tokens:
        out.append((type(t).__name__,) + tuple(sorted((k, v) for k, v in dict(t).items())))
    return out


def tokenize(which, text, ctx=0, skip=False):
    """('ok', canonical token list) | ('exc', name, message)"""
    st = setup()
    cls = st["py"] if which == "py" else st["c"]
    try:
        obj = cls()
        toks = obj.tokenize(text, ctx, skip)
        if which == "py" and (getattr(obj, "_depth", 0) != 0 or getattr(obj, "_stacks", [])):
            # every frame that was opened has been closed and has given its depth back
            return ("exc", "DepthLeak", "after tokenize() the depth counter is %r with %d open stacks" % (obj._depth, len(obj._stacks)))
        return ("ok", canon(toks), toks)
    except RecursionError as e:
        return ("resource", "RecursionError", None)
    except MemoryError:
        return ("resource", "MemoryError", None)
    except Exception as e:  # noqa: BLE001
        return ("exc", type(e).__name__, str(e)[:200])


_REUSED = {}
REUSE_WINDOW = 6


def tokenize_reused(which, text, ctx=0, skip=False):
    """The same call on an instance that has already tokenized other inputs (a Parser keeps its tokenizer):
    ('ok', canonical tokens, history) | ('exc', name, message, history) | None when there is no history yet.
    The instance is replaced every REUSE_WINDOW calls so that the history named in a report is complete."""
    st = setup()
    cls = st["py"] if which == "py" else st["c"]
    slot = _REUSED.get(which)
    if slot is None or len(slot[1]) >= REUSE_WINDOW:
        slot = _REUSED[which] = [cls(), []]
    obj, hist = slot
    before = list(hist)
    hist.append((text, ctx, skip))
    try:
        toks = obj.tokenize(text, ctx, skip)
    except (RecursionError, MemoryError):
        _REUSED.pop(which, None)
        return None
    except Exception as e:  # noqa: BLE001
        _REUSED.pop(which, None)
        return ("exc", type(e).__name__, str(e)[:200], before)
    if not before:
        return None
    return ("ok", canon(toks), before)


def build(tokens):
    st = setup()
    try:
        return ("ok", st["builder"]().build(list(tokens)))
    except RecursionError:
        return ("resource", "RecursionError")
    except Exception as e:  # noqa: BLE001
        return ("exc", type(e).__name__, str(e)[:200])


def canonical_tree_problems(code, path="top"):
    """C14: empty Text / adjacent Text nodes in any node list of the tree"""
    from mwparserfromhell.nodes import Text
    probs = []
    prev_text = False
    for i, n in enumerate(code.nodes):
        if isinstance(n, Text):
            if n.value == "":
                probs.append("%s[%d]: empty Text" % (path, i))
            if prev_text:
                probs.append("%s[%d]: adjacent Text nodes" % (path, i))
            prev_text = True
        else:
            prev_text = False
            for j, ch in enumerate(n.__children__()):
                probs += canonical_tree_problems(ch, "%s[%d].%s%d" % (path, i, type(n).__name__, j))
    return probs


def canonical_token_problems(ctoks):
    probs = []
    prev = False
    for i, t in enumerate(ctoks):
        if t[0] == "Text":
            txt = dict(t[1:]).get("text")
            if txt == "":
                probs.append("token %d: empty Text" % i)
            if prev:
                probs.append("token %d: adjacent Text tokens" % i)
            prev = True
        else:
            prev = False
    return probs


def analyse(text, ctx=0, skip=False, want=("roundtrip", "total", "agree", "canon"), with_builder=False):
    """Run both tokenizers + builder on one input; return dict of failures (empty = fine) and stats."""
    st = setup()
    res = {"fail": {}, "stats": {}}
    outs = {}
    for which in ("py", "c"):
        if which == "c" and st["c"] is None:
            continue
        r = tokenize(which, text, ctx, skip)
        outs[which] = r
        if r[0] == "exc":
            res["fail"].setdefault("total", []).append("%s tokenizer raised %s: %s" % (which, r[1], r[2]))
            continue
        if r[0] == "resource":
            res["stats"]["resource"] = True
            res["fail"].setdefault("total", []).append("%s tokenizer raised %s" % (which, r[1]))
            continue
        if "agree" in want:
            ru = tokenize_reused(which, text, ctx, skip)
            if ru is not None and (ru[0] != "ok" or ru[1] != r[1]):
                res["stats"]["history"] = [list(h) for h in ru[-1]]
                res["fail"].setdefault("agree", []).append(
                    "%s tokenizer instance that had tokenized %r before gives %s where a new instance gives %d tokens"
                    % (which, ru[-1], ("%s: %s" % (ru[1], ru[2])) if ru[0] != "ok" else
                       "%d tokens (%r ...)" % (len(ru[1]), [t for t, u in zip(ru[1], r[1] + [None] * len(ru[1])) if t != u][:1]),
                       len(r[1])))
        tp = canonical_token_problems(r[1])
        if tp:
            res["fail"].setdefault("canon", []).append("%s: %s" % (which, tp[0]))
        if with_builder and (which == "py" or outs.get("py", (None, None))[1] != r[1]):
            import buildcorr
            enc = buildcorr.encode_tokens(r[2])
            if enc is not None:
                res.setdefault("builder", []).append((which, enc, buildcorr.real_build(r[2])))
        b = build(r[2])
        if b[0] == "exc":
            res["fail"].setdefault("total", []).append("builder on %s tokens raised %s: %s" % (which, b[1], b[2]))
            continue
        if b[0] == "resource":
            res["stats"]["resource"] = True
            res["fail"].setdefault("total", []).append("builder on %s tokens raised %s" % (which, b[1]))
            continue
        code = b[1]
        try:
            s = str(code)
        except RecursionError:
            res["stats"]["resource"] = True
            res["fail"].setdefault("total", []).append("rendering the tree built from %s tokens raised RecursionError" % which)
            continue
        if s != text:
            res["fail"].setdefault("roundtrip", []).append("%s: rendered %r" % (which, s[:200]))
        cp = canonical_tree_problems(code)
        if cp:
            res["fail"].setdefault("canon", []).append("%s tree: %s" % (which, cp[0]))
        res["stats"].setdefault("ntokens", len(r[1]))
        res["stats"]["nontext"] = res["stats"].get("nontext", 0) + sum(1 for t in r[1] if t[0] != "Text")
    if "py" in outs and "c" in outs and outs["py"][0] == "ok" and outs["c"][0] == "ok":
        if outs["py"][1] != outs["c"][1]:
            a, b = outs["py"][1], outs["c"][1]
            k = 0
            while k < min(len(a), len(b)) and a[k] == b[k]:
                k += 1
            res["fail"].setdefault("agree", []).append("token %d: py %r vs c %r" % (k, a[k:k + 2], b[k:k + 2]))
    return res
