"""Worker for C07, run as a separate interpreter by tools/props/c07.py:

  c07_worker.py asan  SHARD NSHARDS SEED TIER   (under LD_PRELOAD=libasan, PYTHONMALLOC=malloc, MWPFH_CTOK_SANITIZE=1)
  c07_worker.py leak  SHARD NSHARDS SEED TIER   (under PYTHONMALLOC=malloc: libc's mallinfo2 sees every allocation)
  c07_worker.py one   MODE INDEX SEED TIER      (replay of one item)

Prints "CUR <index>" before each item, "FAIL <index> <json>" for a failed item, "DONE <json>" at the end.
A sanitizer report kills the interpreter: the parent takes the last CUR line as the failing item.
"""
import ctypes
import gc
import json
import os
import random
import sys

sys.path.insert(0, os.path.dirname(os.path.abspath(__file__)))
sys.setrecursionlimit(3000)

import vlib  # noqa: E402
import tokharness  # noqa: E402
import wikigen  # noqa: E402

WIDE = ["", "Ā", "\U0001F600"]       # Latin-1 / BMP / astral: the three internal string widths


def widen(t, w):
    return t if w == 0 else (WIDE[w] + t + WIDE[w])


# one input per allocation site / exit path of the C code (scratch buffers, TagData, kwargs, heading data ...):
# these are ALL measured by the leak leg, in every string width, completed and aborted
CATALOGUE = ["{{a|b=c}}", "[[a|b]]", "<b a=\"c\">x</b>", "&amp;&#x41;&#65;", "==h==\n", "{{{a|b}}}", "[http://a.b c]", "http://a.b/c,", "<!--c-->",
             "{|\n|a||b\n|}", "''a'''b'''''", "<br/><ref name=x />", "*a\n;b:c\n----", "{{a|{{b|[[c|<i>d</i>]]}}}}", "<nowiki>{{a}}</nowiki>",
             "<nowiki>a</b>c</nowiki>", "<pre>x</i>\ny</pre>", "<nowiki>a</nowiki", "<math>a</", "a mailto:x@y.z b", "&#00065;", "{{a", "[[a", "<b", "{{{a",
             "&#x", "<b a='", "[http://", "{|\n|", "<!--", "'''''x'''''", "''a''", "'''b'''", "'''''a''b'''", "''a'''b", "<source lang=x>y</source>",
             "<nowiki/>", "<li>a", "<br>", "</br>", "</br/>", "</xyz>", "<b a=b c='d' e=\"f\" g>x</b>", "<b a={{x}}>y</b>", "<b a=\"c>x</b>", "{{a|<br c=\"d>",
             "{|a=b\n|+c\n!d!!e\n|-f=g\n|h||i\n|}", "{|\n|a=b|c\n|}", "{| a=\"b\n|c\n|}", ":a", "#a", ";a:b", "----", "[[a|b|c]]", "[[File:a.png|thumb|[[b]]]]",
             "[//a.b c]", "[http://a.b]", "[[http://a.b c]]", "http://a.b.", "x http://a.b(c) d", "xhttp://a.b", "{{a|b|c=d|e={{f}}}}", "{{{{a}}}}", "{{{{{a}}}}}",
             "{{a|\n==h==\n}}", "==a==b==\n", "=a=", "======a======", "== a\n", "&nbsp;&foo;&#xZ;&thetasym;", "<span style=\"a\" />", "<a<b>c</b>", "<b>c</a></b>",
             "<b>''c</b>''", "{{a<b>}}</b>", "<ref>{{a}}</ref>", "<div\nclass=a\n>b</div\n>", "{{" * 20 + "a" + "}}" * 20, "{{foo|{{b}}{{c}}=d}}",
             "<a\x00b>x</a\x00b>", "</b\x00r >", "<b\x00>", "<br\x00/>", "ht\x00tp://a.b", "[ht\x00tp://a.b c]", "<nowiki\x00>x</nowiki\x00>", "&#\u0661;",
             "<\u00e9>x</\u00e9>", "</\u00e9 >", "<b\u0130>x</b\u0130>",
             "[http://a.com [[http://b.com]]]", "[http://a [[//b c]] d]", "[http://a [[b]] [[c|d]] e]", "[[http://a [[http://b c]] d]]", "http://a.b" + "." * 120 + " c",
             "x http://a.b/c" + ",;:!?" * 40, "[http://a.b c" + "]" * 3, "{{a|http://b.c|d=e}}", "{{{a|http://b.c/}}d}}}", "{|\n| {{a\n|b}} | c\n|}", "{|\n|-\n|- a=b\n|}",
             "{{a|{{b|http:// ", "{{a|[[b|mailto: ", "\u0027\u0027x {{a|ftp:// y", "{{a|{{b|[http:// c]", "==a=b==\n", "=== x = y = z ===", "{{a|x\u0027\u0027\u0027\u0027\u0027y\u0027\u0027\u0027}}", "foo\u0027\u0027\u0027\u0027\u0027bar"]


NCAT = len(CATALOGUE) * 6


def ncat(tier):
    """the items the leak leg always measures: the catalogue and the nesting pairs"""
    import tokprops
    return NCAT + (240 if tier == "quick" else len(tokprops.WRAPPERS) * len(tokprops.ATOMS))


def items(tier, seed):
    """deterministic list of work items: ('tok', text) | ('inj', text) | ('shim', seed, width); the first
    NCAT items are the catalogue"""
    import tokprops
    from props.c05 import FAMILIES
    rng = random.Random(seed * 7919 + 13)
    out = []
    for t in CATALOGUE:
        for w in range(3):
            out.append(("tok", widen(t, w)))
            out.append(("inj", widen(t, w)))
    # every construct inside every construct (tokprops.WRAPPERS x ATOMS): a seed-dependent sample in the quick tier, all in the thorough one
    pairs = [w % a for w in tokprops.WRAPPERS for a in tokprops.ATOMS]
    if tier == "quick":
        pairs = rng.sample(pairs, 240)
    for i, t in enumerate(pairs):
        out.append(("tok", widen(t, i % 3)))
    tab = tokprops.table_inputs()
    step = 1 if tier == "thorough" else 3
    for i, t in enumerate(tab):
        if i % step == 0:
            out.append(("tok", widen(t, i % 3)))
    for name in sorted(FAMILIES):
        for n in ((8, 70, 300) if tier == "quick" else (8, 70, 300, 1500)):
            out.append(("tok", widen(FAMILIES[name](n), (n + len(name)) % 3)))
    ndocs = 2500 if tier == "quick" else 60000
    for i in range(ndocs):
        d = wikigen.gen_doc(rng, depth=rng.randint(1, 4))
        out.append(("tok", widen(d, i % 3)))
        if i % 5 == 0 and len(d) < 120:
            out.append(("inj", widen(d, i % 3)))
    for t in ["{{a|b=c}}", "[[a|b]]", "<b a=\"c\">x</b>", "&amp;&#x41;&#65;", "==h==\n", "{{{a|b}}}", "[http://a.b c]", "http://a.b/c,", "<!--c-->",
              "{|\n|a||b\n|}", "''a'''b'''''", "<br/><ref name=x />", "*a\n;b:c\n----", "{{a|{{b|[[c|<i>d</i>]]}}}}", "<nowiki>{{a}}</nowiki>",
              "a mailto:x@y.z b", "&#00065;", "{{a", "[[a", "<b", "{{{a", "&#x", "<b a='", "[http://", "{|\n|", "<!--"]:
        for w in range(3):
            out.append(("inj", widen(t, w)))
    nshim = 1500 if tier == "quick" else 40000
    for i in range(nshim):
        out.append(("shim", seed * 104729 + i, i % 3))
    return out


# --------------------------------------------------------------------------- shim sequences
def shim_ops(sseed):
    rng = random.Random(sseed)
    ops = []
    n = rng.choice([5, 20, 60, 150, 400])
    while len(ops) < n:
        r = rng.random()
        if r < 0.45:
            burst = rng.choice([1, 1, 3, 31, 32, 33, 63, 64, 65, 130])
            w = 1 if rng.random() < 0.4 else 0
            for _ in range(burst):
                ops.append((0, w, rng.randint(1, 120)))
        elif r < 0.6:
            ops.append((1,))
        elif r < 0.7:
            ops.append((2,))
        elif r < 0.76:
            ops.append((3, 1 if rng.random() < 0.6 else 0))
        elif r < 0.9:
            ops.append((4, rng.choice([0, 1, 2, 5, 31, 32, 33, 1000])))
        else:
            ops.append((5, rng.randint(0, 1)))
    return ops[:max(n, 1)]


def shim_line(ops):
    flat = [len(ops)]
    for o in ops:
        flat += list(o)
    return " ".join(map(str, flat))


_SHIM = {}


def shim_lib():
    if "lib" not in _SHIM:
        so, log = vlib.build_tbshim(sanitize=bool(os.environ.get("MWPFH_CTOK_SANITIZE")))
        if not so:
            raise RuntimeError("shim build failed: " + log[-400:])
        lib = ctypes.PyDLL(so)
        lib.shim_new.restype = ctypes.c_void_p
        lib.shim_new.argtypes = [ctypes.py_object]
        for f in ("shim_dealloc", "shim_reverse"):
            getattr(lib, f).restype = None
            getattr(lib, f).argtypes = [ctypes.c_void_p]
        lib.shim_reset.argtypes = [ctypes.c_void_p]
        lib.shim_write.argtypes = [ctypes.c_void_p, ctypes.c_uint]
        lib.shim_render.restype = ctypes.py_object
        lib.shim_render.argtypes = [ctypes.c_void_p]
        lib.shim_concat.argtypes = [ctypes.c_void_p, ctypes.c_void_p]
        lib.shim_truncate.restype = None
        lib.shim_truncate.argtypes = [ctypes.c_void_p, ctypes.c_ssize_t]
        for f in ("shim_len", "shim_cap", "shim_objlen"):
            getattr(lib, f).restype = ctypes.c_ssize_t
            getattr(lib, f).argtypes = [ctypes.c_void_p]
        _SHIM["lib"] = lib
    return _SHIM["lib"]


def shim_run(ops, width):
    """drive the real Textbuffer functions; returns the observation string in the model driver's format"""
    lib = shim_lib()
    base = {0: 0, 1: 0x100, 2: 0x10000}[width]
    text = "x" + (chr(base + 1) if base else "")
    a = lib.shim_new(text)
    b = lib.shim_new(text)
    obs = []
    bad = None
    for k, o in enumerate(ops):
        if o[0] == 0:
            lib.shim_write(b if o[1] else a, base + o[2])
        elif o[0] == 1:
            lib.shim_concat(a, b)
        elif o[0] == 2:
            lib.shim_reverse(b)
        elif o[0] == 3:
            lib.shim_reset(b if o[1] else a)
        elif o[0] == 4:
            lib.shim_truncate(a, min(o[1], lib.shim_len(a)))
        else:
            lib.shim_render(b if o[1] else a)
        obs.append("%d %d %d %d," % (lib.shim_cap(a), lib.shim_len(a), lib.shim_cap(b), lib.shim_len(b)))
        for x in (a, b):
            if lib.shim_objlen(x) != lib.shim_cap(x) and bad is None:
                bad = "after operation %d the capacity field is %d but the object holds %d cells" % (k, lib.shim_cap(x), lib.shim_objlen(x))
    ra, rb = lib.shim_render(a), lib.shim_render(b)
    lib.shim_dealloc(a)
    lib.shim_dealloc(b)
    show = lambda s: " ".join(str(ord(ch) - base) for ch in s)  # noqa: E731
    return "".join(obs) + " | " + show(ra) + " | " + show(rb), bad


# --------------------------------------------------------------------------- tokenizer items
def tok_item(st, text):
    toks = st["c"]().tokenize(text)
    out = "".join(t.text for t in toks if type(t).__name__ == "Text")
    return len(toks), out


def inj_item(st, text):
    """abort the call at the k-th token construction for every k; the object must work afterwards"""
    from props import c06
    c06._install()
    fresh = tokharness.canon(st["c"]().tokenize(text))
    n = len(fresh)
    fails = []
    for k in range(1, min(n, 40) + 1):
        tok = st["c"]()
        c06._arm("token", k)
        try:
            tok.tokenize(text)
            raised = "no"
        except c06.Boom:
            raised = "boom"
        except BaseException as e:  # noqa: BLE001
            raised = type(e).__name__
        finally:
            fired = c06.ARM["n"] >= k
            c06._disarm()
        if fired and raised != "boom":
            fails.append("the exception raised at token construction %d was swallowed (call ended with: %s)" % (k, raised))
        again = tokharness.canon(tok.tokenize(text))
        if again != fresh:
            fails.append("after a call aborted at token %d the same object tokenizes differently" % k)
        del tok
    return n, fails


# --------------------------------------------------------------------------- leak measurement
class _MI(ctypes.Structure):
    _fields_ = [(n, ctypes.c_size_t) for n in ("arena", "ordblks", "smblks", "hblks", "hblkhd", "usmblks", "fsmblks", "uordblks", "fordblks", "keepcost")]


def in_use():
    libc = ctypes.CDLL(None)
    libc.mallinfo2.restype = _MI
    mi = libc.mallinfo2()
    return mi.uordblks + mi.hblkhd


def leak_item(st, kind, text, all_k=False):
    """bytes in use (libc malloc, PYTHONMALLOC=malloc) over five windows of repeated calls after a warm-up;
    for aborted calls: at three abort points (quick) or at every abort point (thorough)"""
    from mwparserfromhell.parser import tokens as T
    from props import c06
    c06._install()
    classes = [T.Text, T.TemplateOpen, T.TagOpenOpen, T.HTMLEntityStart, T.WikilinkOpen]
    ks = [None]
    if kind == "inj":
        n = len(st["c"]().tokenize(text))
        ks = list(range(1, n + 1)) if all_k else sorted({max(1, n // 4), max(1, n // 2), max(1, (3 * n) // 4), n})
    fails = []
    worst = []
    for k in ks:
        def once(tok):
            if k is None:
                tok.tokenize(text)
                return
            c06._arm("token", k)
            try:
                tok.tokenize(text)
            except BaseException:  # noqa: BLE001
                pass
            finally:
                c06._disarm()
        rc0 = [sys.getrefcount(c) for c in classes] + [sys.getrefcount(text)]

        def windows(R, warm):
            tok = st["c"]()
            for _ in range(warm):
                once(tok)
                if kind == "inj":
                    once(st["c"]())
            gc.collect()
            marks = [in_use()]
            for _w in range(5):
                for _i in range(R):
                    once(tok)
                    if kind == "inj":
                        once(st["c"]())      # aborted call on an object that is destroyed right away
                gc.collect()
                marks.append(in_use())
            return [b - a for a, b in zip(marks, marks[1:])]
        R = 40
        growth = windows(R, 40)
        if min(growth) >= R * 16:
            R = 600                          # confirm: caches that are still warming up flatten out, a leak does not
            growth = windows(R, 600)
        rc1 = [sys.getrefcount(c) for c in classes] + [sys.getrefcount(text)]
        if min(growth) >= R * 16:
            fails.append("memory in use grows in every window of %d %s: %r bytes" % (
                R, "calls" if k is None else "pairs of calls aborted at token construction %d" % k, growth))
        drift = [b - a for a, b in zip(rc0, rc1)]
        if any(abs(d) >= 40 for d in drift):
            fails.append("reference counts drift over %d calls%s: %r (token classes ..., input string)" % (
                5 * R, "" if k is None else " aborted at token %d" % k, drift))
        worst = max(worst, growth, key=lambda g: min(g) if g else 0) if worst else growth
    return worst, fails, len(ks)


def run_item(st, mode, it):
    if it[0] == "shim":
        ops = shim_ops(it[1])
        got, bad = shim_run(ops, it[2])
        return {"kind": "shim", "line": shim_line(ops), "obs": got, "bad": bad}
    if mode == "asan":
        if it[0] == "tok":
            n, _ = tok_item(st, it[1])
            return {"kind": "tok", "n": n}
        n, fails = inj_item(st, it[1])
        return {"kind": "inj", "n": n, "fails": fails}
    growth, fails, nk = leak_item(st, it[0], it[1], all_k=(os.environ.get("VERIF_TIER_THOROUGH") == "1"))
    return {"kind": "leak-" + it[0], "growth": growth, "fails": fails, "abort_points": nk if it[0] == "inj" else 0}


def main():
    mode = sys.argv[1]
    if mode == "one":
        mode, idx, seed, tier = sys.argv[2], int(sys.argv[3]), int(sys.argv[4]), sys.argv[5]
        st = tokharness.setup()
        its = items(tier, seed)
        if mode == "leak":
            its = [x for x in its if x[0] != "shim"]
            its = its[:ncat(tier)] + its[ncat(tier)::(9 if tier == "quick" else 3)]
        r = run_item(st, mode, its[idx])
        print(json.dumps(r)[:2000])
        return 1 if (r.get("fails") or r.get("bad")) else 0
    shard, nshards, seed, tier = int(sys.argv[2]), int(sys.argv[3]), int(sys.argv[4]), sys.argv[5]
    st = tokharness.setup()
    if st["c"] is None:
        print("FAIL -1 " + json.dumps({"why": "C tokenizer does not build: " + st["clog"][-300:]}))
        return 2
    its = items(tier, seed)
    if mode == "leak":
        its = [x for x in its if x[0] != "shim"]
        its = its[:ncat(tier)] + its[ncat(tier)::(9 if tier == "quick" else 3)]
    stats = {"tok": 0, "inj": 0, "shim": 0, "aborted_calls": 0, "leak-tok": 0, "leak-inj": 0}
    shim_out = []
    dbg_leg = os.environ.get("C07_LEG") == "dbg"
    for idx in range(shard, len(its), nshards):
        if dbg_leg and (its[idx][0] == "shim" or idx % 2):
            continue
        print("CUR %d" % idx, flush=True)
        r = run_item(st, mode, its[idx])
        stats[r["kind"]] = stats.get(r["kind"], 0) + 1
        if r["kind"] == "inj":
            stats["aborted_calls"] += min(r["n"], 40)
        if r["kind"] == "leak-inj":
            stats["leak_abort_points"] = stats.get("leak_abort_points", 0) + r["abort_points"]
        if r.get("fails") or r.get("bad"):
            print("FAIL %d %s" % (idx, json.dumps({"item": its[idx], "fails": r.get("fails") or [r.get("bad")]})[:3000]), flush=True)
        if r["kind"] == "shim":
            shim_out.append((idx, r["line"], r["obs"]))
    print("SHIM " + json.dumps(shim_out), flush=True)
    print("DONE " + json.dumps(stats), flush=True)
    return 0


if __name__ == "__main__":
    sys.exit(main())
