#!/bin/bash
# usage: seedtest.sh <seed dir name under /verif/seeded> [tier] [check id]  -- apply the patch to /repo, run the check, undo.
sd=$1; tier=${2:-quick}; id=${3:-${sd%%_*}}
cd /repo || exit 2
if [ -n "$(git status --porcelain -- src)" ]; then echo "repo dirty"; exit 2; fi
git apply /verif/seeded/$sd/patch.diff || { echo "patch does not apply"; exit 2; }
cd /verif
/venv/bin/python tools/check.py $id --tier $tier 2>&1 | tail -4
rc=${PIPESTATUS[0]}
git -C /repo checkout -- .
exit $rc
