#!/bin/bash
# usage: seedtest.sh <ID> [tier]  -- apply /verif/seeded/<ID>/patch.diff to /repo, run the property's check, undo.
id=$1; tier=${2:-quick}
cd /repo || exit 2
if [ -n "$(git status --porcelain -- src)" ]; then echo "repo dirty"; exit 2; fi
git apply /verif/seeded/$id/patch.diff || { echo "patch does not apply"; exit 2; }
cd /verif
/venv/bin/python tools/check.py ${3:-$id} --tier $tier 2>&1 | tail -4
rc=${PIPESTATUS[0]}
git -C /repo checkout -- .
exit $rc
