"""Shared machinery for the /verif checks (see DESIGN.md section 2.1).

Every check:  builds the Coq development (proof obligations), runs the correspondence
between the Coq model (extracted, or evaluated by coqc) and the implementation in
/repo's working tree, evaluates the property's own oracle on the implementation,
writes evidence/<id>.json and prints VIOLATION / KNOWN-FINDING lines.
"""
import fcntl
import hashlib
import json
import os
import re
import subprocess
import sys
import time

VERIF = os.path.dirname(os.path.dirname(os.path.abspath(__file__)))
REPO = os.environ.get("VERIF_REPO", "/repo")
SRC = os.path.join(REPO, "src")
COQ = os.path.join(VERIF, "coq")
EXTRACT = os.path.join(COQ, "extract")
BUILD = os.path.join(VERIF, ".build")
PY = "/venv/bin/python"

os.environ.setdefault("PYTHONHASHSEED", "0")
if SRC not in sys.path:
    sys.path.insert(0, SRC)


def sh(cmd, timeout=3000, cwd=None, env=None, input=None):
    p = subprocess.run(cmd, shell=isinstance(cmd, str), cwd=cwd, env=env, input=input,
                       stdout=subprocess.PIPE, stderr=subprocess.STDOUT, timeout=timeout,
                       text=True)
    return p.returncode, p.stdout


class _Lock:
    def __init__(self, name):
        os.makedirs(BUILD, exist_ok=True)
        self.path = os.path.join(BUILD, name + ".lock")

    def __enter__(self):
        self.f = open(self.path, "w")
        fcntl.flock(self.f, fcntl.LOCK_EX)

    def __exit__(self, *a):
        fcntl.flock(self.f, fcntl.LOCK_UN)
        self.f.close()


def known_findings():
    p = os.path.join(VERIF, "known_findings.json")
    if not os.path.exists(p):
        return []
    return json.load(open(p))["findings"]


# --------------------------------------------------------------------------- Coq

_ERR_RE = re.compile(r'File "([^"]+)", line (\d+), characters (\d+)-(\d+):\s*\n(Error:.*?)(?=\nFile |\nmake|\Z)', re.S)


def enclosing_statement(path, line):
    """Name of the Theorem/Lemma/Definition that contains LINE of a .v file."""
    name = None
    try:
        for i, l in enumerate(open(path), 1):
            m = re.match(r"\s*(?:Theorem|Lemma|Corollary|Example|Definition|Fixpoint|Fact|Remark)\s+([A-Za-z0-9_']+)", l)
            if m:
                name = m.group(1)
            if i >= line:
                break
    except OSError:
        pass
    return name


def coq_build():
    """Full .vo build of the development plus extraction drivers. Returns (ok, log, broken)
    where broken is a list of {file,line,statement,error}."""
    with _Lock("coq"):
        rc, out = sh(["make", "-C", VERIF, "all"], timeout=3400)
    broken = []
    if rc != 0:
        for m in _ERR_RE.finditer(out):
            f = m.group(1)
            path = f if os.path.isabs(f) else os.path.normpath(os.path.join(COQ, f))
            if not os.path.exists(path):
                path2 = os.path.normpath(os.path.join(EXTRACT, f))
                path = path2 if os.path.exists(path2) else path
            broken.append({"file": os.path.relpath(path, VERIF), "line": int(m.group(2)),
                           "statement": enclosing_statement(path, int(m.group(2))),
                           "error": m.group(5).strip()[:600]})
        if not broken:
            broken.append({"file": "?", "line": 0, "statement": None, "error": out[-800:]})
    return rc == 0, out, broken


def coq_props(prop_file):
    """Compile props/<file>.v on its own, return (theorems, assumptions_per_theorem, ok, out)."""
    path = os.path.join(COQ, "props", prop_file)
    src = open(path).read()
    theorems = re.findall(r"^\s*Theorem\s+([A-Za-z0-9_']+)", src, re.M)
    with _Lock("coq"):
        rc, out = sh(["coqc", "-Q", ".", "MW", os.path.join("props", prop_file)], cwd=COQ, timeout=1200)
    blocks = []
    cur = None
    for line in out.splitlines():
        if line.startswith("Closed under the global context"):
            blocks.append([])
            cur = None
        elif line.startswith("Axioms:"):
            cur = []
            blocks.append(cur)
        elif cur is not None and line.strip():
            if re.match(r"^\S", line):
                cur.append(line.split(":")[0].strip())
    return theorems, blocks, rc == 0, out


def forbidden_scan():
    """No Axiom/Parameter/Admitted/... anywhere in the development."""
    bad = []
    pat = re.compile(r"\b(Admitted|admit|Axiom|Axioms|Parameter|Parameters|Conjecture|Hypothesis|Variable|Hypotheses|Variables|Unset Guard Checking|bypass_check|Admit Obligations|type-in-type|impredicative-set)\b")
    for root, _d, files in os.walk(COQ):
        for fn in files:
            if not fn.endswith(".v"):
                continue
            p = os.path.join(root, fn)
            depth = 0
            text = open(p).read()
            # blank out comments (possibly multi-line / nested) and string literals, keeping line structure
            out = []
            i = 0
            level = 0
            instr = False
            while i < len(text):
                ch = text[i]
                if level == 0 and not instr and ch == '"':
                    instr = True
                    out.append(" ")
                elif instr:
                    if ch == '"':
                        if text[i + 1:i + 2] == '"':
                            i += 1
                        else:
                            instr = False
                    out.append("\n" if ch == "\n" else " ")
                elif text.startswith("(*", i):
                    level += 1
                    out.append("  ")
                    i += 1
                elif level > 0 and text.startswith("*)", i):
                    level -= 1
                    out.append("  ")
                    i += 1
                elif level > 0:
                    out.append("\n" if ch == "\n" else " ")
                else:
                    out.append(ch)
                i += 1
            for i, code in enumerate("".join(out).split("\n"), 1):
                if re.match(r"\s*Section\b", code):
                    depth += 1
                if re.match(r"\s*End\b", code) and depth > 0:
                    depth -= 1
                m = pat.search(code)
                if m:
                    w = m.group(1)
                    if w in ("Variable", "Hypothesis", "Variables", "Hypotheses") and depth > 0:
                        continue
                    bad.append("%s:%d:%s" % (os.path.relpath(p, VERIF), i, w))
    return bad


def model_run(name, lines, timeout=1200):
    """Feed LINES to the extracted driver coq/extract/<name>_run; return output lines."""
    exe = os.path.join(EXTRACT, name + "_run")
    p = subprocess.run([exe], input="\n".join(lines) + "\n", stdout=subprocess.PIPE,
                       stderr=subprocess.PIPE, text=True, timeout=timeout)
    if p.returncode != 0:
        raise RuntimeError("model driver %s failed: %s" % (name, p.stderr[-500:]))
    return p.stdout.split("\n")[:len(lines)]


# --------------------------------------------------------------------------- C extension

def build_ctokenizer(tag="ctok", sanitize=False):
    """Compile /repo's C tokenizer sources into .build/<tag>/ and return the .so path
    (None + log if the build fails)."""
    import sysconfig
    out = os.path.join(BUILD, tag)
    os.makedirs(out, exist_ok=True)
    cdir = os.path.join(SRC, "mwparserfromhell", "parser", "ctokenizer")
    srcs = sorted(os.path.join(cdir, f) for f in os.listdir(cdir) if f.endswith(".c"))
    hdrs = sorted(os.path.join(cdir, f) for f in os.listdir(cdir) if f.endswith(".h"))
    h = hashlib.sha1()
    for f in srcs + hdrs:
        h.update(open(f, "rb").read())
    h.update(b"san" if sanitize else b"plain")
    so = os.path.join(out, "_tokenizer_%s.so" % h.hexdigest()[:12])
    if os.path.exists(so):
        return so, ""
    inc = subprocess.run([PY, "-c", "import sysconfig;print(sysconfig.get_paths()['include'])"],
                         stdout=subprocess.PIPE, text=True).stdout.strip()
    flags = ["-O1", "-g", "-fPIC", "-shared", "-I" + inc]
    if sanitize:
        flags += ["-fsanitize=address,undefined", "-fno-omit-frame-pointer"]
    with _Lock("cbuild"):
        if os.path.exists(so):
            return so, ""
        for old in os.listdir(out):
            if old.endswith(".so"):
                os.unlink(os.path.join(out, old))
        rc, log = sh(["gcc"] + flags + srcs + ["-o", so], timeout=600)
    if rc != 0:
        return None, log
    return so, log


def build_tbshim(sanitize=False):
    """Compile tools/tbshim.c together with /repo's textbuffer.c into .build/tbshim[_asan]/; returns (.so path | None, log)."""
    out = os.path.join(BUILD, "tbshim_asan" if sanitize else "tbshim")
    os.makedirs(out, exist_ok=True)
    cdir = os.path.join(SRC, "mwparserfromhell", "parser", "ctokenizer")
    srcs = [os.path.join(VERIF, "tools", "tbshim.c"), os.path.join(cdir, "textbuffer.c")]
    deps = srcs + [os.path.join(cdir, "textbuffer.h"), os.path.join(cdir, "common.h")]
    h = hashlib.sha1()
    for f in deps:
        h.update(open(f, "rb").read())
    so = os.path.join(out, "tbshim_%s.so" % h.hexdigest()[:12])
    if os.path.exists(so):
        return so, ""
    inc = subprocess.run([PY, "-c", "import sysconfig;print(sysconfig.get_paths()['include'])"],
                         stdout=subprocess.PIPE, text=True).stdout.strip()
    flags = ["-O1", "-g", "-fPIC", "-shared", "-I" + inc, "-I" + cdir]
    if sanitize:
        flags += ["-fsanitize=address,undefined", "-fno-omit-frame-pointer"]
    with _Lock("tbshim"):
        if os.path.exists(so):
            return so, ""
        for old in os.listdir(out):
            if old.endswith(".so"):
                os.unlink(os.path.join(out, old))
        rc, log = sh(["gcc"] + flags + srcs + ["-o", so], timeout=600)
    if rc != 0:
        return None, log
    return so, log


def load_ctokenizer(so):
    """Load the scratch-built extension under the package name so that
    mwparserfromhell.parser picks it up; returns the CTokenizer class."""
    import importlib.util
    name = "mwparserfromhell.parser._tokenizer"
    spec = importlib.util.spec_from_file_location(name, so)
    mod = importlib.util.module_from_spec(spec)
    sys.modules[name] = mod
    spec.loader.exec_module(mod)
    return mod.CTokenizer


def pure_python_parser():
    """For the checks about the node / list classes: build trees with the Python tokenizer of the current sources
    (never with an in-tree _tokenizer extension, which may be stale or absent). Call in the parent before forking."""
    import mwparserfromhell.parser as P
    P.use_c = False


# --------------------------------------------------------------------------- the check object

class Check:
    def __init__(self, pid, tier, seed, level="proof"):
        self.pid, self.tier, self.seed, self.level = pid, tier, seed, level
        self.t0 = time.time()
        self.violations = []      # (what, replay dict, found_input: bool)
        self.known_hits = {}
        self.obligations = 0
        self.discharged = 0
        self.broken = []
        self.axioms = []
        self.cov = {"evaluations": 0, "distinct_nontrivial": 0, "rule": "", "samples": [],
                    "traces_validated_against_impl": 0}
        self.assumptions = []
        self.notes = {}
        self.known = [k for k in known_findings() if k.get("property") == pid or pid in k.get("properties", [])]

    # ---- proof obligations
    def prove(self, prop_file):
        ok, log, broken = coq_build()
        theorems, blocks, ok2, out = coq_props(prop_file) if ok else (self._theorem_names(prop_file), [], False, log)
        self.obligations += len(theorems)
        if ok and ok2 and len(blocks) >= len(theorems):
            self.discharged += len(theorems)
            ax = sorted({a for b in blocks for a in b})
            self.axioms = ax
        else:
            if ok and not ok2:
                for m in _ERR_RE.finditer(out):
                    broken.append({"file": m.group(1), "line": int(m.group(2)),
                                   "statement": enclosing_statement(os.path.join(COQ, m.group(1)), int(m.group(2))),
                                   "error": m.group(5).strip()[:600]})
                if not broken:
                    broken.append({"file": prop_file, "line": 0, "statement": None, "error": out[-600:]})
            self.broken += broken
        bad = forbidden_scan()
        if bad:
            self.broken.append({"file": bad[0], "line": 0, "statement": None,
                                "error": "forbidden declarations: " + ", ".join(bad[:10])})
            self.discharged = 0
        self.notes["theorems"] = theorems
        return ok and ok2 and not bad

    def _theorem_names(self, prop_file):
        try:
            return re.findall(r"^\s*Theorem\s+([A-Za-z0-9_']+)", open(os.path.join(COQ, "props", prop_file)).read(), re.M)
        except OSError:
            return []

    # ---- findings
    def match_known(self, what, data):
        """Return the known-finding entry that covers this failure, if any.  Entries carry a
        'match' dict; all its keys must equal (or, for '*_contains', be contained in) data."""
        for k in self.known:
            if k.get("status") != "known":
                continue
            m = k.get("match", {})
            ok = True
            for key, val in m.items():
                if key.endswith("_contains"):
                    ok = ok and val in str(data.get(key[:-9], ""))
                elif key.endswith("_in"):
                    ok = ok and data.get(key[:-3]) in val
                else:
                    ok = ok and data.get(key) == val
            if ok and m:
                return k
        return None

    def fail(self, what, data, found_input=True):
        """Record a failure of the property (found_input) or of a proof/tie obligation."""
        k = self.match_known(what, data) if found_input else None
        if k is not None:
            self.known_hits.setdefault(k["id"], [k, 0])[1] += 1
            return
        if len(self.violations) < 50:
            self.violations.append((what, data, found_input))

    # ---- result
    def finish(self, explanation=None):
        wall = time.time() - self.t0
        os.makedirs(os.path.join(VERIF, "evidence"), exist_ok=True)
        lines = []
        for kid, (k, n) in sorted(self.known_hits.items()):
            lines.append("KNOWN-FINDING: property=%s %s (%s; %d hit(s))" % (self.pid, k["what"], kid, n))
        # broken obligations without a concrete failing input
        concrete = [v for v in self.violations if v[2]]
        if self.broken and not concrete:
            self.violations.append(("proof obligation or model tie no longer checks",
                                    {"broken": self.broken}, False))
        rc = 0
        reported = concrete[:1] if concrete else self.violations[:1]
        for what, data, found in reported:
            rd = os.path.join(VERIF, "replays", self.pid)
            os.makedirs(rd, exist_ok=True)
            blob = json.dumps({"property": self.pid, "what": what, "found_failing_input": found,
                               "seed": self.seed, "tier": self.tier, "data": data,
                               "broken_obligations": self.broken}, indent=1, default=repr, sort_keys=True)
            path = os.path.join(rd, hashlib.sha1(blob.encode()).hexdigest()[:12] + ".json")
            open(path, "w").write(blob)
            lines.append("VIOLATION property=%s replay=%s%s" % (self.pid, path, "" if found else " no-failing-input-found"))
            rc = 1
        cov = dict(self.cov)
        cov["samples"] = cov["samples"][:8] or ["(none)"]
        tb = ["Coq 8.16.1 kernel (coqc; vm_compute for closed computations; no native_compute)",
              "axioms reported by Print Assumptions: " + (", ".join(self.axioms) if self.axioms else "none (all theorems closed under the global context)"),
              "extraction: ExtrOcamlBasic only, no Extract Constant; hand-written OCaml driver and int<->nat/Z conversions",
              "correspondence harness (tools/), CPython 3.12 in /venv executing /repo/src"]
        # (a run in which no obligation could be discharged reports the counts under other names: the evidence schema
        # reserves "obligations"/"discharged" for runs that discharged at least one)
        ok_keys = self.obligations >= 1 and self.discharged >= 1
        cov.update({("obligations" if ok_keys else "obligations_stated"): self.obligations,
                    ("discharged" if ok_keys else "obligations_discharged"): self.discharged,
                    "checker_cmd": "make -C /verif all && coqc -Q . MW props/%s.v (Print Assumptions under every theorem)" % self.pid,
                    "trusted_base": tb + self.assumptions})
        if explanation:
            cov["explanation"] = explanation
        cov.update(self.notes)
        ev = {"property_id": self.pid, "tier": self.tier, "seed": self.seed, "level": self.level,
              "coverage": cov, "assumptions": self.assumptions, "wall_s": round(wall, 2),
              "violations": len(self.violations),
              "known_findings_hit": {k: n for k, (_e, n) in self.known_hits.items()},
              "broken_obligations": self.broken}
        with open(os.path.join(VERIF, "evidence", self.pid + ".json"), "w") as f:
            json.dump(ev, f, indent=1, default=repr, sort_keys=True)
        for l in lines:
            print(l)
        print("%s %s: obligations %d/%d, evaluations %d, nontrivial %d, violations %d, %.1fs" % (
            self.pid, self.tier, self.discharged, self.obligations, cov["evaluations"],
            cov["distinct_nontrivial"], len(self.violations), wall))
        sys.stdout.flush()
        return rc


# --------------------------------------------------------------------------- parallel map

def pmap(func, chunks, procs=None):
    """Run func(chunk) for every chunk in forked worker processes; results in order."""
    import multiprocessing as mp
    procs = procs or min(16, os.cpu_count() or 4)
    chunks = list(chunks)
    if len(chunks) <= 1 or procs <= 1:
        return [func(c) for c in chunks]
    ctx = mp.get_context("fork")
    try:
        with ctx.Pool(procs) as pool:
            return pool.map(func, chunks, chunksize=1)
    except Exception as e:      # noqa: BLE001 - an exception the worker did not expect from the code under test
        import traceback
        for ch in chunks:
            for item in ch:
                try:
                    func([item])
                except Exception as ex:      # noqa: BLE001
                    tb = traceback.extract_tb(ex.__traceback__)
                    raise WorkerCrash(item, "%r [%s]" % (ex, " <- ".join("%s:%d" % (os.path.basename(f.filename), f.lineno) for f in tb[-5:]))) from None
        raise WorkerCrash(None, repr(e)) from None


class WorkerCrash(Exception):
    """a worker of a check raised on one item: reported by check.py as a violation with that item as the replay"""
    def __init__(self, item, what):
        super().__init__(what)
        self.item = item
        self.what = what


def chunked(seq, n):
    seq = list(seq)
    k = max(1, (len(seq) + n - 1) // n)
    return [seq[i:i + k] for i in range(0, len(seq), k)]


def coq_eval(name, text, timeout=600):
    """Compile a scratch .v file (under .build/) against the built development; return coqc's output."""
    d = os.path.join(BUILD, "cases")
    os.makedirs(d, exist_ok=True)
    p = os.path.join(d, name + ".v")
    open(p, "w").write(text)
    rc, out = sh(["coqc", "-Q", COQ, "MW", "-Q", d, "Cases", p], timeout=timeout)
    return rc, out


# --------------------------------------------------------------------------- crash-proof parallel map

def _child_run(func, items, wfd, mem_bytes, cpu_s):
    import pickle
    import resource
    try:
        if mem_bytes:
            resource.setrlimit(resource.RLIMIT_AS, (mem_bytes, mem_bytes))
        if cpu_s:
            resource.setrlimit(resource.RLIMIT_CPU, (cpu_s, cpu_s + 5))
        resource.setrlimit(resource.RLIMIT_CORE, (0, 0))
        res = func(items)
        data = pickle.dumps(("ok", res))
    except BaseException as e:  # noqa: BLE001
        import traceback
        data = pickle.dumps(("pyexc", "%r\n%s" % (e, traceback.format_exc()[-1500:])))
    with os.fdopen(wfd, "wb") as w:
        w.write(data)
    os._exit(0)


def run_isolated(func, items, timeout=120, mem_bytes=4 << 30, cpu_s=None):
    """Run func(items) in a forked child under resource limits.
    Returns ('ok', result) | ('pyexc', text) | ('crash', signal/exit) | ('timeout', None)."""
    import pickle
    import select
    import signal
    rfd, wfd = os.pipe()
    pid = os.fork()
    if pid == 0:
        os.close(rfd)
        _child_run(func, items, wfd, mem_bytes, cpu_s)
    os.close(wfd)
    chunks = []
    deadline = time.time() + timeout
    status = None
    with os.fdopen(rfd, "rb") as r:
        while True:
            left = deadline - time.time()
            if left <= 0:
                os.kill(pid, signal.SIGKILL)
                os.waitpid(pid, 0)
                return ("timeout", None)
            ready, _, _ = select.select([r], [], [], min(left, 1.0))
            if ready:
                b = r.read(1 << 20) if False else os.read(r.fileno(), 1 << 20)
                if not b:
                    break
                chunks.append(b)
    _pid, st = os.waitpid(pid, 0)
    data = b"".join(chunks)
    if os.WIFSIGNALED(st):
        return ("crash", "signal %d" % os.WTERMSIG(st))
    if not data:
        return ("crash", "exit %d without a result" % os.WEXITSTATUS(st))
    try:
        return pickle.loads(data)
    except Exception as e:  # noqa: BLE001
        return ("crash", "unreadable result: %r" % (e,))


def robust_map(func, items, chunk=256, timeout=180, procs=None, mem_bytes=4 << 30):
    """func(list_of_items) -> list of results (same length).  Items whose processing crashes the
    interpreter, exhausts memory or hangs are isolated by bisection and reported as
    ('CRASH', why) / ('TIMEOUT', None) / ('PYEXC', text) in place of their result.
    Children are forked from this (single) thread and multiplexed with select()."""
    import pickle
    import select
    import signal
    items = list(items)
    procs = procs or min(16, os.cpu_count() or 4)
    todo = [(i, min(i + chunk, len(items))) for i in range(0, len(items), chunk)][::-1]
    results = {}
    active = {}     # rfd -> dict(pid, lo, hi, deadline, buf)

    def launch(lo, hi):
        rfd, wfd = os.pipe()
        sys.stdout.flush()
        sys.stderr.flush()
        pid = os.fork()
        if pid == 0:
            os.close(rfd)
            for fd in list(active):
                try:
                    os.close(fd)
                except OSError:
                    pass
            _child_run(func, items[lo:hi], wfd, mem_bytes, None)
        os.close(wfd)
        active[rfd] = {"pid": pid, "lo": lo, "hi": hi, "deadline": time.time() + timeout, "buf": []}

    def finish(rfd, status, payload):
        a = active.pop(rfd)
        os.close(rfd)
        lo, hi = a["lo"], a["hi"]
        if status == "ok" and isinstance(payload, list) and len(payload) == hi - lo:
            results[lo] = payload
            return
        if hi - lo == 1:
            tag = {"crash": "CRASH", "timeout": "TIMEOUT", "pyexc": "PYEXC", "ok": "PYEXC"}[status]
            results[lo] = [(tag, payload)]
            return
        mid = (lo + hi) // 2
        todo.append((mid, hi))
        todo.append((lo, mid))

    while todo or active:
        while todo and len(active) < procs:
            launch(*todo.pop())
        ready, _, _ = select.select(list(active), [], [], 0.5)
        for rfd in ready:
            b = os.read(rfd, 1 << 20)
            if b:
                active[rfd]["buf"].append(b)
                continue
            a = active[rfd]
            _pid, st = os.waitpid(a["pid"], 0)
            data = b"".join(a["buf"])
            if os.WIFSIGNALED(st):
                finish(rfd, "crash", "signal %d" % os.WTERMSIG(st))
            elif not data:
                finish(rfd, "crash", "exit %d without a result" % os.WEXITSTATUS(st))
            else:
                try:
                    status, payload = pickle.loads(data)
                except Exception as e:  # noqa: BLE001
                    status, payload = "crash", "unreadable result: %r" % (e,)
                finish(rfd, status, payload)
        now = time.time()
        for rfd in [r for r, a in active.items() if a["deadline"] < now]:
            a = active[rfd]
            try:
                os.kill(a["pid"], signal.SIGKILL)
            except OSError:
                pass
            os.waitpid(a["pid"], 0)
            finish(rfd, "timeout", None)
    out = []
    for lo in sorted(results):
        out += results[lo]
    return out
