"""C01 - parsing is lossless: str(parse(s)) == s, both tokenizers, both modes, both starting contexts.

Proved (coq/props/C01.v): the Builder/rendering half - see the file.  Not proved: that the
tokenizers' output always spells the input (needs a per-route invariant of the 1.5k-line tokenizer);
that part is validated here by the round-trip oracle on table-driven and generated inputs.
"""
import headfrag
import tokprops
import vlib


def run(tier, seed):
    c = vlib.Check("C01", tier, seed, "proof")
    c.prove("C01.v")
    tokprops.run_stream(c, tier, seed, ("roundtrip",),
                        "non-trivial = input contains markup characters or produced a non-Text token; distinct by (text, context, skip)",
                        builder_tie=True)
    _setters(c, tier, seed)
    headfrag.run(c, tier, seed, ("roundtrip",))
    headfrag.run_entities(c, tier, seed, ("roundtrip",))
    headfrag.run_mixed(c, tier, seed, ("roundtrip",))
    c.assumptions += ["tokenizer round trip is validated by testing, not proved (PARTIAL, see DESIGN.md C01)"]
    return c.finish()


def _setters(c, tier, seed):
    """text that node setters parse implicitly renders back exactly"""
    import random
    import mwparserfromhell
    import wikigen
    rng = random.Random(seed + 101)
    n = 1500 if tier == "quick" else 40000
    base = mwparserfromhell.parse("{{t|a=b}}[[l|t]][http://x y]\n==h==\n<b a=\"c\">x</b>{{{n|d}}}")
    tpl, wl, el, hd, tag, arg = (base.filter_templates()[0], base.filter_wikilinks()[0], base.filter_external_links()[0],
                                 base.filter_headings()[0], base.filter_tags()[0], base.filter_arguments()[0])
    targets = [(tpl, "name"), (wl, "title"), (wl, "text"), (el, "url"), (el, "title"), (hd, "title"), (tag, "contents"),
               (tag, "tag"), (arg, "name"), (arg, "default"), (tpl.params[0], "value"), (tpl.params[0], "name"),
               (tag.attributes[0], "value"), (tag.attributes[0], "name")]
    for _ in range(n):
        obj, attr = rng.choice(targets)
        s = wikigen.any_input(rng)
        if "\ud800" in s or "\udfff" in s:
            continue
        try:
            setattr(obj, attr, s)
            got = str(getattr(obj, attr))
        except ValueError:
            continue
        except Exception as e:  # noqa: BLE001
            c.fail("setter %s.%s raised %r" % (type(obj).__name__, attr, e), {"setter": "%s.%s" % (type(obj).__name__, attr), "text": s})
            continue
        c.cov["evaluations"] += 1
        if got != s:
            c.fail("text assigned to %s.%s renders differently: %r" % (type(obj).__name__, attr, got[:120]),
                   {"setter": "%s.%s" % (type(obj).__name__, attr), "text": s})


def replay(data):
    return tokprops.replay_text(data, ("roundtrip",))
