"""C07 - the C tokenizer is memory-safe and leak-free.  PARTIAL proof + instrumented execution.

Proved (coq/props/C07.v): the buffer logic (textbuffer.c growth / concat / reverse / truncation, entity and brace
text buffers) over a bounds-checked memory, parameters regenerated from the C sources; tied to the real
textbuffer.c by driving its functions through a ctypes shim with the operation sequences the extracted model runs.
Decided by execution (tools/c07_worker.py, separate interpreters):
 * an AddressSanitizer + UBSan build of the tokenizer (PYTHONMALLOC=malloc so that every object has red zones)
   over table-driven inputs, adversarial families, grammar documents in all three string widths, and calls
   aborted at the k-th token construction for every k followed by reuse of the object;
 * the same items under CPython's debug allocator (allocator API mix-ups, pad bytes);
 * libc's mallinfo2 (all allocations, PYTHONMALLOC=malloc) and reference counts over windows of repeated
   completed and aborted calls.
"""
import json
import os
import subprocess
import sys
import time

import vlib

WORKER = os.path.join(vlib.VERIF, "tools", "c07_worker.py")


def _launch(mode, nshards, seed, tier, env_extra):
    env = dict(os.environ)
    env.update({"PYTHONHASHSEED": "0", "PYTHONMALLOC": "malloc", "VERIF_TIER_THOROUGH": "1" if tier == "thorough" else "0"})
    env.update(env_extra)
    procs = []
    for i in range(nshards):
        procs.append(subprocess.Popen([vlib.PY, WORKER, mode, str(i), str(nshards), str(seed), tier], env=env,
                                      stdout=subprocess.PIPE, stderr=subprocess.PIPE, text=True))
    return procs


def _collect(procs, timeout):
    out = []
    deadline = time.time() + timeout
    for p in procs:
        try:
            so, se = p.communicate(timeout=max(1, deadline - time.time()))
            out.append((p.returncode, so, se))
        except subprocess.TimeoutExpired:
            p.kill()
            so, se = p.communicate()
            out.append(("timeout", so, se))
    return out


def _asan_env():
    lib = subprocess.run(["gcc", "-print-file-name=libasan.so"], stdout=subprocess.PIPE, text=True).stdout.strip()
    return {"LD_PRELOAD": lib, "ASAN_OPTIONS": "detect_leaks=0:abort_on_error=0:halt_on_error=1:allocator_may_return_null=1",
            "UBSAN_OPTIONS": "halt_on_error=1:print_stacktrace=1", "MWPFH_CTOK_SANITIZE": "1"}


def _digest(c, mode, results, seed, tier, stats, shim_rows):
    for shard, (rc, so, se) in enumerate(results):
        cur = None
        done = False
        for line in so.split("\n"):
            if line.startswith("CUR "):
                cur = int(line[4:])
            elif line.startswith("FAIL "):
                idx, blob = line[5:].split(" ", 1)
                d = json.loads(blob) if blob.startswith("{") and blob.endswith("}") else {"raw": blob}
                c.fail("%s leg: %s" % (mode, "; ".join(d.get("fails", [d.get("why", "?")]))[:400]),
                       {"mode": mode, "index": int(idx), "seed": seed, "tier": tier, "item": d.get("item")})
            elif line.startswith("SHIM "):
                shim_rows += json.loads(line[5:])
            elif line.startswith("DONE "):
                done = True
                for k, v in json.loads(line[5:]).items():
                    stats[k] = stats.get(k, 0) + v
        if not done:
            report = [l for l in se.split("\n") if "ERROR" in l or "runtime error" in l or "SUMMARY" in l][:4]
            c.fail("%s leg: the interpreter %s while processing item %s: %s" % (
                mode, "timed out" if rc == "timeout" else "died (exit %s)" % rc, cur, " | ".join(report) or se[-300:]),
                {"mode": mode, "index": cur, "seed": seed, "tier": tier, "stderr": se[-1500:]})


def run(tier, seed):
    c = vlib.Check("C07", tier, seed, "proof")
    c.prove("C07.v")
    stats = {}
    shim_rows = []
    # ---- builds (in the parent, without the sanitizer preloaded)
    so, log = vlib.build_ctokenizer(tag="ctok_asan", sanitize=True)
    so2, log2 = vlib.build_tbshim(sanitize=True)
    so3, log3 = vlib.build_tbshim(sanitize=False)
    so4, log4 = vlib.build_ctokenizer()
    if not (so and so2 and so3 and so4):
        c.fail("the C tokenizer or the shim does not build: %s" % (log + log2 + log3 + log4)[-400:], {"build": "failed"})
        return c.finish()
    n = 14
    asan = _launch("asan", n, seed, tier, _asan_env())
    res = _collect(asan, 600 if tier == "quick" else 20000)
    _digest(c, "asan", res, seed, tier, stats, shim_rows)
    # the same items under CPython's debug allocator: it checks which allocator API every block came from and the
    # pad bytes around every block (the sanitizer leg runs with PYTHONMALLOC=malloc and cannot see an API mix-up)
    dbg = _launch("asan", n, seed, tier, {"PYTHONMALLOC": "debug", "C07_LEG": "dbg"})
    res = _collect(dbg, 600 if tier == "quick" else 20000)
    _digest(c, "dbg", res, seed, tier, stats_dbg := {}, [])
    stats["debug_allocator_items"] = sum(stats_dbg.get(k, 0) for k in ("tok", "inj"))
    leak = _launch("leak", n, seed, tier, {})
    res = _collect(leak, 600 if tier == "quick" else 20000)
    _digest(c, "leak", res, seed, tier, stats, [])
    # ---- model vs real textbuffer.c
    dis = 0
    if shim_rows:
        try:
            model = vlib.model_run("cbuffers", [r[1] for r in shim_rows])
        except Exception as e:  # noqa: BLE001
            model = None
            c.broken.append({"file": "coq/extract/cbuffers_run", "line": 0, "statement": "c_step (extracted)", "error": str(e)})
        if model is not None:
            for (idx, line, obs), m in zip(shim_rows, model):
                c.cov["traces_validated_against_impl"] += 1
                if m.startswith("OOB"):
                    c.fail("buffer operations leave the allocated object in the model regenerated from textbuffer.c (%s): %s" % (m, line[:200]),
                           {"mode": "asan", "index": idx, "seed": seed, "tier": tier, "ops": line})
                elif m.strip() != obs.strip():
                    dis += 1
                    if dis <= 3:
                        c.broken.append({"file": "correspondence textbuffer.c", "line": 0, "statement": "c_step (model tie)",
                                         "error": "ops %s: model %s vs textbuffer.c %s" % (line[:200], m[:300], obs[:300])})
    c.cov["evaluations"] = sum(stats.get(k, 0) for k in ("tok", "inj", "shim", "leak-tok", "leak-inj"))
    c.cov["distinct_nontrivial"] = stats.get("inj", 0) + stats.get("leak-inj", 0) + stats.get("leak-tok", 0) + len({r[1] for r in shim_rows if len(r[1]) > 200})
    c.cov["rule"] = ("sanitizer leg: table-driven inputs (every scheme / tag / entity / brace-run form), adversarial families at 3 sizes, grammar "
                     "documents, each in one of the three string widths (Latin-1 / BMP / astral, rotating); every short document and 26 fragments "
                     "(each width) with the call aborted at the k-th token construction for every k <= 40, then reused; leak leg: every 9th item "
                     "(quick) repeated 5 x 40 times after 40 warm-up calls (confirmed with 5 x 600 when every window grows), completed, and aborted at 4 abort points (every abort point in the thorough tier); shim: random Textbuffer operation sequences (bursts across the 32 / 64 / "
                     "128 growth boundaries, concat, reverse, reset, truncate). Non-trivial = aborted-call items + leak items + shim sequences "
                     "longer than 200 characters (distinct)")
    c.cov["samples"] = [{"shim_ops": r[1][:160], "observed": r[2][:160]} for r in shim_rows[:2]] + [stats]
    c.notes["items_per_kind"] = stats
    c.notes["model_impl_disagreements"] = dis
    c.assumptions += ["AddressSanitizer / UBSan (gcc) detect the out-of-bounds, use-after-free and undefined operations they are documented to detect",
                      "leaks: libc mallinfo2 bytes in use must not grow by >= 16 bytes per call in every one of five windows of 40 (then 600) calls (PYTHONMALLOC=malloc)",
                      "the buffer model's template matcher (tools/gen_defs.py gen_cbuffers) and the ctypes shim (tools/tbshim.c)",
                      "reference counting, the AVL tree and tag_data are exercised, not modelled"]
    return c.finish(explanation="Partial proof: buffer logic only. Memory safety of the whole extension and leak freedom are decided by the "
                                "instrumented build and allocation counts on the explored inputs and abort points.")


def replay(data):
    d = data["data"]
    if d.get("index") is None:
        print(d)
        return 1
    env = dict(os.environ)
    env.update({"PYTHONHASHSEED": "0", "PYTHONMALLOC": "malloc"})
    if d["mode"] == "dbg":
        env.update({"PYTHONMALLOC": "debug", "C07_LEG": "dbg"})
        d = dict(d, mode="asan")
    elif d["mode"] == "asan":
        vlib.build_ctokenizer(tag="ctok_asan", sanitize=True)
        vlib.build_tbshim(sanitize=True)
        env.update(_asan_env())
    p = subprocess.run([vlib.PY, WORKER, "one", d["mode"], str(d["index"]), str(d["seed"]), d["tier"]], env=env,
                       stdout=subprocess.PIPE, stderr=subprocess.PIPE, text=True)
    print(p.stdout[-1500:], p.stderr[-1500:])
    if d.get("ops"):
        print(vlib.model_run("cbuffers", [d["ops"]]))
        return 1
    return 1 if p.returncode != 0 else 0
