"""C11 - section views are live and stay coherent with the page under edits.

Proof: coq/props/C11.v (on top of C13).  Tie: real pages are parsed, sections are obtained with
get_sections (random options), and histories of Wikicode edit calls (insert/append/set by index
incl. negative, remove/replace/insert_before/insert_after by node and by view) are applied to the
real objects and to the extracted model coq/WikiEdit.v; after every call the page's node
identities and every section's bounds and contents are compared.  A second stream of histories
(edits by string target, edits inside nested nodes, string values) is checked by the property's
oracle only.
"""
import random

import vlib

NONE = 99999


# ------------------------------------------------------------------ page construction

def make_page(rng):
    parts = []
    n = rng.randint(1, 7)
    for k in range(n):
        c = rng.random()
        if c < 0.45:
            lvl = rng.randint(1, 4)
            parts.append("\n" + "=" * lvl + " h%d " % k + "=" * lvl + "\n")
        elif c < 0.65:
            parts.append("{{t%d|a=b}}" % k)
        elif c < 0.8:
            parts.append("[[l%d]]" % k)
        elif c < 0.9:
            parts.append("text%d " % k)
        else:
            parts.append("<!--c%d-->" % k)
    return "".join(parts)


def section_options(rng):
    return dict(levels=rng.choice([None, None, [2], [1, 3], [2, 3, 4]]),
                flat=rng.random() < 0.4,
                include_lead=rng.choice([None, True, False]),
                include_headings=rng.random() < 0.7)


class Ids:
    """node identity -> small integer, first come first served"""

    def __init__(self):
        self.m = {}
        self.keep = []

    def of(self, node):
        k = id(node)
        if k not in self.m:
            self.m[k] = len(self.m)
            self.keep.append(node)
        return self.m[k]

    def known(self, node):
        return id(node) in self.m


def show_list(l):
    return "[" + ",".join(map(str, l)) + "]"


def show_state(page, secs, ids):
    vs = []
    for s in secs:
        si = s.nodes._sliceinfo
        try:
            rd = show_list([ids.of(n) for n in s.nodes])
        except IndexError:
            rd = "EXC"
        vs.append("%d %s %s" % (si[0], "N" if si[1] is None else si[1], rd))
    return show_list([ids.of(n) for n in page.nodes]) + " | " + " / ".join(vs)


def fresh_nodes(rng, k, tag):
    from mwparserfromhell.nodes import Template, Text, Comment
    from mwparserfromhell.smart_list import SmartList
    from mwparserfromhell.wikicode import Wikicode
    out = []
    for j in range(k):
        c = rng.random()
        if c < 0.5:
            out.append(Template(Wikicode(SmartList([Text("n%s_%d" % (tag, j))]))))
        elif c < 0.8:
            out.append(Comment("c%s_%d" % (tag, j)))
        else:
            out.append(Text("x%s_%d " % (tag, j)))
    return out


def value_of(nodes):
    from mwparserfromhell.smart_list import SmartList
    from mwparserfromhell.wikicode import Wikicode
    if len(nodes) == 1:
        return nodes[0]
    return Wikicode(SmartList(nodes))


# ------------------------------------------------------------------ the property oracle

def snapshot(page, secs):
    return [list(page.nodes)] + [(list(s.nodes), s.nodes._start, s.nodes._stop) for s in secs]


def oracle(page, secs, snap, tgt, edited_ok, appended=False):
    """Property C11 after one edit. snap = state before; tgt = index of the object the edit went
    through (-1 page, k section) or None (nested / string edit).  appended: the edit was page.append(nodes):
    the edited place is the end of the page, which every section that ran to the end of the page contains."""
    old_page = snap[0]
    try:
        new_page = list(page.nodes)
    except Exception as e:
        return "page cannot be read: %r" % (e,)
    new_ids = [id(n) for n in new_page]
    old_ids = {id(n) for n in old_page}
    for k, s in enumerate(secs):
        old, os_, oe = snap[1 + k]
        try:
            cur = list(s.nodes)
            str(s)
        except Exception as e:
            return "section %d raises when read: %r" % (k, e)
        # contiguous run of the page's current nodes
        a, b = s.nodes._start, s.nodes._stop
        if not (0 <= a <= b <= len(new_page)) or [id(n) for n in cur] != new_ids[a:b]:
            return "section %d is not a contiguous run of the page's nodes (bounds %s:%s)" % (k, a, b)
        if appended and edited_ok and oe == len(old_page) and len(new_page) > len(old_page) and b != len(new_page):
            return ("page.append(): section %d ran to the end of the page (%d:%d of %d) and does not show the appended nodes (now %d:%d of %d)"
                    % (k, os_, oe, len(old_page), a, b, len(new_page)))
        if k == tgt:
            if edited_ok and new_ids != [id(n) for n in old_page[:os_]] + [id(n) for n in cur] + [id(n) for n in old_page[oe:]]:
                return "edit through section %d does not appear in the page at the section's place" % k
            continue
        curids = [id(n) for n in cur]
        oldids = [id(n) for n in old]
        inpage = set(new_ids)
        surv = [i for i in oldids if i in inpage]
        kept = [i for i in curids if i in set(oldids)]
        if surv != kept:
            return "section %d does not keep exactly the nodes it had that were not removed" % k
        if any((i in old_ids) for i in curids if i not in set(oldids)):
            return "section %d gained a node that was outside it" % k
    return None


# ------------------------------------------------------------------ histories with model correspondence

def run_model_history(seed, transform=None):
    import mwparserfromhell
    rng = random.Random(seed)
    text = make_page(rng)
    page = mwparserfromhell.parse(text)
    secs = []
    for _ in range(rng.randint(1, 2)):
        secs += page.get_sections(**section_options(rng))
    secs = secs[:5]
    if secs and rng.random() < 0.35:
        # sections taken FROM a section (a view of a view): they are views of the page like any other
        sub = rng.choice(secs).get_sections(**section_options(rng))[:2]
        for v in sub:
            if not hasattr(v.nodes, "_sliceinfo"):
                return "0 0 0", "", (0, "a section obtained from a section is not a live view of the page (its node list is a %s)" % type(v.nodes).__name__), True, text
        secs = (secs + sub)[:6]
    if transform is not None:     # e.g. pickle round trip of (page, sections): C17
        page, secs = transform(page, secs)
    ids = Ids()
    for n in page.nodes:
        ids.of(n)
    n0 = len(page.nodes)
    line = [n0, len(secs)]
    for s in secs:
        si = s.nodes._sliceinfo
        line += [si[0], NONE if si[1] is None else si[1]]
    nedits = rng.randint(1, 7)
    enc = []
    recs = []
    failure = None
    nontrivial = False
    for step in range(nedits):
        tgt = rng.randint(-1, len(secs) - 1)
        T = page if tgt < 0 else secs[tgt]
        try:
            content = list(T.nodes)
        except Exception:
            content = []
        k = rng.choice([0, 1, 1, 1, 2, 3])
        new = fresh_nodes(rng, k, "%d" % step)
        newids = [ids.of(n) for n in new]
        val = value_of(new) if new else ""
        allnodes = list(page.nodes)
        pick = (rng.choice(content) if content and rng.random() < 0.85
                else (rng.choice(allnodes) if allnodes else None))
        kind = rng.randint(0, 12)
        n = len(content)
        snap = snapshot(page, secs) if failure is None else None
        via = tgt
        try:
            if kind == 0:
                i = rng.randint(-n - 2, n + 2)
                enc += [tgt, 0, i, len(newids)] + newids
                T.insert(i, val)
            elif kind == 1:
                enc += [tgt, 1, len(newids)] + newids
                T.append(val)
            elif kind == 2:
                i = rng.randint(-n - 2, n + 2)
                enc += [tgt, 2, i, len(newids)] + newids
                T.set(i, val)
            elif kind in (11, 12):
                # slice assignment / deletion on the node list (what a multi-node string target does)
                lo = rng.choice([None, rng.randint(-n - 1, n + 1)])
                hi = rng.choice([None, rng.randint(-n - 1, n + 1)])
                enc += [tgt, 11, NONE if lo is None else lo, NONE if hi is None else hi, len(newids)] + newids
                T.nodes[lo:hi] = new
            elif kind in (3, 4, 5, 6) and pick is not None:
                x = ids.of(pick)
                if kind == 3:
                    enc += [tgt, 3, x]
                    T.remove(pick)
                elif kind == 4:
                    enc += [tgt, 4, x, len(newids)] + newids
                    T.replace(pick, val)
                elif kind == 5:
                    enc += [tgt, 5, x, len(newids)] + newids
                    T.insert_before(pick, val)
                else:
                    enc += [tgt, 6, x, len(newids)] + newids
                    T.insert_after(pick, val)
            elif secs:
                # by view: called on the page (or another section) with a section as the target
                j = rng.randint(0, len(secs) - 1)
                caller = page if rng.random() < 0.7 else secs[rng.randint(0, len(secs) - 1)]
                via = j
                op = kind if kind in (7, 8, 9, 10) else 7 + rng.randint(0, 3)  # kinds 3-6 without a pick land here too
                if op == 7:
                    enc += [j, 7]
                    caller.remove(secs[j])
                elif op == 8:
                    enc += [j, 8, len(newids)] + newids
                    caller.replace(secs[j], val)
                elif op == 9:
                    enc += [j, 9, len(newids)] + newids
                    caller.insert_before(secs[j], val)
                else:
                    enc += [j, 10, len(newids)] + newids
                    caller.insert_after(secs[j], val)
            else:
                enc += [tgt, 1, 0]
                T.append("")
            res = "ok"
        except (IndexError, ValueError) as e:
            res = "exc " + type(e).__name__
        except Exception as e:
            res = "exc! " + type(e).__name__
            if failure is None:
                failure = (step, "unexpected exception %r" % (e,))
        recs.append(res + " | " + show_state(page, secs, ids))
        if failure is None and snap is not None:
            msg = oracle(page, secs, snap, via, res == "ok", appended=(kind == 1 and tgt < 0))
            if msg:
                failure = (step, msg)
        if res == "ok" and len(secs) >= 2:
            nontrivial = True
    line += [nedits] + enc
    return " ".join(map(str, line)), " ; ".join(recs) + " ; ", failure, nontrivial, text


# ------------------------------------------------------------------ oracle-only histories

def run_oracle_history(seed):
    """edits by string target, string values, nested-node edits"""
    import mwparserfromhell
    from mwparserfromhell.nodes import Template
    rng = random.Random(seed)
    text = make_page(rng)
    page = mwparserfromhell.parse(text)
    secs = []
    for _ in range(rng.randint(1, 2)):
        secs += page.get_sections(**section_options(rng))
    failure = None
    for step in range(rng.randint(1, 6)):
        tgt = rng.randint(-1, len(secs) - 1)
        T = page if tgt < 0 else secs[tgt]
        snap = snapshot(page, secs)
        before_text = str(page)
        kind = rng.randint(0, 7)
        via = tgt
        desc = None
        try:
            content = list(T.nodes)
            if kind == 0 and content:
                target = str(rng.choice(content))
                if target:
                    desc = ("remove-str", target)
                    T.remove(target)
            elif kind == 1 and content:
                target = str(rng.choice(content))
                if target:
                    desc = ("insert_after-str", target)
                    T.insert_after(target, "{{new%d}}" % step)
            elif kind == 2 and content:
                target = str(rng.choice(content))
                if target:
                    desc = ("replace-str", target)
                    T.replace(target, "[[r%d]] tail" % step)
            elif kind in (6, 7) and len(content) >= 2:
                # a string that spans several nodes (cut inside the first and the last one)
                i = rng.randint(0, len(content) - 2)
                j = rng.randint(i + 2, len(content))
                run = [str(n) for n in content[i:j]]
                first = run[0][rng.randint(0, max(0, len(run[0]) - 1)):] if rng.random() < 0.5 else run[0]
                last = run[-1][:rng.randint(1, max(1, len(run[-1])))] if rng.random() < 0.5 else run[-1]
                target = first + "".join(run[1:-1]) + last
                if target:
                    if kind == 6:
                        desc = ("remove-str", target)
                        T.remove(target)
                    else:
                        desc = ("replace-str", target)
                        T.replace(target, "R%d" % step)
            elif kind == 3:
                desc = ("insert-str-value",)
                T.insert(rng.randint(-3, 3), "a {{b%d}} c" % step)
            elif kind == 4:
                tpls = [n for n in page.nodes if isinstance(n, Template)]
                if tpls:
                    t = rng.choice(tpls)
                    desc = ("nested-edit",)
                    via = None
                    t.add("k%d" % step, "v{{w}}")
            else:
                desc = ("append-str-value",)
                T.append("=x=" if rng.random() < 0.2 else "z%d" % step)
            ok = True
        except (IndexError, ValueError):
            ok = False
        except Exception as e:
            failure = (step, "unexpected exception %r in %r" % (e, desc))
            break
        strict_via = via if (desc and desc[0] in ("insert-str-value", "append-str-value")) else None
        msg = oracle(page, secs, snap, strict_via, ok) if desc and desc[0] not in ("remove-str", "insert_after-str", "replace-str") else oracle_loose(page, secs, snap)
        if msg:
            failure = (step, "%s after %r" % (msg, desc))
            break
        # shared identities: a section's text is the text of its run of the page
        for k, s in enumerate(secs):
            a, b = s.nodes._start, s.nodes._stop
            if str(s) != "".join(str(n) for n in page.nodes[a:b]):
                failure = (step, "section %d text differs from the page's text at its place after %r" % (k, desc))
        if failure:
            break
    return failure, text


def oracle_loose(page, secs, snap=None):
    """string-target edits may re-parse a whole run (_slice_replace): validity is demanded, and that no
    section gains a node that existed before and was outside it"""
    try:
        new_ids = [id(n) for n in page.nodes]
    except Exception as e:
        return "page cannot be read: %r" % (e,)
    old_ids = {id(n) for n in snap[0]} if snap else set()
    for k, s in enumerate(secs):
        try:
            cur = [id(n) for n in s.nodes]
            str(s)
        except Exception as e:
            return "section %d raises when read: %r" % (k, e)
        a, b = s.nodes._start, s.nodes._stop
        if not (0 <= a <= b <= len(new_ids)) or cur != new_ids[a:b]:
            return "section %d is not a contiguous run of the page's nodes (bounds %s:%s)" % (k, a, b)
        if snap:
            was = {id(n) for n in snap[1 + k][0]}
            if any((i in old_ids) and (i not in was) for i in cur):
                return "section %d gained a node that was outside it" % k
    return None


def _worker(seeds):
    out = []
    for kind, s in seeds:
        if kind == "m":
            out.append(("m", s) + run_model_history(s))
        else:
            out.append(("o", s) + run_oracle_history(s))
    return out


def run(tier, seed):
    c = vlib.Check("C11", tier, seed, "proof")
    vlib.pure_python_parser()
    c.prove("C11.v")
    base = seed * 1000003
    nm, no = (40000, 15000) if tier == "quick" else (600000, 200000)
    seeds = [("m", base + i) for i in range(nm)] + [("o", base + 7 * nm + i) for i in range(no)]
    results = [r for ch in vlib.pmap(_worker, vlib.chunked(seeds, 64)) for r in ch]
    mres = [r for r in results if r[0] == "m"]
    try:
        model = vlib.model_run("wikiedit", [r[2] for r in mres])
    except Exception as e:
        model = None
        c.broken.append({"file": "coq/extract/wikiedit_run", "line": 0, "statement": "wc_step (extracted)", "error": str(e)})
    dis = 0
    nontrivial = set()
    for k, r in enumerate(mres):
        _kind, s, line, rec, failure, nt, text = r
        c.cov["evaluations"] += 1
        if nt:
            nontrivial.add(line)
        if failure:
            c.fail(failure[1], {"kind": "model-history", "seed": s, "step": failure[0], "page": text, "encoded": line})
        if model is not None:
            c.cov["traces_validated_against_impl"] += 1
            if model[k].strip() != rec.strip():
                dis += 1
                if dis <= 3 and not failure:
                    c.broken.append({"file": "correspondence Wikicode edits", "line": 0, "statement": "wc_step (model tie)",
                                     "error": "seed %d page %r encoded %r: model %r vs implementation %r" % (s, text, line, model[k], rec)})
    for r in results:
        if r[0] != "o":
            continue
        _kind, s, failure, text = r
        c.cov["evaluations"] += 1
        if failure:
            c.fail(failure[1], {"kind": "oracle-history", "seed": s, "step": failure[0], "page": text})
    import liveval
    lv = vlib.robust_map(liveval.work_pages, [0], chunk=1, timeout=300)[0]
    if isinstance(lv, tuple) and lv and lv[0] in ("CRASH", "TIMEOUT", "PYEXC"):
        c.fail("live-value probe %s: %s" % (lv[0], str(lv[1])[:300]), {"probe": "live-value-pages"})
    else:
        c.cov["evaluations"] += lv[1]
        for msg in lv[0][:12]:
            c.fail(msg, {"probe": "live-value-pages", "what": msg})
    c.cov["distinct_nontrivial"] = len(nontrivial)
    c.cov["rule"] = ("model histories: random parsed pages (<= 7 top-level constructs, headings of level 1-4) x sections from 1-2 "
                     "get_sections calls with random options (<= 5 views) x 1-7 edit calls (insert/append/set by index in [-n-2,n+2], "
                     "remove/replace/insert_before/insert_after by node, by view through the page or another section), values of 0-3 "
                     "pre-built nodes; oracle-only histories: string targets, string values, edits inside nested templates. "
                     "non-trivial = a successful edit while >= 2 section views are alive; distinct by encoded history")
    c.cov["samples"] = [{"encoded": r[2], "trace": r[3][:240], "page": r[6]} for r in mres[:3]]
    c.notes["model_impl_disagreements"] = dis
    c.notes["oracle_only_histories"] = no
    c.assumptions += ["node identity is modelled by integers; parse_anything of a Node/Wikicode value returns those very nodes",
                      "string-target edits (_do_weak_search/_slice_replace) are outside the model: the oracle demands only that sections stay valid views",
                      "inherits the trusted base of C13"]
    return c.finish()


def replay(data):
    if isinstance(data.get("data"), dict) and str(data["data"].get("probe", "")).startswith("live-value"):
        import liveval
        f, _n = getattr(liveval, "work_pages")([0])[0]
        print("\n".join(f[:12]))
        return 1 if f else 0
    d = data["data"]
    if d.get("kind") == "model-history":
        line, rec, failure, _nt, text = run_model_history(d["seed"])
        print("page", repr(text)); print("encoded", line); print("trace", rec); print("failure", failure)
    else:
        failure, text = run_oracle_history(d["seed"])
        print("page", repr(text)); print("failure", failure)
    return 1 if failure else 0
