"""C12 - sections partition the page and nest by heading level.

Proof: coq/props/C12.v (get_sections = declarative spec, for all pages and options, plus
the partition / extent / nesting / filter / order consequences).
Tie: correspondence of Wikicode.get_sections in /repo with the extracted model on
exhaustively enumerated and random pages x option combinations (view bounds compared
exactly), plus the property's own oracle evaluated on the implementation.
"""
import itertools
import random
import re

import vlib


def _options():
    opts = []
    for levels in (None, [], [2], [1, 3]):
        for mk in (0, 1, 2, 3, 4, 5):          # no matches / function / regex / regex matching only through the default flags / flags=0 x2
            for flat in (False, True):
                for lead in (None, False, True):
                    for ih in (True, False):
                        opts.append((levels, mk, flat, lead, ih))
    return opts


def _build_page(items):
    from mwparserfromhell.nodes import Heading, Tag, Text, Template
    from mwparserfromhell.nodes.extras import Parameter
    from mwparserfromhell.smart_list import SmartList
    from mwparserfromhell.wikicode import Wikicode
    nodes = []
    for k, (lvl, m) in enumerate(items):
        if lvl == 0:
            # non-heading nodes, half of them CONTAINING a heading (in a template parameter / a tag body): only the
            # page's own (top-level) headings delimit sections
            inner = Wikicode(SmartList([Text("\n"), Heading(Wikicode(SmartList([Text("a")])), 1 + k % 3), Text("\nz")]))
            if k % 4 == 1:
                nodes.append(Text("t%d " % k))
            elif k % 4 == 0:
                nodes.append(Template(Wikicode(SmartList([Text("x%d" % k)]))))
            elif k % 4 == 2:
                nodes.append(Template(Wikicode(SmartList([Text("box%d" % k)])),
                                      [Parameter(Wikicode(SmartList([Text("1")])), inner, showkey=False)]))
            else:
                nodes.append(Tag(Wikicode(SmartList([Text("div")])), inner))
        else:
            nodes.append(Heading(Wikicode(SmartList([Text("a" if m else "b")])), lvl))
    return Wikicode(SmartList(nodes))


def _items_of(code):
    from mwparserfromhell.nodes import Heading
    out = []
    for n in code.nodes:
        if isinstance(n, Heading):
            out.append((n.level, 1 if str(n.title) == "a" else 0))
        else:
            out.append((0, 0))
    return out


def _matches_arg(mk):
    """keyword arguments: matches (and flags when given)"""
    if mk == 0:
        return {"matches": None}
    if mk == 1:
        return {"matches": lambda title: str(title) == "a"}
    if mk == 2:
        return {"matches": r"^a$"}
    if mk == 3:
        return {"matches": r"^A$"}                 # the default flags ignore case
    if mk == 4:
        return {"matches": r"^A$", "flags": 0}     # an explicit 0 does not
    return {"matches": r"^a$", "flags": 0}


def _title_ok(mk, is_a):
    """does a heading titled 'a' (is_a) / 'b' pass the matches filter number mk"""
    return bool(is_a) and mk != 4


def _expected(nodes, levels, mk, flat, lead, ih):
    """The property, stated directly on the page (independent of the code's loop)."""
    from mwparserfromhell.nodes import Heading
    heads = [(i, n) for i, n in enumerate(nodes) if isinstance(n, Heading)]
    res = []
    want_lead = lead if lead is not None else not (mk or levels)
    if want_lead:
        res.append((0, heads[0][0] if heads else len(nodes)))
    for i, h in heads:
        if mk and not _title_ok(mk, str(h.title) == "a"):
            continue
        if levels and h.level not in levels:
            continue
        end = len(nodes)
        for j, h2 in heads:
            if j > i and (flat or h2.level <= h.level):
                end = j
                break
        res.append((i if ih else i + 1, end))
    return res


def _encode(items, opt):
    levels, mk, flat, lead, ih = opt
    lv = levels or []
    il = 0 if lead is None else (2 if lead else 1)
    flat_items = []
    for lvl, m in items:
        flat_items += [lvl, 1 if (lvl and _title_ok(mk, m)) else 0]
    return " ".join(map(str, [len(lv)] + lv + [1 if mk else 0, int(flat), il, int(ih), len(items)] + flat_items))


def _run_impl(code, opt):
    levels, mk, flat, lead, ih = opt
    # "an iterable of integers": lists, tuples, iterators and generators in turn
    lv = levels
    if levels is not None:
        kind = (len(code.nodes) + mk + int(flat)) % 4
        lv = [levels, tuple(levels), iter(levels), (x for x in levels)][kind]
    secs = code.get_sections(levels=lv, flat=flat, include_lead=lead, include_headings=ih, **_matches_arg(mk))
    views = []
    for s in secs:
        si = getattr(s.nodes, "_sliceinfo", None)
        if si is None:
            views.append(("list", len(s.nodes)))
        else:
            views.append((si[0], -1 if si[1] is None else si[1]))
    return secs, views


def _worker(pages):
    """pages: list of item lists (or ('text', wikitext)). Returns per-case records."""
    import mwparserfromhell
    opts = _options()
    out = []
    for pg in pages:
        if isinstance(pg, tuple) and pg and pg[0] == "text":
            code = mwparserfromhell.parse(pg[1])
            items = _items_of(code)
        else:
            items = pg
            code = _build_page(items)
        nodes = list(code.nodes)
        page_ids = [id(n) for n in nodes]
        for oi, opt in enumerate(opts):
            rec = {"items": items, "opt": oi, "line": _encode(items, opt), "fail": None}
            try:
                secs, views = _run_impl(code, opt)
            except Exception as e:  # the property says get_sections works for every combination
                rec["impl"] = "EXC " + type(e).__name__
                rec["fail"] = "get_sections raised %r" % (e,)
                out.append(rec)
                continue
            rec["impl"] = " ".join("%s %s" % v for v in views)
            # oracle: content of every section, by node identity
            exp = _expected(nodes, *opt)
            got = [[id(n) for n in s.nodes] for s in secs]
            want = [page_ids[a:b] for a, b in exp]
            if got != want:
                rec["fail"] = "sections differ from the property's definition: got spans %s want %s" % (rec["impl"], exp)
            levels, mk, flat, lead, ih = opt
            if flat and ih and not mk and not levels and lead in (None, True):
                if "".join(str(s) for s in secs) != str(code):
                    rec["fail"] = "flat sections do not concatenate to the page"
            out.append(rec)
    return out


def _pages(tier, seed):
    rng = random.Random(seed * 7919 + 12)
    syms = [(0, 0)] + [(l, m) for l in (1, 2, 3) for m in (1, 0)]
    maxlen = 3 if tier == "quick" else 5
    pages = []
    for n in range(maxlen + 1):
        pages += [list(t) for t in itertools.product(syms, repeat=n)]
    nrand = 1500 if tier == "quick" else 30000
    full = [(0, 0)] * 3 + [(l, m) for l in range(1, 7) for m in (1, 0)]
    for _ in range(nrand):
        n = rng.randint(4, 24 if tier == "quick" else 40)
        pages.append([rng.choice(full) for _ in range(n)])
    # parsed pages: headings come out of the real parser
    for _ in range(200 if tier == "quick" else 3000):
        parts = []
        for _k in range(rng.randint(1, 10)):
            c = rng.random()
            if c < 0.5:
                l = rng.randint(1, 6)
                parts.append("\n" + "=" * l + rng.choice("ab") + "=" * l + "\n")
            elif c < 0.7:
                parts.append("{{t|%d}}" % rng.randint(0, 9))
            elif c < 0.8:
                parts.append("text %d " % rng.randint(0, 9))
            elif c < 0.9:
                parts.append(rng.choice(["<div>\n==a==\nboxed\n</div>", "{{box|\n==b==\nin\n}}", "<ref>\n=a=\n</ref>"]))
            else:
                parts.append("<!--c-->")
        pages.append(("text", "".join(parts)))
    return pages


def _nontrivial(items):
    lv = {l for l, _m in items if l}
    return len(lv) >= 2


def run(tier, seed):
    c = vlib.Check("C12", tier, seed, "proof")
    vlib.pure_python_parser()
    c.prove("C12.v")
    pages = _pages(tier, seed)
    results = vlib.pmap(_worker, vlib.chunked(pages, 64))
    recs = [r for ch in results for r in ch]
    opts = _options()
    try:
        model_out = vlib.model_run("sections", [r["line"] for r in recs])
    except Exception as e:
        model_out = None
        c.broken.append({"file": "coq/extract/sections_run", "line": 0, "statement": "get_sections (extracted)", "error": str(e)})
    seen = set()
    disagreements = 0
    for k, r in enumerate(recs):
        c.cov["evaluations"] += 1
        key = r["line"]
        if _nontrivial(r["items"]) and key not in seen:
            seen.add(key)
        if r["fail"]:
            c.fail(r["fail"], {"items": r["items"], "options": repr(opts[r["opt"]]), "impl": r["impl"]})
        if model_out is not None:
            c.cov["traces_validated_against_impl"] += 1
            if model_out[k].strip() != r["impl"].strip():
                disagreements += 1
                if not r["fail"] and disagreements <= 5:
                    c.broken.append({"file": "correspondence get_sections", "line": 0,
                                     "statement": "C12_get_sections_spec (model tie)",
                                     "error": "model %r vs implementation %r on items=%r options=%r" % (
                                         model_out[k], r["impl"], r["items"], opts[r["opt"]])})
    c.cov["distinct_nontrivial"] = len(seen)
    c.notes["exhaustive_part"] = "all pages up to the stated length"
    c.cov["rule"] = ("pages: every sequence over {other, heading level 1-3 x title matches/doesn't} of length <= %d, "
                     "random sequences with levels 1-6 up to length %d, parsed random wikitext; each x 288 option combinations (matches: none, function, regex, a regex that matches only through the default IGNORECASE flag, and the same two with flags=0) "
                     "(levels in None/[]/[2]/[1,3], matches none/function/regex, flat, include_lead None/F/T, include_headings); "
                     "non-trivial = page has headings of >= 2 different levels; distinct by (page, options)"
                     % (3 if tier == "quick" else 5, 24 if tier == "quick" else 40))
    c.cov["samples"] = [{"items": r["items"], "options": repr(opts[r["opt"]]), "views": r["impl"]}
                        for r in recs[5000:5000 + 3 * 977:977]]
    c.notes["model_impl_disagreements"] = disagreements
    c.notes["pages"] = len(pages)
    c.assumptions += ["a page is abstracted to its top-level node list (heading level + matcher verdict per node)",
                      "sorted(sections) modelled as a stable sort on the start index (ties only between an empty lead and the section at index 0)"]
    return c.finish()


def replay(data):
    d = data["data"]
    items = [tuple(x) for x in d["items"]]
    opts = _options()
    opt = [o for o in opts if repr(o) == d["options"]][0]
    recs = _worker([items])
    for r in recs:
        if opts[r["opt"]] == opt:
            print("items", items, "options", opt, "impl", r["impl"], "fail", r["fail"])
            return 1 if r["fail"] else 0
    return 0
