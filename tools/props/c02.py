"""C02 - parsing is total: parse() returns a tree for every string, with either tokenizer.

Proved (coq/props/C02.v): the Builder half.  Validated: both tokenizers + Builder on table-driven
and generated inputs inside crash-isolating workers (an exception, a hang, or a killed interpreter
is a failure); memo-collision inputs (a failed inner route followed by a differently shaped push
at the same position).
"""
import random

import headfrag
import tokprops
import vlib


def run(tier, seed):
    c = vlib.Check("C02", tier, seed, "proof")
    c.prove("C02.v")
    tokprops.run_stream(c, tier, seed, ("total",),
                        "non-trivial = input contains markup characters or produced a non-Text token; distinct by (text, context, skip)",
                        builder_tie=True)
    _collisions(c, tier, seed)
    headfrag.run(c, tier, seed, ())
    headfrag.run_entities(c, tier, seed, ())
    headfrag.run_mixed(c, tier, seed, ())
    c.assumptions += ["tokenizer totality is validated by testing, not proved (PARTIAL, see DESIGN.md C02)"]
    return c.finish()


OPEN = ["<r ", "<b a=\"", "<b a='", "{|", "{{", "{{{", "[[", "[http://x ", "''", "'''", "<!--", "==", "\n{|\n|", "<li>", "&#", "{| a=\"", "<b \"", "<a b=c\\"]
MID = ["\n", "<", "\\", "==", "\"", "'", "|", "||", "!!", "=", " ", "x", "{{", "}}", "\n|-", "\n|", "\n!", "]]", ">", "/>", "</b>", "http://", "[[", "--"]


def _work(items):
    import tokharness
    tokharness.setup()
    out = []
    for text, ctx, skip in items:
        r = tokharness.analyse(text, ctx, skip)
        out.append((r["fail"].get("total", []), r["stats"].get("nontext", 0)))
    return out


def _collisions(c, tier, seed):
    rng = random.Random(seed + 202)
    n = 30000 if tier == "quick" else 1500000
    items = []
    for _ in range(n):
        parts = [rng.choice(OPEN)]
        for _k in range(rng.randint(1, 7)):
            parts.append(rng.choice(MID if rng.random() < 0.7 else OPEN))
        items.append(("".join(parts), 0, rng.random() < 0.2))
    res = vlib.robust_map(_work, items, chunk=500, timeout=240)
    for (text, ctx, skip), r in zip(items, res):
        c.cov["evaluations"] += 1
        if isinstance(r, tuple) and r and r[0] in ("CRASH", "TIMEOUT", "PYEXC"):
            c.fail("parsing %s: %s" % (r[0], r[1]), {"text": text, "context": ctx, "skip_style_tags": skip, "outcome": r[0]})
            continue
        for msg in r[0]:
            c.fail("total: " + msg, {"text": text, "context": ctx, "skip_style_tags": skip, "kind": "total", "tokenizer": msg.split(" ")[0]})
    c.notes["memo_collision_inputs"] = n


def replay(data):
    return tokprops.replay_text(data, ("total",))
