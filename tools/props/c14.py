"""C14 - parsed trees are in canonical form (no empty Text, no adjacent Text nodes), both tokenizers.

Proved (coq/props/C14.v): canonical token stream => canonical tree, everywhere in the tree.
Validated: both tokenizers' streams and every node list of every parsed tree on the shared input stream.
"""
import headfrag
import tokprops
import vlib


def run(tier, seed):
    c = vlib.Check("C14", tier, seed, "proof")
    c.prove("C14.v")
    tokprops.run_stream(c, tier, seed, ("canon",),
                        "non-trivial = input contains markup characters or produced a non-Text token; distinct by (text, context, skip)",
                        builder_tie=True)
    headfrag.run(c, tier, seed, ("canon",))
    headfrag.run_entities(c, tier, seed, ("canon",))
    headfrag.run_mixed(c, tier, seed, ("canon",))
    c.assumptions += ["that the tokenizers emit canonical streams is validated by testing, not proved (PARTIAL, see DESIGN.md C14)"]
    return c.finish()


def replay(data):
    return tokprops.replay_text(data, ("canon",))
