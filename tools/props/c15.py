"""C15 - strip_code is total and never invents text.

Proof: coq/props/C15.v.  Tie: real token streams are fed to the extracted model (Builder + strip_code
for all 8 option combinations) and compared with Wikicode.strip_code.  Oracle: no exception for any
option combination; with normalize off and parameters not kept the result is a subsequence of the
source; with normalize on it is a subsequence of the source with every recognised entity replaced by
its character; all 252 named entities and the numeric boundaries normalise.
"""
import re

import html.entities

import treeprops
import vlib


ENTITY_NAMES = set(html.entities.entitydefs)
HEXDIGITS = re.compile(r"[0-9a-fA-F]+\Z")
DECDIGITS = re.compile(r"[0-9]+\Z")


def is_subseq(a, b):
    it = iter(b)
    return all(ch in it for ch in a)


def _norm_source(code):
    """source text with every entity node replaced by the character it denotes"""
    from mwparserfromhell.nodes import HTMLEntity
    out = []

    def walk(c):
        for n in c.nodes:
            if isinstance(n, HTMLEntity):
                out.append(("E", n))
            else:
                out.append(("N", n))
    s = str(code)
    for ent in sorted({str(n) for n in code.filter_html_entities()}, key=len, reverse=True):
        pass
    return s


def _work(seeds):
    out = []
    for s in seeds:
        text, enc, code = treeprops.parse_case(s)
        fail = None
        src = text              # the text that was parsed (equal to str(code) as long as parsing is lossless, C01)
        ents = code.filter_html_entities()
        try:
            for o, kw in enumerate(treeprops.OPTS):
                r = code.strip_code(**kw)
                if not isinstance(r, str):
                    fail = "strip_code%r returned %r" % (kw, type(r))
                if not kw["keep_template_params"]:
                    if not kw["normalize"]:
                        if not is_subseq(r, src):
                            fail = "strip_code%r adds or reorders characters: %r" % (kw, r[:80])
                    else:
                        # replace entity spellings by their characters, longest spelling first
                        s2 = src
                        for e in sorted({str(e): e for e in ents}.values(), key=lambda e: -len(str(e))):
                            s2 = s2.replace(str(e), e.normalize())
                        if not is_subseq(r, s2):
                            fail = "strip_code%r is not a subsequence of the entity-normalised source: %r" % (kw, r[:80])
            for e in ents:
                ch = e.normalize()
                if not (isinstance(ch, str) and len(ch) == 1):
                    fail = "entity %s normalises to %r" % (e, ch)
                # what counts as an entity, stated independently of the tokenizers and of normalize(): a name of
                # html.entities, or ASCII decimal / hexadecimal digits denoting 1..0x10FFFF; anything else must stay text
                v = str(e.value)
                if e.named:
                    good = v in ENTITY_NAMES
                elif e.hexadecimal:
                    good = bool(HEXDIGITS.match(v)) and 1 <= int(v.lstrip("0") or "0", 16) <= 0x10FFFF
                else:
                    good = bool(DECDIGITS.match(v)) and len(v.lstrip("0")) <= 8 and 1 <= int(v.lstrip("0") or "0") <= 0x10FFFF
                if not good:
                    fail = "%r was recognised as an entity although it is not a valid one (it must stay text)" % str(e)
                else:
                    # ... and the character it denotes, by the same independent definition (the HTML 4 table the tokenizers validate against)
                    want = chr(html.entities.name2codepoint[v]) if e.named else chr(int(v.lstrip("0") or "0", 16 if e.hexadecimal else 10))
                    if ch != want:
                        fail = "entity %s normalises to %r (U+%04X); it denotes %r (U+%04X)" % (e, ch, ord(ch[:1] or "\0"), want, ord(want))
        except Exception as ex:  # noqa: BLE001
            fail = "strip_code / normalize raised %r" % (ex,)
        out.append((text, enc, treeprops.impl_record(code) if fail is None else "failed", fail, len(ents), len(code.filter()) > len(code.nodes)))
    return out


def run(tier, seed):
    c = vlib.Check("C15", tier, seed, "proof")
    c.prove("C15.v")
    treeprops.tokharness.setup()
    n = 15000 if tier == "quick" else 500000
    seeds = [seed * 11000027 + i for i in range(n)]
    res = vlib.robust_map(_work, seeds, chunk=300, timeout=240)
    good = [(s, r) for s, r in zip(seeds, res) if not (isinstance(r, tuple) and r and r[0] in ("CRASH", "TIMEOUT", "PYEXC"))]
    for s, r in zip(seeds, res):
        if isinstance(r, tuple) and r and r[0] in ("CRASH", "TIMEOUT", "PYEXC"):
            c.fail("case %s: %s" % (r[0], str(r[1])[:300]), {"seed": s, "outcome": r[0]})
    try:
        model = vlib.model_run("nodeops", [r[1] for _s, r in good if r[1] is not None])
    except Exception as e:  # noqa: BLE001
        model = None
        c.broken.append({"file": "coq/extract/nodeops_run", "line": 0, "statement": "strip_code (extracted)", "error": str(e)})
    k = 0
    dis = 0
    nontrivial = set()
    for s, (text, enc, rec, fail, nents, nested) in good:
        c.cov["evaluations"] += 1
        if nents or nested:
            nontrivial.add(text)
        if fail:
            c.fail(fail, {"seed": s, "text": text})
        if enc is not None and model is not None:
            m = model[k]
            k += 1
            c.cov["traces_validated_against_impl"] += 1
            ms = " | ".join(p for p in m.split(" | ") if not p.startswith("D="))
            rs = " | ".join(p for p in rec.split(" | ") if not p.startswith("D="))
            if not fail and ms.strip() != rs.strip():
                dis += 1
                if dis <= 3:
                    c.broken.append({"file": "correspondence strip_code", "line": 0, "statement": "strip_code (model tie)",
                                     "error": "text %r: model %r vs implementation %r" % (text, ms[:300], rs[:300])})
    c.cov["distinct_nontrivial"] = len(nontrivial)
    c.cov["rule"] = ("documents: grammar documents (depth 1-4), mutated documents, entity-heavy strings (named, decimal, hex at the range "
                     "boundaries), noise; one document with all 252 named entities; parsed by the Python (70%) or C (30%) tokenizer; strip_code "
                     "for the 8 combinations of normalize x collapse x keep_template_params; non-trivial = the tree has an entity or a nested "
                     "construct; distinct by text")
    c.cov["samples"] = [r[0] for _s, r in good[:3]]
    c.notes["model_impl_disagreements"] = dis
    c.assumptions += ["the normalize=True clause is validated by the oracle, not proved",
                      "int() of entity values is modelled for ASCII digits only (what the tokenizers accept)",
                      "is_visible() uses ASCII lower-casing in the model"]
    return c.finish()


def replay(data):
    r = _work([data["data"]["seed"]])[0]
    print(r[0], r[3])
    return 1 if r[3] else 0
