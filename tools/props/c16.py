"""C16 - nodes and Wikicode behave exactly like their string rendering.

Proof: coq/props/C16.v over a model of attribute lookup and tables regenerated from the running
CPython and /repo (coq/gen/MixinGen.v).  Tie: for every class x every name of dir(str) (+ names str
lacks) the model's lookup outcome is compared with what Python's real lookup does on a live object
(class / mixin / object / __getattr__-delegated / AttributeError).  Oracle: every delegated name is
called with a catalogue of argument tuples on x and on str(x); the explicit magic methods are
exercised with operator syntax; results or exception types must agree.
"""
import random
import re

import vlib
import wikigen

OBJECT_DESCRIBING = {"__class__", "__delattr__", "__dir__", "__getattribute__", "__getstate__", "__init__",
                     "__init_subclass__", "__new__", "__reduce__", "__reduce_ex__", "__setattr__", "__sizeof__",
                     "__subclasshook__"}
EXTRA_NAMES = ["frobnicate", "_nodes_", "decode", "__setstate__", "has_key", "__unicode__"]

ARGS = [(), ("a",), ("",), (" ",), ("a", "b"), ("a", 1), (1,), (0,), (-1,), (2, 5), (None,), (None, 1), (("a", "b"),),
        ("{", "}"), (10,), (10, "*"), (["x", "y"],), ("utf-8",), ("ascii", "replace"), ({97: "z"},), (3,), ("=",),
        (True,), ("a", 0, 3), ("|", 1)]


# the names of dir(str) a class defines on purpose (coq/Mixin.v: redefinable_by_all / redefinable)
ALLOWED_ALL = {"__doc__", "__init__", "__str__", "__module__"}
ALLOWED = {"Wikicode": {"index", "replace"}, "ExternalLink": {"title"}, "Heading": {"title"}, "Wikilink": {"title"}, "Template": {"__getitem__"}}


def outcome(fn):
    try:
        r = fn()
        if hasattr(r, "__next__"):
            r = ("iter", list(r))
        return ("ok", r)
    except Exception as e:      # noqa: BLE001 - the property compares exception types
        return ("exc", type(e).__name__)


def build_objects(rng):
    import mwparserfromhell
    from mwparserfromhell.nodes.extras import Attribute, Parameter
    objs = []
    docs = ["{{t|a|k=v}}text&amp;[[l|t]]<b a=\"1\" c>x</b>==h==\n<!--c-->{{{a|b}}}[http://x y] ''i''",
            "", "x", "  padded  ", "{{a}}", "5", "None", "3.5", "[1, 2]", "{{foo|5}}", "True", "()", "b'x'",
            "caf\udce9 {{foo|bar\udcff}}", "\udc80", "x\ud800y", "na\u00efve {{Dvo\u0159\u00e1k|\u65e5\u672c}}"]
    for _ in range(3):
        docs.append(wikigen.gen_doc(rng, depth=3))
    for d in docs:
        code = mwparserfromhell.parse(d)
        objs.append(code)
        for n in code.filter():
            objs.append(n)
            for v in vars(n).values():
                if isinstance(v, list):
                    objs += [a for a in v if isinstance(a, (Attribute, Parameter))]
    seen = {}
    for o in objs:
        seen.setdefault((type(o).__name__, str(o)), o)
    out = list(seen.values())
    # objects that edits have emptied: they still own nodes, but render as the empty string
    e1 = mwparserfromhell.parse("abc")
    e1.nodes[0].value = ""
    e2 = mwparserfromhell.parse("{{foo|bar=   }}")
    val = e2.nodes[0].params[0].value
    for t in val.filter_text():
        t.value = t.value.strip()
    e3 = mwparserfromhell.parse("<b></b>").nodes[0].contents
    return [e1, e1.nodes[0], val, e2.nodes[0].params[0], e3] + out


def real_lookup(x, name, mixin):
    """what Python does for getattr(x, name)"""
    calls = []
    orig = mixin.__getattr__

    def spy(self, attr):
        calls.append(attr)
        return orig(self, attr)
    mixin.__getattr__ = spy
    try:
        try:
            getattr(x, name)
        except AttributeError:
            return "AttrError"
        except Exception:
            pass
    finally:
        mixin.__getattr__ = orig
    if calls:
        return "Delegated"
    for c in type(x).__mro__:
        if name in vars(c):
            if c is object:
                return "FoundObject"
            if c is mixin:
                return "FoundMixin"
            return "FoundClass"
    return "FoundClass" if name in vars(x) else "?"


def run(tier, seed):
    import mwparserfromhell
    from mwparserfromhell.string_mixin import StringMixIn
    c = vlib.Check("C16", tier, seed, "proof")
    vlib.pure_python_parser()
    c.prove("C16.v")
    rng = random.Random(seed * 31 + 16)
    objs = build_objects(rng)
    classes = sorted({type(o).__name__ for o in objs})
    rep = {}
    for o in objs:
        rep.setdefault(type(o).__name__, o)
    names = sorted(dir(str)) + EXTRA_NAMES
    # ---------------- tie: model lookup vs real lookup
    cases = [(cn, n) for cn in classes for n in names]
    text = ["From Coq Require Import String List.", "From MW Require Import Mixin.", "From MW.gen Require Import MixinGen.",
            "Import ListNotations.", "Local Open Scope string_scope.",
            "Definition cd c := match find (fun p => String.eqb (fst p) c) class_table with Some p => snd p | None => [] end.",
            "Definition cases : list (string * string) := [" + "; ".join('("%s", "%s")' % cn for cn in cases) + "].",
            "Eval vm_compute in map (fun p => lookup (cd (fst p)) mixin_defined object_dir str_dir (snd p)) cases."]
    rc, out = vlib.coq_eval("c16cases", "\n".join(text))
    model = re.findall(r"\b(FoundClass|FoundMixin|FoundObject|Delegated|AttrError)\b", out.split("=", 1)[-1]) if rc == 0 else []
    if rc != 0 or len(model) != len(cases):
        c.broken.append({"file": "cases c16", "line": 0, "statement": "lookup (model evaluation)", "error": out[-400:]})
    else:
        dis = 0
        for (cn, n), m in zip(cases, model):
            real = real_lookup(rep[cn], n, StringMixIn)
            c.cov["traces_validated_against_impl"] += 1
            if real != m:
                dis += 1
                if dis <= 5:
                    c.broken.append({"file": "correspondence attribute lookup", "line": 0, "statement": "lookup (model tie)",
                                     "error": "%s.%s: model %s vs Python %s" % (cn, n, m, real)})
        c.notes["model_impl_disagreements"] = dis
    # ---------------- oracle: behaviour equals str's
    nontrivial = set()
    per_class_redefined = {}
    if tier == "thorough":
        chosen = objs
    else:
        # the first objects of every kind of text: ASCII, non-ASCII, lone surrogates, digits-only ... (not just the first 60 objects)
        special = [o for o in objs if any(ord(ch) > 127 for ch in str(o)) or str(o).strip().isdigit() or not str(o)]
        rest = [o for o in objs if not any(o is sp for sp in special)]
        chosen = special[:36] + rest[:48]
    for x in chosen:
        s = str(x)
        cn = type(x).__name__
        for name in names:
            kind = real_lookup(x, name, StringMixIn)
            if kind == "FoundClass":
                if name in ALLOWED_ALL or name in ALLOWED.get(cn, ()):
                    per_class_redefined.setdefault(cn, set()).add(name)
                    continue
                # a name of dir(str) that the class has taken over without being on the documented list: it still has to
                # behave like str's (the property excludes only what the class redefines on purpose)
                kind = "Delegated"
            if kind == "AttrError":
                if hasattr(str, name):
                    c.fail("str attribute %r raises AttributeError on %s" % (name, cn), {"class": cn, "text": s, "name": name})
                continue
            if kind == "FoundObject":
                if name in dir(str) and name not in OBJECT_DESCRIBING:
                    c.fail("str behaviour %r is taken from object, not from the text, on %s" % (name, cn), {"class": cn, "text": s, "name": name})
                continue
            if kind == "Delegated":
                if not hasattr(str, name):
                    c.fail("non-str attribute %r does not raise AttributeError" % name, {"class": cn, "text": s, "name": name})
                    continue
                fx, fs = getattr(x, name), getattr(s, name)
                if not callable(fs):
                    c.cov["evaluations"] += 1
                    if fx != fs:
                        c.fail("attribute %r differs" % name, {"class": cn, "text": s, "name": name})
                    continue
                for a in ARGS:
                    ox, os_ = outcome(lambda: fx(*a)), outcome(lambda: fs(*a))
                    c.cov["evaluations"] += 1
                    if os_[0] == "ok":
                        nontrivial.add((cn, name, repr(a)))
                    if ox != os_:
                        c.fail("%s%r on %s gives %r, on its text %r" % (name, a, cn, ox, os_), {"class": cn, "text": s, "name": name, "args": repr(a)})
        # explicit magic methods, operator syntax
        others = ["", "a", s, s + "x", s[:-1], "{{", "zz", s.upper()]
        ops = [("<", lambda a, b: a < b), ("<=", lambda a, b: a <= b), ("==", lambda a, b: a == b), ("!=", lambda a, b: a != b),
               (">", lambda a, b: a > b), (">=", lambda a, b: a >= b)]
        for o in others:
            for nm, f in ops:
                c.cov["evaluations"] += 1
                nontrivial.add((cn, nm, o == s))
                if outcome(lambda: f(x, o)) != outcome(lambda: f(s, o)):
                    c.fail("comparison %s with %r differs from str" % (nm, o), {"class": cn, "text": s, "other": o})
            if outcome(lambda: o in x) != outcome(lambda: o in s):
                c.fail("containment of %r differs from str" % o, {"class": cn, "text": s, "other": o})
        # operands that are not strings (some of them print like the text): == / != must answer what str answers, in
        # both operand orders; ordering must raise what str raises
        import ast as _ast
        lit = None
        try:
            lit = _ast.literal_eval(s)
        except Exception:  # noqa: BLE001
            pass
        # nodes of ANOTHER class (and a Wikicode) that render the same text: equal, as their texts are
        from mwparserfromhell.nodes import Text as _Text, Template as _Tpl
        twins = [_Text(s), mwparserfromhell.parse(s, skip_style_tags=True), _Tpl(mwparserfromhell.parse("q"))]
        for o in twins:
            if type(o) is type(x):
                continue
            for nm, f in ops:
                c.cov["evaluations"] += 1
                if outcome(lambda: f(x, o)) != outcome(lambda: f(s, str(o))) or outcome(lambda: f(o, x)) != outcome(lambda: f(str(o), s)):
                    c.fail("comparison %s of a %s with a %s that renders %r differs from comparing the texts" % (nm, cn, type(o).__name__, str(o)[:40]),
                           {"class": cn, "text": s, "other": "%s(%r)" % (type(o).__name__, str(o))})
        for o in [5, None, 3.5, b"x", [1, 2], (), 0, True, lit]:
            if isinstance(o, str):
                continue
            for nm, f in ops:
                c.cov["evaluations"] += 2
                if outcome(lambda: f(x, o)) != outcome(lambda: f(s, o)) or (nm in ("==", "!=") and outcome(lambda: f(o, x)) != outcome(lambda: f(o, s))):
                    c.fail("comparison %s with the non-string %r differs from str" % (nm, o), {"class": cn, "text": s, "other": repr(o)})
        unary = [("len", len), ("bool", bool), ("repr", repr), ("bytes", lambda v: bytes(v) if not isinstance(v, str) else bytes(v, __import__("sys").getdefaultencoding())), ("iter", lambda v: list(iter(v))),
                 ("reversed", lambda v: list(reversed(v))), ("format>8", lambda v: format(v, ">8")), ("format", lambda v: format(v, "")),
                 ("fstring", lambda v: "{:^7}|{!r}".format(v, v)), ("hash-eq", lambda v: v == v)]
        if "__getitem__" not in per_class_redefined.get(cn, ()):
            unary += [("[0]", lambda v: v[0]), ("[-1]", lambda v: v[-1]), ("[1:3]", lambda v: v[1:3]), ("[::-1]", lambda v: v[::-1]), ("[99]", lambda v: v[99]), ("[-99]", lambda v: v[-99]),
                      ("[-len-1]", lambda v: v[-len(str(v)) - 1]), ("[-2len]", lambda v: v[-2 * len(str(v))]), ("[-len]", lambda v: v[-len(str(v))]),
                      ("[len]", lambda v: v[len(str(v))]), ("[-3:99]", lambda v: v[-3:99]), ("[::2]", lambda v: v[::2]), ("[None:None]", lambda v: v[None:None]),
                      ("['a']", lambda v: v["a"]), ("[1.0]", lambda v: v[1.0]), ("[True]", lambda v: v[True])]
        for nm, f in unary:
            c.cov["evaluations"] += 1
            nontrivial.add((cn, nm))
            if outcome(lambda: f(x)) != outcome(lambda: f(s)):
                c.fail("%s differs from str: %r vs %r" % (nm, outcome(lambda: f(x)), outcome(lambda: f(s))), {"class": cn, "text": s, "op": nm})
    # ---- histories: the same delegated call before and after the object is changed (nothing may remember the old text)
    import mwparserfromhell as _M
    calls = [("upper", ()), ("split", ()), ("count", ("a",)), ("find", ("new",)), ("startswith", ("{{",)), ("__add__", ("z",)), ("strip", ()),
             ("replace", ("a", "b")), ("__len__", ()), ("encode", ()), ("title", ()), ("__mul__", (2,)), ("splitlines", ()), ("isalpha", ()), ("zfill", (40,))]
    for doc in ["{{Foo|a=1}} and text", "plain", "[[a|b]] ''c''", "<b x=1>y</b>"]:
        for name, args in calls:
            code = _M.parse(doc)
            targets = [t for t in [code] + list(code.filter(recursive=False))[:2] if real_lookup(t, name, StringMixIn) in ("Delegated", "FoundMixin")]
            before = [outcome(lambda t=t: getattr(t, name)(*args)) for t in targets]
            code.append(" plus {{new|a}}")
            for t in code.filter_templates()[:1]:
                t.add("k", "v")
                t.name = "Renamed"
            for t in code.filter_text()[:1]:
                t.value = str(t.value) + "!"
            for t, _b in zip(targets, before):
                c.cov["evaluations"] += 1
                got, want = outcome(lambda: getattr(t, name)(*args)), outcome(lambda: getattr(str(t), name)(*args))
                if got != want:
                    c.fail("%s%r on a %s that was changed after an earlier call: %r, on its text %r" % (name, args, type(t).__name__, got, want),
                           {"class": type(t).__name__, "text": doc, "name": name, "history": "call, edit, call"})
    c.cov["distinct_nontrivial"] = len(nontrivial)
    c.cov["rule"] = ("objects: every node / Wikicode / Attribute / Parameter of fixed and generated documents (distinct by class+text); "
                     "names: all of dir(str) + names str lacks; each delegated callable is applied to 25 argument tuples on the object and on "
                     "its text; explicit magic methods via operator syntax (comparisons with 8 operands, in, len, bool, repr, bytes, iter, "
                     "reversed, format, indexing/slicing unless the class redefines __getitem__); non-trivial = (class, name, args) accepted by "
                     "str without an exception, or an operator case")
    c.cov["samples"] = [{"class": type(o).__name__, "text": str(o)[:60]} for o in objs[:5]]
    c.notes["classes"] = classes
    c.notes["names_redefined_by_class_on_purpose"] = {k: sorted(v) for k, v in per_class_redefined.items()}
    c.assumptions += ["Python attribute lookup modelled as: class MRO dicts, then StringMixIn, then object, then __getattr__",
                      "operators not listed in the property (+, *, %) go through type slots and are outside the claim",
                      "13 object-describing names of dir(str) found on object are outside the claim (listed in coq/Mixin.v)"]
    return c.finish()


def replay(data):
    import mwparserfromhell
    d = data["data"]
    print(d)
    return 1
