"""C20 - name matching is a normalising equivalence.

Proof: coq/props/C20.v (for any isspace/upper; instance = tables generated from the running CPython).
Tie: Wikicode.matches in /repo vs the extracted model fed with the implementation's own
strip_code() output (the model is "over the strip_code()'d strings"); the property's oracle
(reflexive, symmetric, str/node/Wikicode agreement, the four insensitivities, markup removal,
iterables) is evaluated on the implementation.
"""
import random

import vlib

ALPHA = [" ", " ", "_", "_", "\n", "\t", "a", "A", "b", "B", "x", "ß", "ǆ", "ǅ", "ﬁ", "é", "É",
         "İ", "ı", "σ", "ς", " ", " ", "\u0085", "​", "1", ".", "\U0001d41a", "\U00010428"]
MARKUP = ["<!--c-->", "{{t}}", "{{t|x}}", "''%s''", "'''%s'''", "<b>%s</b>", "&amp;", "&#32;", "&nbsp;", "[[%s]]", "<ref>r</ref>", "<nowiki>%s</nowiki>"]


def rand_name(rng, n=None):
    n = rng.randint(0, 7) if n is None else n
    return "".join(rng.choice(ALPHA) for _ in range(n))


def with_markup(rng, s):
    m = rng.choice(MARKUP)
    pos = rng.randint(0, len(s))
    if "%s" in m:
        j = rng.randint(pos, len(s))
        inner = s[pos:j]
        if m.startswith("[[") and (not inner.strip() or "\n" in inner):
            return s
        if m.startswith("'") and ("'" in inner or not inner or inner != inner.strip() or "\n" in inner):
            return s
        return s[:pos] + (m % inner) + s[j:]
    return s[:pos] + m + s[pos:]


def ref_clean(s):
    s = s.replace("_", " ").strip()
    return (s[0].upper() + s[1:]) if s else s


def _bytes_differs(ca, b, res):
    """parse_anything takes bytes (UTF-8): matches(b'name') is matches('name'), also inside an iterable"""
    try:
        bb = b.encode("utf8")
    except UnicodeEncodeError:
        return False
    return ca.matches(bb) != res or ca.matches([bb]) != res or ca.matches((x for x in [bb])) != res


def _worker(seeds):
    import mwparserfromhell
    from mwparserfromhell.nodes import Text
    parse = mwparserfromhell.parse
    out = []
    for seed in seeds:
        rng = random.Random(seed)
        a = rand_name(rng)
        kind = rng.random()
        if kind < 0.35:
            b = rand_name(rng)
        elif kind < 0.7:   # a relative of a
            b = a
            for _ in range(rng.randint(1, 3)):
                c = rng.random()
                if c < 0.25:
                    b = rng.choice([" ", "\n", "_", " ", ""]) + b + rng.choice([" ", "\t", "_", ""])
                elif c < 0.5:
                    b = b.replace(" ", "_") if rng.random() < 0.5 else b.replace("_", " ")
                elif c < 0.75 and b:
                    b = (b[0].swapcase() if rng.random() < 0.7 else b[0].upper()) + b[1:]
                elif b:
                    i = rng.randrange(len(b))
                    b = b[:i] + rng.choice(ALPHA) + b[i + 1:]
        else:
            b = a[:-1] + rng.choice(ALPHA) if a else rand_name(rng, 2)
        fail = None
        plain = True
        if rng.random() < 0.3:
            # markup in the names themselves: matching is defined on the strip_code()'d text (entities become
            # their characters, comments / templates / tags disappear)
            a2, b2 = (with_markup(rng, a) if rng.random() < 0.7 else a), (with_markup(rng, b) if rng.random() < 0.7 else b)
            plain = (a2, b2) == (a, b)
            a, b = a2, b2
        try:
            ca, cb = parse(a), parse(b)
            res = ca.matches(b)
            sa, sb = ca.strip_code(), cb.strip_code()
            # ---- oracle
            if not ca.matches(a) or not ca.matches(ca):
                fail = "not reflexive"
            elif res != cb.matches(a):
                fail = "not symmetric"
            elif res != ca.matches(cb) or (len(cb.nodes) == 1 and res != ca.matches(cb.nodes[0])):
                fail = "string / Wikicode / node arguments disagree"
            elif _bytes_differs(ca, b, res):
                fail = "a bytes argument %r gives another answer than the same name as str, or than a list holding it" % (b.encode("utf8", "surrogatepass"),)
            elif res != (ref_clean(sa) == ref_clean(sb)):
                fail = "result %r differs from the normal-form comparison of %r and %r" % (res, sa, sb)
            elif plain:
                ws1, ws2 = rng.choice(["", " ", "\n ", "\t", "_"]), rng.choice(["", " ", " \n", "_ "])
                if ca.matches(ws1 + b + ws2) != res and not (b == "" ):
                    fail = "sensitive to surrounding whitespace %r %r" % (ws1, ws2)
                elif ca.matches(b.replace(" ", "_")) != res or ca.matches(b.replace("_", " ")) != res:
                    fail = "sensitive to underscores versus spaces"
                elif b.strip(" _\n\t  \u0085") and len(b.strip(" _\n\t  \u0085")[0].upper()) == 1:
                    core = b.replace("_", " ").strip()
                    b2 = core[0].upper() + core[1:]
                    if ca.matches(b2) != res:
                        fail = "sensitive to the case of the first character"
            if fail is None and plain:
                bm = with_markup(rng, b)
                if bm != b and parse(bm).strip_code() == sb and ca.matches(bm) != res:
                    fail = "sensitive to markup that strip_code removes: %r" % bm
                others = [rand_name(rng) for _ in range(rng.randint(0, 3))]
                lst = others[:]
                lst.insert(rng.randint(0, len(lst)), b)
                want = any(ca.matches(x) for x in lst)
                if ca.matches(lst) != want or ca.matches(tuple(others)) != any(ca.matches(x) for x in others):
                    fail = "iterable result differs from 'some element matches'"
                else:
                    for kind, it in (("set", set(lst)), ("frozenset", frozenset(lst)), ("iterator", iter(lst)), ("generator", (x for x in lst)),
                                     ("dict keys", dict.fromkeys(lst).keys()), ("dict", dict.fromkeys(lst))):
                        if ca.matches(it) != want:
                            fail = "a %s of names gives %r, 'some element matches' is %r: %r" % (kind, not want, want, lst)
                            break
        except Exception as e:
            res, sa, sb = None, a, b
            fail = "exception %r" % (e,)
        line = " ".join(map(str, [len(sa)] + [ord(c) for c in sa] + [len(sb)] + [ord(c) for c in sb]))
        out.append((a, b, res, line, fail))
    return out


def run(tier, seed):
    c = vlib.Check("C20", tier, seed, "proof")
    vlib.pure_python_parser()
    c.prove("C20.v")
    n = 30000 if tier == "quick" else 1500000
    seeds = [seed * 2000003 + i for i in range(n)]
    results = [r for ch in vlib.pmap(_worker, vlib.chunked(seeds, 64)) for r in ch]
    try:
        model = vlib.model_run("matches", [r[3] for r in results])
    except Exception as e:
        model = None
        c.broken.append({"file": "coq/extract/matches_run", "line": 0, "statement": "matches (extracted)", "error": str(e)})
    nontrivial = set()
    dis = 0
    for k, (a, b, res, line, fail) in enumerate(results):
        c.cov["evaluations"] += 1
        if a != b:
            nontrivial.add((a, b))
        if fail:
            c.fail(fail, {"a": a, "b": b})
        if model is not None and res is not None:
            c.cov["traces_validated_against_impl"] += 1
            if model[k].split(" ")[0] != ("1" if res else "0"):
                dis += 1
                if dis <= 3 and not fail:
                    c.broken.append({"file": "correspondence matches", "line": 0, "statement": "matches (model tie)",
                                     "error": "a=%r b=%r: model %r vs implementation %r" % (a, b, model[k], res)})
    c.cov["distinct_nontrivial"] = len(nontrivial)
    c.cov["rule"] = ("pairs of names over an alphabet with spaces, underscores, newlines, NBSP/EM SPACE/NEL, ZWSP, ASCII and non-ASCII "
                     "letters incl. characters whose upper-casing changes length (sharp s, fi ligature, dz digraph), dotted/dotless i, "
                     "final sigma, astral letters; second name random, a perturbed relative of the first (whitespace, underscores, first-letter "
                     "case, one changed character) or a near miss; plus markup variants and iterables; non-trivial = the two names differ as strings")
    c.cov["samples"] = [{"a": r[0], "b": r[1], "matches": r[2]} for r in results[:6]]
    c.notes["model_impl_disagreements"] = dis
    c.assumptions += ["strip_code() is abstract: the model receives the implementation's strip_code() output",
                      "str.isspace / str.upper tables are dumped from the running CPython (coq/gen/UnicodeTables.v)"]
    return c.finish()


def replay(data):
    r = _worker_one(data["data"]["a"], data["data"]["b"])
    print(r)
    return 1 if r else 0


def _worker_one(a, b):
    import mwparserfromhell
    ca, cb = mwparserfromhell.parse(a), mwparserfromhell.parse(b)
    res = ca.matches(b)
    exp = ref_clean(ca.strip_code()) == ref_clean(cb.strip_code())
    if res != exp or res != cb.matches(a) or not ca.matches(a):
        return "matches(%r,%r)=%r, normal forms equal=%r, reverse=%r" % (a, b, res, exp, cb.matches(a))
    return None
