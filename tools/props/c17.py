"""C17 - pickling and copying a tree preserves it and detaches it.

Proof: coq/props/C17.v (copy keeps views valid and equal in content; frame theorem = independence;
protocol methods pinned to the modelled shape via coq/gen/PickleGen.v regenerated from /repo).
Tie: (page, section views) are pickled together with every protocol and the RESTORED objects
are driven through the same edit histories as in C11 against the extracted model, which shows
the restored views are live, registered views; the oracle checks text/structure equality, the
identity of the registered slice-info object, and that original and copy share no mutable
object and never influence each other (pickle and copy.deepcopy).
"""
import copy
import pickle
import random

import vlib
import wikigen
from props import c11

PROTOS = list(range(0, pickle.HIGHEST_PROTOCOL + 1))


def structure(obj):
    """nested tuple describing kinds, attributes and texts (no identities)"""
    from mwparserfromhell.wikicode import Wikicode
    from mwparserfromhell.nodes import Node
    from mwparserfromhell.nodes.extras import Attribute, Parameter
    if isinstance(obj, Wikicode):
        return ("W",) + tuple(structure(n) for n in obj.nodes)
    if isinstance(obj, (Node, Attribute, Parameter)):
        d = {}
        for k, v in sorted(vars(obj).items()):
            d[k] = structure(v)
        return (type(obj).__name__, tuple(sorted(d.items())))
    if isinstance(obj, (list, tuple)):
        return tuple(structure(x) for x in obj)
    return repr(obj)


def mutable_ids(obj, acc=None):
    """ids of every mutable object reachable from obj"""
    from mwparserfromhell.wikicode import Wikicode
    from mwparserfromhell.nodes import Node
    from mwparserfromhell.nodes.extras import Attribute, Parameter
    from mwparserfromhell.smart_list.list_proxy import ListProxy
    acc = {} if acc is None else acc
    if id(obj) in acc:
        return acc
    if isinstance(obj, Wikicode):
        acc[id(obj)] = obj
        mutable_ids(obj.nodes, acc)
    elif isinstance(obj, ListProxy):
        acc[id(obj)] = obj
        acc[id(obj._sliceinfo)] = obj._sliceinfo
        mutable_ids(obj._parent, acc)
    elif isinstance(obj, list):
        acc[id(obj)] = obj
        for x in list.__iter__(obj) if not isinstance(obj, ListProxy) else []:
            mutable_ids(x, acc)
    elif isinstance(obj, (Node, Attribute, Parameter)):
        acc[id(obj)] = obj
        for v in vars(obj).values():
            mutable_ids(v, acc)
    elif isinstance(obj, tuple):
        for x in obj:
            mutable_ids(x, acc)
    return acc


def registered(view):
    """the restored view is registered with its parent under THE SAME slice-info object"""
    par = view.nodes._parent
    ch = getattr(par, "_children", None)
    if ch is None:
        return False
    return any(si is view.nodes._sliceinfo and ref() is view.nodes for (ref, si) in ch.values())


def oracle_one(seed):
    import mwparserfromhell
    rng = random.Random(seed)
    text = wikigen.gen_doc(rng, depth=3) if rng.random() < 0.7 else wikigen.mutate(rng, wikigen.gen_doc(rng, depth=2))
    page = mwparserfromhell.parse(text)
    secs = page.get_sections(**c11.section_options(rng))[:4]
    proto = rng.choice(PROTOS + ["deepcopy"])
    what = rng.choice(["tree", "tree+views", "view", "node"])

    def dup(x):
        if proto == "deepcopy":
            return copy.deepcopy(x)
        return pickle.loads(pickle.dumps(x, proto))

    info = {"text": text, "proto": proto, "what": what}
    try:
        if what == "tree":
            p2 = dup(page)
            s2 = []
        elif what == "tree+views":
            p2, s2 = dup((page, secs))
        elif what == "view":
            if not secs:
                return None, info, False
            k = rng.randrange(len(secs))
            v2 = dup(secs[k])
            if str(v2) != str(secs[k]) or structure(v2) != structure(secs[k]):
                return "restored view alone renders differently", info, True
            if not registered(v2):
                return "restored view alone is not registered with its restored parent", info, True
            if mutable_ids(v2).keys() & mutable_ids(secs[k]).keys():
                return "restored view shares a mutable object with the original", info, True
            before = str(page)
            v2.append("{{zz}}")
            if not str(v2).endswith("{{zz}}") or str(page) != before:
                return "edit through a restored lone view is not visible in it or leaked into the original", info, True
            return None, info, True
        else:
            nodes = page.filter()
            if not nodes:
                return None, info, False
            n = rng.choice(nodes)
            n2 = dup(n)
            if str(n2) != str(n) or structure(n2) != structure(n) or type(n2) is not type(n):
                return "restored node differs", info, True
            if mutable_ids(n2).keys() & mutable_ids(n).keys():
                return "restored node shares a mutable object with the original", info, True
            return None, info, True
    except RecursionError:
        return None, info, False
    except Exception as e:
        return "pickling/copying raised %r" % (e,), info, True
    # ---- tree / tree+views
    if str(p2) != text or str(p2) != str(page):
        return "restored page renders differently", info, True
    if structure(p2) != structure(page) or p2.get_tree() != page.get_tree():
        return "restored page has a different structure", info, True
    if what == "tree":
        secs = []
    if [str(s) for s in s2] != [str(s) for s in secs] or [structure(s) for s in s2] != [structure(s) for s in secs]:
        return "restored views differ", info, True
    for s in s2:
        if s.nodes._parent is not p2.nodes or not registered(s):
            return "restored view is not a registered live view of the restored page", info, True
    shared = mutable_ids((p2, tuple(s2))).keys() & mutable_ids((page, tuple(secs))).keys()
    if shared:
        return "original and copy share mutable objects", info, True
    # ---- independence under edits (both directions)
    snap_o = (str(page), [str(s) for s in secs])
    for _ in range(3):
        T = rng.choice([p2] + s2)
        try:
            k = rng.randint(0, 3)
            if k == 0:
                T.append("{{new}}")
            elif k == 1 and len(T.nodes):
                T.remove(T.nodes[rng.randrange(len(T.nodes))])
            elif k == 2:
                T.insert(rng.randint(-2, 2), "x<!--y-->")
            else:
                tpls = p2.filter_templates()
                if tpls:
                    rng.choice(tpls).add("k", "v")
        except (ValueError, IndexError):
            pass
    if (str(page), [str(s) for s in secs]) != snap_o:
        return "editing the copy changed the original", info, True
    snap_c = (str(p2), [str(s) for s in s2])
    try:
        page.append("tail")
        if len(page.nodes) > 1:
            page.remove(page.nodes[0])
        for t in page.filter_templates()[:1]:
            t.name = "renamed"
    except (ValueError, IndexError):
        pass
    if (str(p2), [str(s) for s in s2]) != snap_c:
        return "editing the original changed the copy", info, True
    # restored views stay coherent with the restored page
    msg = c11.oracle_loose(p2, s2)
    if msg:
        return "after edits: " + msg, info, True
    return None, info, True


def _worker(items):
    out = []
    for kind, seed in items:
        if kind == "m":
            proto = PROTOS[seed % len(PROTOS)]

            def transform(page, secs, proto=proto):
                p2, s2 = pickle.loads(pickle.dumps((page, secs), proto))
                return p2, s2
            try:
                out.append(("m", seed) + c11.run_model_history(seed, transform))
            except Exception as e:
                out.append(("m", seed, "", "", (0, "pickle round trip raised %r" % (e,)), False, ""))
        else:
            try:
                out.append(("o", seed) + oracle_one(seed))
            except RecursionError:
                raise
            except Exception as e:      # noqa: BLE001
                import traceback
                tb = traceback.extract_tb(e.__traceback__)
                out.append(("o", seed, "restored objects: an edit or a read raised %r [%s]" % (
                    e, " <- ".join("%s:%d" % (f.name, f.lineno) for f in tb[-4:])), {"proto": "?", "what": "?"}, False))
    return out


def run(tier, seed):
    c = vlib.Check("C17", tier, seed, "proof")
    vlib.pure_python_parser()
    c.prove("C17.v")
    base = seed * 3000017
    nm, no = (6000, 4000) if tier == "quick" else (200000, 150000)
    items = [("m", base + i) for i in range(nm)] + [("o", base + 11 * nm + i) for i in range(no)]
    results = [r for ch in vlib.pmap(_worker, vlib.chunked(items, 64)) for r in ch]
    mres = [r for r in results if r[0] == "m"]
    try:
        model = vlib.model_run("wikiedit", [r[2] for r in mres])
    except Exception as e:
        model = None
        c.broken.append({"file": "coq/extract/wikiedit_run", "line": 0, "statement": "wc_step (extracted)", "error": str(e)})
    dis = 0
    nontrivial = set()
    for k, r in enumerate(mres):
        _k, s, line, rec, failure, nt, text = r
        c.cov["evaluations"] += 1
        if nt:
            nontrivial.add(line)
        if failure:
            c.fail("restored (page, views): " + failure[1], {"kind": "model-history", "seed": s, "page": text, "proto": PROTOS[s % len(PROTOS)]})
        if model is not None and line:
            c.cov["traces_validated_against_impl"] += 1
            if model[k].strip() != rec.strip():
                dis += 1
                if dis <= 3 and not failure:
                    c.broken.append({"file": "correspondence restored views", "line": 0, "statement": "pickle_copy / wc_step (model tie)",
                                     "error": "seed %d proto %d page %r: model %r vs restored objects %r" % (s, PROTOS[s % len(PROTOS)], text, model[k], rec)})
    kinds = {}
    for r in results:
        if r[0] != "o":
            continue
        _k, s, failure, info, counted = r
        c.cov["evaluations"] += 1
        if counted:
            kinds[(str(info["proto"]), info["what"])] = kinds.get((str(info["proto"]), info["what"]), 0) + 1
            nontrivial.add(("o", s))
        if failure:
            c.fail(failure, dict(info, kind="oracle", seed=s))
    c.cov["distinct_nontrivial"] = len(nontrivial)
    c.cov["rule"] = ("model histories: C11's edit histories run on (page, views) restored from pickle (protocol = seed mod %d) and compared "
                     "with the model after every call; oracle cases: grammar/mutated documents x {tree, tree+views, view alone, node} x "
                     "{protocols 0..%d, deepcopy}: text, structure, get_tree, registration with the same slice-info object, no shared mutable "
                     "object, edits in both directions; non-trivial = model history with >= 2 live views, or any oracle case that ran"
                     % (len(PROTOS), PROTOS[-1]))
    c.cov["samples"] = [{"encoded": r[2], "trace": r[3][:200]} for r in mres[:2]] + [{"oracle_case_counts": {"%s/%s" % k: v for k, v in sorted(kinds.items())}}]
    c.notes["model_impl_disagreements"] = dis
    c.assumptions += ["pickle/copy build an isomorphic object graph following __reduce_ex__/__setstate__ (CPython's pickle and copy modules are trusted)",
                      "identity of the slice-info list shared by proxy and registry is checked on the implementation, not modelled",
                      "inherits C13/C11's trusted base"]
    return c.finish()


def replay(data):
    d = data["data"]
    if d.get("kind") == "oracle":
        r = oracle_one(d["seed"])
        print(r)
        return 1 if r[0] else 0
    r = _worker([("m", d["seed"])])[0]
    print(r)
    return 1 if r[4] else 0
