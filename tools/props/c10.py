"""C10 - template parameter edits keep the template well-formed and names stable.

Proof: coq/props/C10.v at the parameter-list level (hidden-key invariant over every sequence of
add/remove, has-after-add, gone-after-remove, nobody renamed).  Tie: the list of (stripped name,
showkey, value identity) after every call on a real Template vs the extracted model.  Oracle: after
every call str(template) re-parses to ONE template with the same names / values / key visibility;
has()/get() find an added value; remove() makes the name disappear (keep_field blanks) and the names the
parser sees for all other parameters are unchanged.  The re-parse clause is validated, not proved.
"""
import random
import re

import vlib

NAMES = ["a", "b", "key", "1", "2", "3", "4", " a ", " 2 ", "new", "x y", "5", "01"]
VALS = ["v", "", " ", "a|b", "a=b", "x\n", "\n y ", "{{t|u}}", "[[l|m]]", "{{t|u}}|w", "a=b|c=d", "  pad  ", "q=", "|", "=",
        "{{x}}={{y}}", "[[a|b]]=c", "<b>k=v</b>|z", "&#124;", "w\n\n", "http://example.com/?a=b", "see [http://x.org/?q=1 t]", "==h==", "\n== t ==\n",
        "[//a.b/c?d=e]", "x http://e.org/?a=b&c=d y", "==a|b==", "\n== a|b ==\n", "http://x.com/?a|b", "[http://x.com/a|b c|d]", "x [http://x.com/a|b c|d] y|z",
        "\n== [http://q/a|b c] ==\n"]
TPLS = ["{{t}}", "{{t|a}}", "{{t|a|b}}", "{{t|a=1|b=2}}", "{{t|x|k=v|y}}", "{{t| a = 1 | b = 2 }}", "{{t|\n a = 1\n| b = 2\n}}",
        "{{t|1=a|2=b}}", "{{t|a|2=b|c}}", "{{t|a=1|a=2}}", "{{t||}}", "{{t|a|b|c|d}}", "{{t|2=x|y}}", "{{t|a|a=z|b}}", "{{t|1=p|q}}",
        "{{t|b|1=dup}}", "{{t| 1 = s|u}}"]
NUM = re.compile(r"[1-9][0-9]*$")


def name_id(s, table):
    s = s.strip()
    if NUM.match(s):
        return int(s)
    if s not in table:
        table[s] = -(len(table) + 1)
    return table[s]


def snapshot(t):
    return [(str(p.name).strip() if not p.showkey else str(p.name), str(p.value), bool(p.showkey)) for p in t.params]


def reparse(t):
    import mwparserfromhell as M
    from mwparserfromhell.nodes import Template
    c = M.parse(str(t))
    if len(c.nodes) != 1 or not isinstance(c.nodes[0], Template):
        return None
    return c.nodes[0]


def norm_ws(v):
    import mwparserfromhell as M
    return M.parse(str(v)).strip_code(normalize=True, collapse=False)


def norm(v):
    import mwparserfromhell as M
    return M.parse(str(v)).strip_code(normalize=True, collapse=False).strip()


ESC_VALUES = VALS + ["a|b|c", "||", "x=y=z", "{{t|a|b}}|{{u|c=d}}", "[[l|t]]|[[m|u=v]]", "<b>p|q</b>|r", "<!-- a|b -->|c", "&#124;|", "{{{1|d}}}|e",
                     "== a|b=c ==", "\n== [http://q/a|b c=d|e] | f ==\n", "[http://x/a|b {{t|c}}|d [[l|e]]]", "http://x/?a=b|c=d e|f", "[http://x/{{t|a}}|b]",
                     "== {{t|a|b}} | [[l|c]] ==", "''a|b''", "* a|b\n", "{|\n| a || b\n|}", "[//x/a|b]", "mailto:a|b=c"]


def _enc_codes(t):
    return [len(t)] + [ord(ch) for ch in t]


def _enc_items(code):
    """the value as the model's item tree: Text / closed node (brackets of its own) / open node (heading, external link)"""
    from mwparserfromhell.nodes import ExternalLink, Heading, Text
    out = [len(code.nodes)]
    for n in code.nodes:
        if isinstance(n, Text):
            out += [0] + _enc_codes(str(n))
        elif isinstance(n, Heading):
            eq = "=" * n.level
            out += [2] + _enc_codes(eq) + [1] + _enc_items(n.title) + _enc_codes(eq)
        elif isinstance(n, ExternalLink):
            if n.brackets:
                if n.title is not None:
                    out += [2] + _enc_codes("[") + [2] + _enc_items(n.url) + _enc_codes(" ") + _enc_items(n.title) + _enc_codes("]")
                else:
                    out += [2] + _enc_codes("[") + [1] + _enc_items(n.url) + _enc_codes("]")
            else:
                out += [2] + _enc_codes("") + [1] + _enc_items(n.url) + _enc_codes("")
        else:
            out += [1] + _enc_codes(str(n))
    return out


def _escape_work(cases):
    import mwparserfromhell as M
    from mwparserfromhell.nodes import Template
    res = []
    for val, ch in cases:
        code = M.parse(val)
        enc = [ord(ch)] + _enc_codes("&#%d;" % ord(ch)) + _enc_items(code)
        if str(code) != val:
            res.append((None, "the value does not round-trip", None))
            continue
        try:
            flag = Template._has_unescapable_equals(code) if ch == "=" else None
            Template._surface_escape(code, ch)
            res.append((" ".join(map(str, enc)), str(code), flag))
        except Exception as e:      # noqa: BLE001
            res.append((" ".join(map(str, enc)), "EXC %r" % (e,), None))
    return res


def escape_tie(c, seed):
    """Template._surface_escape vs the extracted model (coq/Escape.v), and the property the model is proved to have, on the implementation"""
    import mwparserfromhell as M
    rng = random.Random(seed * 11 + 3)
    vals = list(ESC_VALUES)
    for _ in range(400):
        vals.append("".join(rng.choice(ESC_VALUES + ["|", "=", " ", "x"]) for _ in range(rng.randint(2, 4))))
    vals = [v for v in vals if "\ud800" not in v]
    cases = [(v, ch) for v in vals for ch in "|="]
    real = vlib.robust_map(_escape_work, cases, chunk=200, timeout=120)
    good = [(cs, r) for cs, r in zip(cases, real) if not (isinstance(r, tuple) and r and r[0] in ("CRASH", "TIMEOUT", "PYEXC")) and len(r) == 3 and r[0] is not None]
    try:
        model = vlib.model_run("escape", [r[0] for _cs, r in good])
    except Exception as e:  # noqa: BLE001
        c.broken.append({"file": "coq/extract/escape_run", "line": 0, "statement": "escape (extracted)", "error": str(e)})
        return
    dis = 0
    for ((val, ch), (_enc, got, flag)), m in zip(good, model):
        c.cov["traces_validated_against_impl"] += 1
        mflag, m = m.strip().split("|", 1)
        if flag is not None and bool(flag) != (mflag == "1"):
            # the decision "can this key stay hidden": the model's open_renders vs Template._has_unescapable_equals
            probe = "{{t|%s}}" % val
            nodes = M.parse(probe).nodes
            ok = len(nodes) == 1 and hasattr(nodes[0], "params") and len(nodes[0].params) == 1 and not nodes[0].params[0].showkey
            if not flag and not ok:
                c.fail("_has_unescapable_equals(%r) is False, but as a hidden-key value it is not one positional parameter (the model says an open node renders '=')" % val,
                       {"escape_case": [val, ch]})
            else:
                c.broken.append({"file": "correspondence _has_unescapable_equals", "line": 0, "statement": "open_renders (model tie)",
                                 "error": "value %r: model %s vs implementation %r" % (val, mflag, flag)})
        want = "" if m.strip() == "-" else "".join(chr(int(x)) for x in m.strip().split(","))
        if got != want:
            dis += 1
            # the proved property on the implementation's own result: the value, rendered as a hidden/shown parameter of a
            # template and parsed again, must still be ONE parameter
            probe = "{{t|k=%s}}" % got if ch == "|" else "{{t|%s}}" % got
            re_ = M.parse(probe).nodes[0] if len(M.parse(probe).nodes) == 1 else None
            ok = re_ is not None and hasattr(re_, "params") and len(re_.params) == 1 and (ch == "|" or not re_.params[0].showkey)
            if not ok and not got.startswith("EXC"):
                c.fail("_surface_escape(%r, %r) gives %r: as a parameter value it is split at an unprotected %r (the model gives %r)" % (val, ch, got, ch, want),
                       {"escape_case": [val, ch]})
            elif dis <= 3:
                c.broken.append({"file": "correspondence _surface_escape", "line": 0, "statement": "escape (model tie)",
                                 "error": "value %r char %r: model %r vs implementation %r" % (val, ch, want, got)})
    c.notes["escape_model_disagreements"] = dis


def one_history(seed):
    import mwparserfromhell as M
    rng = random.Random(seed)
    t = M.parse(rng.choice(TPLS)).nodes[0]
    table = {}
    vids = {}

    def vid(p):
        return vids.setdefault(id(p.value), len(vids) + 10)
    line = [len(t.params)]
    for p in t.params:
        line += [name_id(str(p.name), table), 1 if p.showkey else 0, vid(p)]
    hist = [str(t)]
    ops = []
    recs = []
    fail = None
    touched_positional = False
    nops = rng.randint(1, 6)
    for _step in range(nops):
        r0 = reparse(t)
        if r0 is None:
            fail = "the template does not render as a single template before the call"
            break
        before_names = [str(p.name).strip() for p in r0.params]
        if rng.random() < 0.05:
            nm = rng.choice(NAMES)
            if t.has(nm) and not NUM.match(nm.strip()):
                before_txt = str(t)
                try:
                    t.add(nm, "zz", showkey=False)
                    fail = "add(%r, showkey=False) hid a key that is not a positive integer" % nm
                except ValueError:
                    if str(t) != before_txt:
                        fail = "add(%r, showkey=False) raised ValueError but changed the template: %r -> %r" % (nm, before_txt, str(t))
                if fail:
                    break
            continue
        if rng.random() < 0.6:
            name, val, ps = rng.choice(NAMES), rng.choice(VALS), rng.random() < 0.7
            hist.append(("add", name, val, ps))
            existed = t.has(name)
            try:
                par = t.add(name, val, preserve_spacing=ps)
            except Exception as e:  # noqa: BLE001
                fail = "add raised %r" % (e,)
                break
            if NUM.match(name.strip()) or "|" in val or "=" in val:
                touched_positional = True
            newv = 1000 + len(ops)
            if any(type(n).__name__ in ("ExternalLink", "Heading") and "=" in str(n) for n in M.parse(val).nodes):
                newv = -(2000 + len(ops))       # the model's "unescapable '='" values
            vids[id(par.value)] = newv
            ops += [0, name_id(name, table), newv]
            if not t.has(name):
                fail = "has() is false after add"
            elif (norm(t.get(name).value) != norm(val) and str(t.get(name).value).strip() != val.strip()
                  and str(t.get(name).value).replace("&#124;", "|").replace("&#61;", "=").strip() != val.strip()):
                fail = "get() finds %r after adding %r" % (norm(t.get(name).value), norm(val))
            elif not existed and not par.showkey and norm_ws(par.value) != norm_ws(val) and str(par.value) != val:
                # white space is part of a positional value (only named parameters are stripped by MediaWiki)
                fail = "a new parameter with a hidden key got the value %r instead of %r" % (str(par.value), val)
        else:
            name, kf = rng.choice(NAMES), rng.random() < 0.4
            hist.append(("remove", name, kf))
            had = t.has(name)
            ops += [1, name_id(name, table), 1 if kf else 0]
            try:
                t.remove(name, keep_field=kf)
            except ValueError:
                if had:
                    fail = "remove raised although has() was true"
                had = None
            if had is False:
                fail = "remove succeeded although has() was false"
            if had:
                if NUM.match(name.strip()):
                    touched_positional = True
                if kf:
                    if not t.has(name):
                        fail = "keep_field removed the name"
                    elif str(t.get(name).value).strip() != "":
                        fail = "keep_field did not blank the value"
                else:
                    if t.has(name):
                        fail = "the name is still present after remove"
                    else:
                        r1 = reparse(t)
                        if r1 is None:
                            fail = "not a single template after remove"
                        else:
                            after = [str(p.name).strip() for p in r1.params]
                            exp = [n for n in before_names if n != name.strip()]
                            if after != exp:
                                fail = "other parameters were renamed: %r -> %r (expected %r)" % (before_names, after, exp)
        # blanked values get fresh Wikicode contents but the same Parameter: identify by position
        recs.append(",".join("%d:%d" % (name_id(str(p.name), table), 1 if p.showkey else 0) for p in t.params))
        if fail:
            break
        r = reparse(t)
        if r is None:
            fail = "rendering is not a single template: %r" % str(t)
            break
        if snapshot(r) != snapshot(t):
            fail = "re-parsing gives different parameters: %r vs %r" % (snapshot(t), snapshot(r))
            break
    line += [len(recs)] + ops[:3 * len(recs)]
    return " ".join(map(str, line)), " ; ".join(recs), hist, fail, (len(hist) > 2 and touched_positional)


def _work(seeds):
    return [one_history(s) for s in seeds]


def run(tier, seed):
    c = vlib.Check("C10", tier, seed, "proof")
    vlib.pure_python_parser()
    c.prove("C10.v")
    n = 20000 if tier == "quick" else 1000000
    seeds = [seed * 19000013 + i for i in range(n)]
    res = vlib.robust_map(_work, seeds, chunk=400, timeout=240)
    good = [(s, r) for s, r in zip(seeds, res) if not (isinstance(r, tuple) and r and r[0] in ("CRASH", "TIMEOUT", "PYEXC"))]
    for s, r in zip(seeds, res):
        if isinstance(r, tuple) and r and r[0] in ("CRASH", "TIMEOUT", "PYEXC"):
            c.fail("history %s: %s" % (r[0], str(r[1])[:300]), {"seed": s, "outcome": r[0]})
    try:
        model = vlib.model_run("template", [r[0] for _s, r in good])
    except Exception as e:  # noqa: BLE001
        model = None
        c.broken.append({"file": "coq/extract/template_run", "line": 0, "statement": "step (extracted)", "error": str(e)})
    dis = 0
    nontrivial = set()
    for k, (s, (line, rec, hist, fail, nt)) in enumerate(good):
        c.cov["evaluations"] += 1
        if nt:
            nontrivial.add(repr(hist))
        if fail:
            c.fail(fail, {"seed": s, "history": repr(hist)})
        if model is not None:
            c.cov["traces_validated_against_impl"] += 1
            mm = " ; ".join(",".join(":".join(x.split(":")[:2]) for x in part.split(",") if x) for part in model[k].split(" ; ") if part.strip() != "" or True).strip(" ;")
            if not fail and mm != rec.strip(" ;"):
                dis += 1
                if dis <= 3:
                    c.broken.append({"file": "correspondence Template.add/remove", "line": 0, "statement": "step (model tie)",
                                     "error": "history %r: model %r vs implementation %r" % (hist, mm, rec)})
    escape_tie(c, seed)
    import hidekey
    hk = vlib.robust_map(hidekey.work, [0], chunk=1, timeout=240)[0]
    if isinstance(hk, tuple) and hk and hk[0] in ("CRASH", "TIMEOUT", "PYEXC"):
        c.fail("hide-key probe %s: %s" % (hk[0], str(hk[1])[:300]), {"probe": "hidekey", "outcome": hk[0]})
    else:
        c.cov["evaluations"] += hk[1]
        for msg in hk[0][:20]:
            c.fail(msg, {"probe": "hidekey", "what": msg})
    c.cov["distinct_nontrivial"] = len(nontrivial)
    c.cov["rule"] = ("17 starting templates (positional / named / duplicate / empty parameters, three whitespace conventions) x histories of 1-6 "
                     "add/remove calls, names from {new, existing, positional numbers, padded}, values over '|', '=', spaces, newlines, nested "
                     "templates / links / tags, keep_field and preserve_spacing options; non-trivial = >= 2 calls touching a positional parameter "
                     "or a value with '|' / '='; distinct by history")
    c.cov["samples"] = [repr(r[2]) for _s, r in good[:3]]
    c.notes["model_impl_disagreements"] = dis
    c.assumptions += ["names are plain text; showkey=, before=, after= are not passed (outside the claim)",
                      "the re-parse clause (render, parse, compare) is validated by the oracle, not proved",
                      "values are opaque in the model"]
    return c.finish()


def replay(data):
    if "escape_case" in data["data"]:
        vlib.pure_python_parser()
        print(_escape_work([tuple(data["data"]["escape_case"])]))
        return 1
    if data["data"].get("probe") == "hidekey":
        import hidekey
        f, _n = hidekey.probe()
        print("\n".join(f[:20]))
        return 1 if f else 0
    r = one_history(data["data"]["seed"])
    print(r[2], r[3])
    return 1 if r[3] else 0
