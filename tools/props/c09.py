"""C09 - tree navigation is complete and mutually consistent.

Proof: coq/props/C09.v.  Tie: the pre-order walk of the model (kinds + text lengths) vs filter() on
real parsed trees.  Oracle: filter() = an independent attribute walk (every Wikicode-valued attribute
reachable from vars()), each node once, typed filters are sub-sequences, non-recursive filter = top
level; for every node: contains, index(recursive=True), get_ancestors, get_parent; every Wikicode
whose text appears in the node is reachable; get_tree() succeeds.
"""
import treeprops
import vlib


def attribute_walk(code):
    """independent of __children__: walk every Wikicode reachable through instance attributes"""
    from mwparserfromhell.wikicode import Wikicode
    from mwparserfromhell.nodes.extras import Attribute, Parameter
    out = []
    where = {}
    slot = {}
    holder = {}

    def codes_of(obj):
        res = []
        for k, v in vars(obj).items():
            if isinstance(v, Wikicode):
                res.append((k, v))
            elif isinstance(v, list):
                for item in v:
                    if isinstance(item, (Attribute, Parameter)):
                        res += [(k + "." + kk, vv) for kk, vv in codes_of(item)]
                        for kk, vv in codes_of(item):
                            holder[id(vv)] = item
        return res

    def walk(c, ancestors):
        for idx, n in enumerate(c.nodes):
            where[id(n)] = (id(c), idx)
            out.append((n, list(ancestors)))
            seen = set()
            for k, sub in codes_of(n):
                if id(sub) in seen:
                    continue
                seen.add(id(sub))
                for m in sub.nodes:
                    slot[id(m)] = (k.split(".")[-1], holder.get(id(sub)))
                walk(sub, ancestors + [n])
    walk(code, [])
    return out, where, slot


def held_wikicodes(code):
    """every Wikicode a node of the tree holds in an attribute (found through vars(), not through __children__), with
    whether its parent renders it: (parent node, attribute name, Wikicode, rendered?)"""
    from mwparserfromhell.wikicode import Wikicode
    from mwparserfromhell.nodes import Tag
    from mwparserfromhell.nodes.extras import Attribute, Parameter
    out = []
    for n, _anc in attribute_walk(code)[0]:
        for k, v in vars(n).items():
            items = [(k, v, None)] if isinstance(v, Wikicode) else []
            if isinstance(v, list):
                for it in v:
                    if isinstance(it, (Attribute, Parameter)):
                        items += [(kk, vv, it) for kk, vv in vars(it).items() if isinstance(vv, Wikicode)]
            for attr, w, holder in items:
                unrendered = (isinstance(holder, Parameter) and attr == "_name" and not holder.showkey) or (
                    isinstance(n, Tag) and holder is None and ((attr == "_contents" and n.self_closing) or (attr == "_tag" and n.wiki_markup) or
                                                               (attr == "_closing_tag" and (n.self_closing or n.wiki_markup or n.implicit))))
                if type(n).__name__ == "ExternalLink" and attr == "_title" and not n.brackets:
                    unrendered = True
                if isinstance(n, Tag) and holder is None and attr == "_closing_tag" and not str(w):
                    unrendered = True       # an emptied closing name is no child of its tag (Tag.__children__)
                out.append((n, attr, w, not unrendered))
    return out


def check_tree(code):
    from mwparserfromhell.nodes import Tag
    from mwparserfromhell.nodes.extras import Parameter
    nodes = code.filter()
    ids = [id(n) for n in nodes]
    if len(set(ids)) != len(ids):
        return "filter() yields a node twice"
    walk, where, slot = attribute_walk(code)
    # nodes reachable through attributes whose text is rendered must all be in filter()
    s = str(code)
    byid = {id(n): anc for n, anc in walk}
    if not set(ids) <= set(byid):
        return "filter() yields a node that no attribute reaches"
    # order: a parent precedes its descendants; nodes of one Wikicode come in list order
    # (the order of the child Wikicodes of one node is tied by the model correspondence)
    fpos = {i: k for k, i in enumerate(ids)}
    last_in_container = {}
    for n in nodes:
        cont, idx = where[id(n)]
        if cont in last_in_container and last_in_container[cont] >= idx:
            return "filter() does not list the nodes of one Wikicode in their order"
        last_in_container[cont] = idx
        for a in byid[id(n)]:
            if id(a) in fpos and fpos[id(a)] > fpos[id(n)]:
                return "filter() lists a node before the node that contains it"
    # every Wikicode that contributes text is reachable: a node missing from filter() must lie in a Wikicode that its
    # parent does not render - the contents of a self-closing tag, the name of a wiki-markup tag, a hidden parameter name, the closing name of a self-closing or wiki-markup tag
    idset = set(ids)
    for n, anc in walk:
        if id(n) in idset:
            continue
        parent = anc[-1] if anc else None
        if parent is None:
            return "a top-level node is not reachable by filter(): %r" % (str(n)[:60],)
        attr, held_by = slot.get(id(n), (None, None))
        unrendered = (isinstance(held_by, Parameter) and attr == "_name" and not held_by.showkey) or isinstance(parent, Tag) and held_by is None and ((attr == "_contents" and parent.self_closing) or (attr == "_tag" and parent.wiki_markup) or
                                                  (attr == "_closing_tag" and (parent.self_closing or parent.wiki_markup)))
        if not unrendered and id(parent) in idset:
            return "a node in %s.%s, which is part of its text, is not reachable by filter(): %r" % (type(parent).__name__, attr, str(n)[:60])
    for cls in {type(n) for n in nodes}:
        typed = code.filter(forcetype=cls)
        if [id(n) for n in typed] != [id(n) for n in nodes if isinstance(n, cls)]:
            return "typed filter for %s is not the sub-sequence of that type" % cls.__name__
    if [id(n) for n in code.filter(recursive=False)] != [id(n) for n in code.nodes]:
        return "non-recursive filter differs from the top-level nodes"
    top = list(code.nodes)
    for n in nodes:
        anc = byid[id(n)]
        if not code.contains(n):
            return "contains() is False for a node filter() yields"
        i = code.index(n, recursive=True)
        root = anc[0] if anc else n
        if top[i] is not root:
            return "index(recursive=True) does not name the enclosing top-level node"
        got = code.get_ancestors(n)
        if [id(a) for a in got] != [id(a) for a in anc]:
            return "get_ancestors() differs from the chain of enclosing nodes"
        par = code.get_parent(n)
        if (par is None) != (not anc) or (anc and par is not anc[-1]):
            return "get_parent() is not the last ancestor"
    t = code.get_tree()
    if not isinstance(t, str):
        return "get_tree() did not return a string"
    return None


def _subsequence(rd, md):
    """the implementation's walk is the model's with some nodes left out"""
    if len(rd) != 1 or len(md) != 1:
        return False
    a = [x for x in rd[0][2:].split(",") if x]
    b = [x for x in md[0][2:].split(",") if x]
    if len(a) >= len(b):
        return False
    it = iter(b)
    return all(any(x == y for y in it) for x in a)


def _work(seeds):
    out = []
    for s in seeds:
        text, enc, code = treeprops.parse_case(s)
        try:
            fail = check_tree(code)
        except Exception as ex:  # noqa: BLE001
            fail = "navigation raised %r" % (ex,)
        if fail is None and s % 3 == 0:
            # the same on a tree that an edit has built: a node WITH children put at several matches of a string target
            # (each place gets its own copy, so every node is still met exactly once and is found where it is)
            try:
                import mwparserfromhell as M
                donors = [n for n in M.parse(text).filter() if any(len(ch.nodes) for ch in n.__children__())]
                if donors:
                    page = M.parse("p{{M}}q{{box|{{M}}|k={{M}}}}r" + text)
                    getattr(page, ("replace", "insert_before", "insert_after")[s % 9 // 3])("{{M}}", donors[s % len(donors)])
                    fail = check_tree(page)
                    if fail:
                        fail = "after %s('{{M}}', <node %r>) on a page with three matches: %s" % (("replace", "insert_before", "insert_after")[s % 9 // 3], str(donors[s % len(donors)])[:40], fail)
            except Exception as ex:  # noqa: BLE001
                fail = "navigation on an edited tree raised %r" % (ex,)
        rec = treeprops.impl_record(code)
        kinds = {type(n).__name__ for n in code.filter()}
        special = any(k in text for k in ("<", "[[", "|"))
        out.append((text, enc, rec, fail, len(kinds) >= 2 and special))
    return out


def run(tier, seed):
    c = vlib.Check("C09", tier, seed, "proof")
    c.prove("C09.v")
    treeprops.tokharness.setup()
    n = 6000 if tier == "quick" else 300000
    seeds = [seed * 13000027 + i for i in range(n)]
    res = vlib.robust_map(_work, seeds, chunk=200, timeout=240)
    good = [(s, r) for s, r in zip(seeds, res) if not (isinstance(r, tuple) and r and r[0] in ("CRASH", "TIMEOUT", "PYEXC"))]
    for s, r in zip(seeds, res):
        if isinstance(r, tuple) and r and r[0] in ("CRASH", "TIMEOUT", "PYEXC"):
            c.fail("case %s: %s" % (r[0], str(r[1])[:300]), {"seed": s, "outcome": r[0]})
    try:
        model = vlib.model_run("nodeops", [r[1] for _s, r in good if r[1] is not None])
    except Exception as e:  # noqa: BLE001
        model = None
        c.broken.append({"file": "coq/extract/nodeops_run", "line": 0, "statement": "descend (extracted)", "error": str(e)})
    k = 0
    dis = 0
    nontrivial = set()
    for s, (text, enc, rec, fail, nt) in good:
        c.cov["evaluations"] += 1
        if nt:
            nontrivial.add(text)
        if fail:
            c.fail(fail, {"seed": s, "text": text})
        if enc is not None and model is not None:
            m = model[k]
            k += 1
            c.cov["traces_validated_against_impl"] += 1
            md = [p for p in m.split(" | ") if p.startswith("D=")]
            rd = [p for p in rec.split(" | ") if p.startswith("D=")]
            if not fail and md != rd and _subsequence(rd, md):
                c.fail("filter() misses nodes of the complete walk (model descend_code, proved to reach every child that is rendered): "
                       "implementation %s vs model %s" % (rd[0][:400], md[0][:400]), {"seed": s, "text": text})
            elif not fail and md != rd:
                dis += 1
                if dis <= 3:
                    c.broken.append({"file": "correspondence filter()", "line": 0, "statement": "descend_code (model tie)",
                                     "error": "text %r: model %r vs implementation %r" % (text, md, rd)})
    c.cov["distinct_nontrivial"] = len(nontrivial)
    c.cov["rule"] = ("parsed documents (grammar / mutated / entity-heavy / noise; Python or C tokenizer); every node of filter() is checked; "
                     "non-trivial = >= 2 node kinds and markup that nests (tags, links, parameters); distinct by text")
    c.cov["samples"] = [r[0] for _s, r in good[:3]]
    c.notes["model_impl_disagreements"] = dis
    c.assumptions += ["identity-based claims (each node once, index/ancestors by identity) are checked on the implementation; the model has values, not identities"]
    return c.finish()


def replay(data):
    r = _work([data["data"]["seed"]])[0]
    print(r[0], r[3])
    return 1 if r[3] else 0
