"""C05 - bounded work and bounded nesting.  PARTIAL; decided by measurement.

Proved (coq/props/C05.v): every unbounded recursion between tokenizer functions passes the depth-limit
test (call lists regenerated from tokenizer.py and tok_parse.c).
Measured: size-parameterised adversarial families (unclosed / crossed / properly nested openers of
every construct, repeated delimiters) at doubling sizes in crash-isolating workers:
 * Python tokenizer: a DETERMINISTIC work count (calls of _read + pushes) - work must stay inside a quadratic
   envelope, the last doubling must grow by less than 2^2.7 and the Python frame depth must not grow with n;
 * C tokenizer: CPU time per doubling (only judged above 30 ms) below 2^2.9, no crash;
 * tree depth bounded; every tree is rendered, filtered, stripped (all options) and pickled (all protocols).
"""
import pickle
import sys
import time

import vlib

FAMILIES = {
    # unclosed openers
    "unclosed {{": lambda n: "{{" * n, "unclosed {{{": lambda n: "{{{" * n, "unclosed [[": lambda n: "[[" * n,
    "unclosed [": lambda n: "[" * n, "unclosed <b>": lambda n: "<b>" * n, "unclosed ''": lambda n: "''a" * n,
    "unclosed '''": lambda n: "'''a" * n, "unclosed {|": lambda n: "{|\n" * n, "unclosed <!--": lambda n: "<!--" * n,
    "unclosed &#": lambda n: "&#" * n, "unclosed {{a|": lambda n: "{{a|" * n, "unclosed [[a|": lambda n: "[[a|" * n,
    "unclosed <b a=\"": lambda n: "<b a=\"" * n, "unclosed [http://x ": lambda n: "[http://x " * n,
    "unclosed table cells": lambda n: "{|\n|" + "a||" * n, "unclosed <ref>": lambda n: "<ref>" * n,
    "unclosed {{a|b={{": lambda n: "{{a|b={{" * n, "unclosed ==": lambda n: "== a\n" * n, "unclosed <b ": lambda n: "<b " * n,
    "unclosed </": lambda n: "</" * n, "unclosed {{a|[[": lambda n: "{{a|[[" * n, "unclosed [[http://a ": lambda n: "[[http://a " * n,
    "unclosed [[//a b": lambda n: "[[//a b" * n, "unclosed {{a|[[http://b ": lambda n: "{{a|[[http://b " * n,
    # crossed
    "crossed {{[[ }}]]": lambda n: "{{[[" * n + "}}]]" * n, "crossed <b>''": lambda n: "<b>''" * n + "</b>''" * n,
    "crossed {{<b> }}</b>": lambda n: "{{<b>" * n + "}}</b>" * n, "crossed [[{{ ]]}}": lambda n: "[[{{" * n + "]]}}" * n,
    "crossed {{{{{ }}": lambda n: "{{{{{" * n + "}}" * n,
    # properly nested
    "nested {{a| }}": lambda n: "{{a|" * n + "}}" * n, "nested {{{a| }}}": lambda n: "{{{a|" * n + "}}}" * n,
    "nested <b> </b>": lambda n: "<b>" * n + "</b>" * n, "nested [[a| ]]": lambda n: "[[a|" * n + "]]" * n,
    "nested <div><span>": lambda n: "<div><span>" * n + "</span></div>" * n, "nested lists": lambda n: "*" * n + " a",
    "nested quoted attribute + text": lambda n: "<br a=\"" * n + "x" + "\"y>" * n, "nested 'quoted' attribute + text": lambda n: "<br a='" * n + "x" + "'y>" * n,
    "nested quoted attribute in <b>": lambda n: "<b a=\"" * n + "x" + "\"y>z</b>" * n, "nested table style quote + text": lambda n: "{| a=\"" * n + "x" + "\"y\n|}" * n,
    "nested <a <a />": lambda n: "<a " * n + "/>" * n, "nested <a b=<a b=": lambda n: "<a b=" * n + "x" + ">y</a>" * n,
    "nested <a b=\"<a b=\"": lambda n: "<a b=\"" * n + "x" + "\">y</a>" * n, "nested <a {{b|<a": lambda n: "<a {{b|" * n + "}}/>" * n,
    "nested {| a=<b ": lambda n: "{| a=<b c=" * n + "x" + ">y</b>\n|}" * n, "nested <a [[b|<a": lambda n: "<a [[b|" * n + "]]/>" * n,
    "nested table in a multi-line cell": lambda n: "{|\n| <span>\n" * n + "\n|}</span> | x" * n,
    "nested table in a styled cell": lambda n: "{|\n| a=b | <span>\n" * n + "\n|}</span> | x" * n,
    "nested table after a template in a cell": lambda n: "{|\n| {{t|\n}} | {{u|\n" * n + "}}\n|} | x" * n,
    # the same with a long last line (many text segments) between the multi-line node's newline and the '|'
    "nested table in a template in a cell, long last line": lambda n: "{|\n| {{a|\n" * n + ("\n" + "see-also-" * 25 + "}} | y\n|}") * n,
    "nested table in a multi-line cell, long last line": lambda n: "{|\n| <span>\n" * n + ("\n|}" + "-a:b;c" * 40 + "</span> | x") * n,
    "nested table style with an unclosed quote holding a multi-line wikilink": lambda n: '{| a="[[t|\n' * n + "x" + "]]\n|}\n" * n,
    "nested table style with an unclosed quote holding a multi-line template": lambda n: "{| a='{{t|\n" * n + "x" + "}}\n|}\n" * n,
    "nested row style with an unclosed quote": lambda n: '{|\n|- a="[[t|\n' * n + "x" + "]]\n|}\n" * n,
    "cell with a multi-line comment and a long line": lambda n: "{|\n" + ("| <!--\n-->" + "x-y:z " * 30 + "| c\n") * n + "|}",
    "nested tables": lambda n: "{|\n|\n" * n + "|}\n" * n, "nested [x {{": lambda n: "[http://a {{b|" * n + "}}]" * n,
    "nested '' '''": lambda n: "''a'''b" * n + "'''''" * n,
    "nested {{a|'''''": lambda n: "{{a|'''''" * n + "'''''}}" * n, "nested {{ runs": lambda n: ("{{" * 40 + "a|") * n + "}}" * (40 * n),
    "nested {{{{{ }}}}}": lambda n: "{{{{{" * n + "a" + "}}}}}" * n, "nested [[a|''": lambda n: "[[a|''" * n + "'']]" * n,
    "nested <b>{{a|": lambda n: "<b>{{a|" * n + "}}</b>" * n, "nested {{a|b={{{c|": lambda n: "{{a|b={{{c|" * n + "}}}}}" * n,
    # repeated delimiters
    "repeat =": lambda n: "=" * n, "repeat ==a==": lambda n: "==a==" * n, "repeat a= after ==": lambda n: "==" + "a=" * n + "\n",
    "repeat |": lambda n: "|" * n, "repeat }}": lambda n: "}}" * n, "repeat ]]": lambda n: "]]" * n, "repeat '": lambda n: "'" * n,
    "repeat -": lambda n: "-" * n, "repeat &": lambda n: "&" * n, "repeat <": lambda n: "<" * n, "repeat >": lambda n: ">" * n,
    "repeat :": lambda n: "a:" * n, "repeat ;": lambda n: ";" * n, "repeat newline": lambda n: "\n" * n,
    "repeat http://": lambda n: "http://" * n, "repeat &amp;": lambda n: "&amp;" * n, "repeat <br>": lambda n: "<br>" * n,
    "repeat </br>": lambda n: "</br>" * n, "repeat {{a}}": lambda n: "{{a}}" * n, "repeat [[a]]": lambda n: "[[a]]" * n,
    "repeat <!---->": lambda n: "<!---->" * n, "repeat !! in table": lambda n: "{|\n!" + "a!!" * n + "\n|}",
    "repeat {{a|b=c}}": lambda n: "{{a|b=c}}" * n, "repeat \\": lambda n: "<a b=\"\\" * n, "repeat mailto:": lambda n: "mailto:a " * n,
    "repeat <li>": lambda n: "<li>" * n, "repeat {{!}}": lambda n: "{{a|" + "{{!}}" * n + "}}",
}

FRAME_LIMIT = 420          # Python frames while tokenizing: about 3 per open stack (MAX_DEPTH = 100) + harness
TREE_LIMIT = 210           # nesting of the tree: at most 2 levels per open stack
OPENERS = ["{{", "{{{", "[[", "[", "<b>", "''", "'''", "{|\n|", "[http://a ", "[[http://a ", "[[//a b", "<ref>", "{{a|", "[[a|", "== ", "<!--", "&#",
           "<b a=\"", "[//a ", "http://a ", "{{a|b=", "<br ", "</", "\n*", "{{{a|", "<nowiki>", "<pre a=\"", "\n;", "<br a=\"x>", "<ref name=\"a>t</ref>", "<b a='x>y</b>", "{| a=\"b\n|x\n|}\n", "\n| <span>\n"]


# what may follow n unclosed openers: one closer of some construct (a route that SUCCEEDS at the very end and is then thrown
# away, or fails only there, is re-tried differently from one that never closes)
TAILS = ["]", "]]", "}}", "}}}", "''", "|}", "-->", "</b>", "\n", ">", "|-", "\n|-", "\n|}", "</ref>", "\"", "=="]
OPENERS_T = OPENERS + ["{|\n", "{|\n| a\n", "[[http://a y", "[http://a [[b|", "[[a|[http://b c", "{{a|[http://b c", "<b>[http://a c", "''[[a|", "{{a|[[b|"]


def family(name):
    """a size -> text function for a catalogue name or for 'pair <i> <j>' (two openers alternating, never closed)"""
    if name.startswith("closed "):
        _c, i, j = name.split()
        o1, tl = OPENERS_T[int(i)], TAILS[int(j)]
        return lambda n: o1 * n + tl
    if name.startswith("single "):
        o1 = OPENERS[int(name.split()[1])]
        return lambda n: o1 * n
    if name.startswith("pair "):
        _p, i, j = name.split()
        o1, o2 = OPENERS[int(i)], OPENERS[int(j)]
        return lambda n: (o1 + o2) * n
    return FAMILIES[name]


def sizes(maxn):
    out = [8, 12, 16, 20, 24, 28, 32, 48]
    n = 64
    while n <= maxn:
        out.append(n)
        n *= 2
    return [x for x in out if x <= maxn]


PY_BUDGET = 1_500_000      # work units per run (about 1-2 s)
C_BUDGET_S = 1.5


def py_run(text):
    import tokharness
    st = tokharness.setup()
    base = st["py"]
    counts = {"work": 0, "maxdepth": 0, "pushes": 0}

    class Counting(base):
        def _read(self, *a, **kw):
            counts["work"] += 1
            return base._read(self, *a, **kw)

        def _push(self, *a, **kw):
            counts["work"] += 1
            counts["pushes"] += 1
            if counts["pushes"] % 37 == 0:
                d = 0
                f = sys._getframe()
                while f is not None:
                    d += 1
                    f = f.f_back
                counts["maxdepth"] = max(counts["maxdepth"], d)
            return base._push(self, *a, **kw)
    toks = Counting().tokenize(text)
    return toks, counts


def tree_depth(code, d=1):
    m = d
    for n in code.nodes:
        for ch in n.__children__():
            m = max(m, tree_depth(ch, d + 1))
    return m


def post_ops(code):
    str(code)
    code.filter()
    for o in range(8):
        code.strip_code(normalize=bool(o & 1), collapse=bool(o & 2), keep_template_params=bool(o & 4))
    code.get_tree()
    for proto in range(pickle.HIGHEST_PROTOCOL + 1):
        if str(pickle.loads(pickle.dumps(code, proto))) != str(code):
            return "pickle protocol %d does not round-trip" % proto
    return None


def family_run(items):
    import tokharness
    st = tokharness.setup()
    name, maxn, tier = items[0]
    fam = family(name)
    rec = {"name": name, "py": [], "c": [], "fail": None, "depth": 0}
    # ---- Python: deterministic work
    for n in sizes(maxn):
        text = fam(n)
        try:
            toks, counts = py_run(text)
        except RecursionError:
            rec["fail"] = "Python tokenizer: RecursionError at n=%d (%d characters)" % (n, len(text))
            break
        except Exception as e:  # noqa: BLE001
            rec["fail"] = "Python tokenizer raised %r at n=%d" % (e, n)
            break
        rec["py"].append((n, len(text), counts["work"], counts["maxdepth"]))
        try:
            code = st["builder"]().build(toks)
            if str(code) != text:
                rec["fail"] = "round trip fails at n=%d" % n
                break
            rec["depth"] = max(rec["depth"], tree_depth(code))
            if n <= 512:
                msg = post_ops(code)
                if msg:
                    rec["fail"] = "n=%d: %s" % (n, msg)
                    break
        except RecursionError:
            rec["fail"] = "rendering / filtering / stripping / pickling the tree raised RecursionError at n=%d" % n
            break
        if counts["work"] > PY_BUDGET:
            break
    # ---- C: CPU time
    if st["c"] is not None and rec["fail"] is None:
        cmax = maxn * (8 if tier == "quick" else 32)
        for n in sizes(cmax):
            text = fam(n)
            t0 = time.process_time()
            try:
                toks = st["c"]().tokenize(text)
            except Exception as e:  # noqa: BLE001
                rec["fail"] = "C tokenizer raised %r at n=%d" % (e, n)
                break
            dt = time.process_time() - t0
            rec["c"].append((n, len(text), dt))
            if n <= 2048:
                try:
                    code = st["builder"]().build(toks)
                    rec["depth"] = max(rec["depth"], tree_depth(code))
                    if n <= 512 and str(code) != text:
                        rec["fail"] = "C round trip fails at n=%d" % n
                        break
                except RecursionError:
                    rec["fail"] = "building / measuring the C tokenizer's tree raised RecursionError at n=%d" % n
                    break
            if dt > C_BUDGET_S:
                break
    return [rec]


def judge(rec):
    import math
    probs = []
    py = rec["py"]
    for (n, chars, w, _d) in py:
        if w > 4 * chars * chars + 200 * chars + 2000:
            probs.append("Python work %d at %d characters exceeds the quadratic envelope 4c^2+200c+2000" % (w, chars))
            break
    for (n1, _l1, w1, d1), (n2, _l2, w2, d2) in list(zip(py, py[1:]))[-1:]:
        if n1 >= 64 and w1 > 0 and n2 == 2 * n1:
            e = math.log2(w2 / w1)
            if e > 2.7:
                probs.append("Python work grows by 2^%.2f from n=%d to n=%d (%d -> %d units)" % (e, n1, n2, w1, w2))
    # between two neighbouring sizes work may not jump as only exponential growth does (the envelope above is in characters
    # and is generous to families with much text per level): local exponent log(w2/w1)/log(n2/n1) below 6
    for (n1, _l1, w1, _d1), (n2, _l2, w2, _d2) in zip(py, py[1:]):
        if w1 >= 5000 and n2 > n1 and math.log(w2 / w1) / math.log(n2 / n1) > 6:
            probs.append("Python work jumps from %d to %d units between n=%d and n=%d (local exponent %.1f): exponential growth"
                         % (w1, w2, n1, n2, math.log(w2 / w1) / math.log(n2 / n1)))
            break
    deep = [d for (n, _l, _w, d) in py]
    if deep and max(deep) > FRAME_LIMIT:
        probs.append("Python frame depth %d exceeds the fixed limit %d: %r" % (max(deep), FRAME_LIMIT, [(n, d) for (n, _l, _w, d) in py]))
    c = rec["c"]
    for (n, chars, t) in c:
        if t > 4e-7 * chars * chars + 2e-5 * chars + 0.25:
            probs.append("C tokenizer: %.2f s CPU at %d characters exceeds the quadratic envelope" % (t, chars))
            break
    for (n1, _l1, t1), (n2, _l2, t2) in zip(c, c[1:]):
        if t1 >= 0.02 and n2 > n1 and math.log(t2 / t1) / math.log(n2 / n1) > 6:
            probs.append("C time jumps from %.3fs to %.3fs between n=%d and n=%d (local exponent %.1f): exponential growth"
                         % (t1, t2, n1, n2, math.log(t2 / t1) / math.log(n2 / n1)))
            break
    for (n1, _l1, t1), (n2, _l2, t2) in list(zip(c, c[1:]))[-1:]:
        if t1 > 0.03 and n2 == 2 * n1:
            e = math.log2(t2 / t1)
            if e > 2.9:
                probs.append("C time grows by 2^%.2f from n=%d to n=%d (%.3fs -> %.3fs)" % (e, n1, n2, t1, t2))
    if rec["depth"] > TREE_LIMIT:
        probs.append("tree depth %d exceeds the fixed limit" % rec["depth"])
    return probs


def run(tier, seed):
    c = vlib.Check("C05", tier, seed, "proof")
    c.prove("C05.v")
    import tokharness
    tokharness.setup()
    maxn = 4096 if tier == "quick" else 65536
    import random
    rng = random.Random(seed * 31 + 5)
    pairs = [(i, j) for i in range(len(OPENERS)) for j in range(len(OPENERS)) if i != j]
    if tier == "quick":
        pairs = rng.sample(pairs, 32)
    closed = [(i, j) for i in range(len(OPENERS_T)) for j in range(len(TAILS))]
    jobs = [(name, maxn, tier) for name in sorted(FAMILIES)] + [("single %d" % i, maxn, tier) for i in range(len(OPENERS))] + \
        [("pair %d %d" % p, maxn, tier) for p in pairs] + [("closed %d %d" % p, maxn if tier != "quick" else 256, tier) for p in closed]
    res = vlib.robust_map(family_run, jobs, chunk=1, timeout=300 if tier == "quick" else 1800, procs=14)
    table = {}
    nontrivial = 0
    suspects, judged = [], []
    for job, r in zip(jobs, res):
        c.cov["evaluations"] += 1
        if isinstance(r, tuple) and r and r[0] in ("CRASH", "TIMEOUT", "PYEXC"):
            c.fail("family %r: %s %s" % (job[0], {"CRASH": "terminated the interpreter (native stack?)", "TIMEOUT": "did not finish in time",
                                                   "PYEXC": "harness error"}[r[0]], str(r[1])[:200]),
                   {"family": job[0], "outcome": r[0]})
            continue
        rec = r
        if rec["fail"]:
            c.fail("family %r: %s" % (rec["name"], rec["fail"]), {"family": rec["name"]})
        probs = judge(rec)
        if probs and all(p.startswith("C t") for p in probs):
            suspects.append((job, rec))
            continue
        judged.append((job, rec, probs))
    # CPU time is the only complaint of these families: measure them again with little else running (the first pass runs 14
    # families at once) and keep the smaller time per size; only a complaint that survives is reported.  Two passes of four at a
    # time, then - for at most three families - one pass alone.
    for attempt, procs in enumerate((4, 4, 1)):
        if not suspects or (procs == 1 and len(suspects) > 3):
            break
        again = vlib.robust_map(family_run, [j for j, _r in suspects], chunk=1, timeout=240, procs=procs)
        still = []
        for (job, rec), ag in zip(suspects, again):
            c.notes.setdefault("remeasured", []).append(rec["name"])
            if not (isinstance(ag, tuple) and ag and ag[0] in ("CRASH", "TIMEOUT", "PYEXC")):
                best = {n: t for (n, _l, t) in ag["c"]}
                rec["c"] = [(n, l, min(t, best.get(n, t))) for (n, l, t) in rec["c"]]
            probs = judge(rec)
            if probs:
                still.append((job, rec))
            else:
                judged.append((job, rec, []))
        suspects = still
    for job, rec in suspects:
        judged.append((job, rec, judge(rec)))
    for job, rec, probs in judged:
        for p in probs:
            c.fail("family %r: %s" % (rec["name"], p), {"family": rec["name"], "python": rec["py"], "c": rec["c"]})
        if any(n >= 64 for (n, *_r) in rec["py"]):
            nontrivial += 1
        table[rec["name"]] = {"python(n,chars,work,depth)": rec["py"][-3:], "c(n,chars,cpu_s)": [(n, l, round(t, 4)) for n, l, t in rec["c"][-3:]],
                              "tree_depth": rec["depth"]}
    c.cov["distinct_nontrivial"] = nontrivial
    c.cov["rule"] = ("%d size-parameterised families (unclosed, crossed, properly nested openers of every construct kind; repeated delimiters; "
                     "pairs of alternating unclosed openers (every opener alone, and pairs) out of 33 - 32 random pairs in the quick tier, all 1056 in the thorough tier; "
                     "n unclosed openers followed by ONE closer of some construct - all 672 (opener, closer) combinations, up to n = 256 in the quick tier) at "
                     "sizes n = 8, 12, ..., 32, 48, 64, then doubling, up to %d units (Python: until %d work units; C: until %.1f s CPU); non-trivial = family "
                     "measured at n >= 64" % (len(jobs), maxn, PY_BUDGET, C_BUDGET_S))
    c.cov["samples"] = [{"family": k, **v} for k, v in list(table.items())[:4]]
    c.notes["families"] = table
    c.assumptions += ["no complexity bound is proved; growth is judged on successive doublings (Python: deterministic work count = _read calls + pushes)",
                      "C CPU time is only judged above 30 ms; native stack exhaustion would show as a killed worker",
                      "the recursion-guard theorem exempts four context-bounded recursions (listed in coq/props/C05.v)"]
    return c.finish(explanation="Partial proof + measurement: the theorem covers recursion guards only; bounded work and depth are decided by "
                                "deterministic work counts (Python) and CPU time (C) on doubling families, in crash-isolating workers.")


def replay(data):
    d = data["data"]
    if "family" not in d:
        print(d)
        return 1
    import tokharness
    tokharness.setup()
    rec = family_run([(d["family"], 4096, "quick")])[0]
    probs = judge(rec)
    print(rec["fail"], probs)
    return 1 if (rec["fail"] or probs) else 0
