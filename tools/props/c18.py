"""C18 - setters coerce by parsing, validate, and are atomic on rejection.

Proof: coq/props/C18.v over effect programs regenerated from every property setter in /repo.
Oracle: every settable attribute of every node class x a catalogue of valid and invalid values of
every accepted type x sequences of assignments: a rejected assignment (ValueError) leaves the node
exactly as it was (deep snapshot of vars()); an accepted one renders the assigned text and nested
markup in it is navigable; an attribute value containing whitespace is always rendered quoted.
"""
import random
import re

import vlib
from props.c17 import structure

NUMKEY = re.compile(r"[1-9][0-9]*$")

PARSED = {  # attributes that store parse_anything(value)
    "Template": ["name"], "Wikilink": ["title", "text"], "Heading": ["title"], "Tag": ["tag", "contents", "closing_tag"],
    "Attribute": ["name", "value"], "Parameter": ["name", "value"], "ExternalLink": ["url", "title"], "Argument": ["name", "default"],
}
OTHER = {
    "Heading": ["level"], "HTMLEntity": ["value", "named", "hexadecimal", "hex_char"], "Parameter": ["showkey"],
    "Attribute": ["quotes", "pad_first", "pad_before_eq", "pad_after_eq"],
    "Tag": ["padding", "wiki_markup", "self_closing", "invalid", "implicit", "wiki_style_separator", "closing_wiki_markup"],
    "ExternalLink": ["brackets", "suppress_space"] if False else ["brackets"], "Comment": ["contents"], "Text": ["value"],
}
TEXTS = ["http://example.com/[[page]]", "https://a.org/x [[y]]", "x", "a b", "", "3", " 2 ", "7", "1", "{{t|p}}", "[[l|m]] tail", "<b>z</b>", "''i''", " spaced ", "a=b|c", "&amp;", "multi\nline", "日本"]
INVALID = {
    "Heading.level": [0, 7, -1, "9", "x", 100], "HTMLEntity.value": [" 12", "1_0", "+5", "٣", " ff", "12 ", "1\n", "notanentity", "x110000", "1114112", "-5", "zz", "12FFFF", "ffffffff", "FFFFFFF", "x12FFFF", "0x41", "", "1e3", "99999999"],
    "HTMLEntity.named": [True], "HTMLEntity.hexadecimal": [True], "HTMLEntity.hex_char": ["y", "", "xx", 5],
    "Parameter.showkey": [False, 0, None, ""], "Attribute.quotes": ["x", "''", "`", None, "", "\"'", "'\"", '""', "“"], "Attribute.pad_first": ["x", " a", "\n-"],
    "Attribute.pad_before_eq": ["x"], "Attribute.pad_after_eq": ["q "], "Tag.padding": ["x", " y "],
}
VALID = {
    "Heading.level": [1, 6, "3", 2.0, True], "HTMLEntity.value": ["amp", "nbsp", "65", "x41", "10FFFF", "0", "1114111", "999999", "110000"],
    "HTMLEntity.named": [False, True], "HTMLEntity.hexadecimal": [False, True], "HTMLEntity.hex_char": ["x", "X"],
    "Parameter.showkey": [True, False], "Attribute.quotes": ['"', "'", None], "Attribute.pad_first": [" ", "  ", "\n", "", None],
    "Attribute.pad_before_eq": ["", " "], "Attribute.pad_after_eq": ["", " "], "Tag.padding": ["", " ", "\n", None],
    "Tag.wiki_markup": [None, "''", ""], "Tag.self_closing": [True, False, 0], "Tag.invalid": [True, False], "Tag.implicit": [True, False],
    "Tag.wiki_style_separator": [None, "|"], "Tag.closing_wiki_markup": [None, "''"], "ExternalLink.brackets": [True, False],
    "Comment.contents": ["c", "", 5], "Text.value": ["t", "", 7],
}


def make_objects():
    import mwparserfromhell
    code = mwparserfromhell.parse("{{t|a=b|c|2nd=d|10px=e| 4x =f|3.5=g|01=h|2=i}}[[l|t]][http://x y]\n==h==\n<b a=\"c d\" e=f g>x</b>{{{n|d}}}<!--c-->&amp;&#65;&#x41;text<br/>''i''")
    objs = list(code.filter())
    extra = []
    for n in objs:
        for v in vars(n).values():
            if isinstance(v, list):
                extra += list(v)
    return code, objs + extra


def values_for(rng, cls, attr, code):
    import mwparserfromhell
    key = "%s.%s" % (cls, attr)
    if attr in PARSED.get(cls, []):
        t = rng.choice(TEXTS)
        kind = rng.random()
        if kind < 0.5:
            return t, t
        if kind < 0.6:
            return t.encode("utf8"), t          # bytes are decoded as UTF-8
        if kind < 0.75:
            n = rng.randint(0, 99)
            return n, str(n)
        if kind < 0.9:
            w = mwparserfromhell.parse(t)
            return w, t
        w = mwparserfromhell.parse("{{n%d}}" % rng.randint(0, 9))
        return w.nodes[0], str(w)
    pool = VALID.get(key, []) + INVALID.get(key, [])
    if not pool:
        return None, None
    return rng.choice(pool), None


def attr_quote_ok(attr):
    if attr.value is None:
        return True
    top = "".join(str(n) for n in attr.value.filter_text(recursive=False))
    if not any(ch.isspace() for ch in top):
        return True
    s = str(attr)
    v = str(attr.value)
    return attr.quotes in ('"', "'") and (attr.quotes + v + attr.quotes) in s


def one_sequence(seed):
    from mwparserfromhell.nodes.extras import Attribute
    rng = random.Random(seed)
    code, objs = make_objects()
    log = []
    rejected = 0
    for _step in range(rng.randint(1, 6)):
        obj = rng.choice(objs)
        cls = type(obj).__name__
        attrs = PARSED.get(cls, []) + OTHER.get(cls, [])
        if not attrs:
            continue
        attr = rng.choice(attrs)
        val, expect = values_for(rng, cls, attr, code)
        if val is None and expect is None and "%s.%s" % (cls, attr) not in VALID:
            continue
        before = structure(obj)
        before_doc = str(code)
        old_name = str(obj.name).strip() if cls == "Parameter" else None
        log.append("%s.%s = %r" % (cls, attr, val if not hasattr(val, "nodes") else str(val)))
        try:
            setattr(obj, attr, val)
        except ValueError:
            rejected += 1
            if structure(obj) != before or str(code) != before_doc:
                return log, "a rejected assignment changed the node: %s" % log[-1], rejected
            continue
        except Exception as e:  # noqa: BLE001
            if structure(obj) != before:
                return log, "assignment raised %r and changed the node: %s" % (e, log[-1]), rejected
            if not isinstance(e, (TypeError, AttributeError)):
                return log, "assignment raised %r: %s" % (e, log[-1]), rejected
            continue
        if isinstance(val, bytes):
            # the stored form does not depend on the type the text came in: same node kinds as for the str
            import copy as _copy
            twin = _copy.deepcopy(obj)
            setattr(twin, attr, val.decode("utf8"))
            ka = [type(n).__name__ for n in getattr(obj, attr).filter()] if getattr(obj, attr) is not None else None
            kb = [type(n).__name__ for n in getattr(twin, attr).filter()] if getattr(twin, attr) is not None else None
            if ka != kb:
                return log, "%s is stored as %r, the same text given as str as %r" % (log[-1], ka, kb), rejected
        if expect is not None:
            got = getattr(obj, attr)
            if got is None or str(got) != expect:
                if not (cls == "Attribute" and attr == "value"):
                    return log, "%s renders %r after being assigned %r" % (log[-1], None if got is None else str(got), expect), rejected
            if "{{" in expect and got is not None and not got.filter_templates():
                return log, "nested markup assigned through %s is not navigable" % log[-1], rejected
        if cls == "Parameter" and attr in ("name", "showkey") and not obj.showkey and not NUMKEY.match(str(obj.name).strip()):
            # (edits of nodes INSIDE a name are not assignments to the parameter: only these two setters are judged)
            return log, "a parameter whose name %r is not a positive integer has its key hidden after %s" % (str(obj.name), log[-1]), rejected
        if cls == "Parameter" and attr == "name" and not obj.showkey and str(obj.name).strip() != old_name:
            return log, "the name assigned by %s is not rendered: the key stays hidden (%r)" % (log[-1], str(obj)), rejected
        if cls == "Parameter" and attr == "name" and obj.showkey and expect is not None and expect.strip() and expect not in str(obj):
            return log, "the parameter does not render the name assigned by %s: %r" % (log[-1], str(obj)), rejected
        if cls == "HTMLEntity" and attr in ("value", "named", "hexadecimal", "hex_char") and False:
            pass
        if cls == "HTMLEntity" and (attr == "value" or (attr == "hexadecimal" and val)):
            # an accepted value is an entity name or a code point: the node must render something that IS that entity
            import mwparserfromhell as _M
            back = _M.parse(str(obj)).nodes
            zero = not obj.named and str(obj.value).strip("0") == ""      # code point 0: the setters take it, the tokenizers do not
            if not zero and (len(back) != 1 or type(back[0]).__name__ != "HTMLEntity"):
                return log, "%s was accepted, but %r is not an entity (it parses as %r)" % (log[-1], str(obj), [type(b).__name__ for b in back]), rejected
        if cls == "Attribute" and attr == "quotes" and obj.quotes not in (None, '"', "'"):
            return log, "%s was accepted: the attribute's quote character is now %r" % (log[-1], obj.quotes), rejected
        if cls == "Attribute" and attr.startswith("pad_") and getattr(obj, attr).strip():
            return log, "%s was accepted: padding that is not white space" % log[-1], rejected
        for o in objs:
            if isinstance(o, Attribute) and not attr_quote_ok(o):
                return log, "an attribute value with whitespace is rendered without quotes after %s: %r" % (log[-1], str(o)), rejected
        try:
            str(code)
            code.filter()
        except Exception as e:  # noqa: BLE001
            return log, "the tree cannot be rendered/navigated after %s: %r" % (log[-1], e), rejected
    return log, None, rejected


def _work(seeds):
    return [one_sequence(s) for s in seeds]


def run(tier, seed):
    c = vlib.Check("C18", tier, seed, "proof")
    vlib.pure_python_parser()
    c.prove("C18.v")
    n = 12000 if tier == "quick" else 400000
    seeds = [seed * 17000023 + i for i in range(n)]
    res = vlib.robust_map(_work, seeds, chunk=300, timeout=240)
    nontrivial = set()
    kinds = {}
    for s, r in zip(seeds, res):
        c.cov["evaluations"] += 1
        if isinstance(r, tuple) and r and r[0] in ("CRASH", "TIMEOUT", "PYEXC"):
            c.fail("sequence %s: %s" % (r[0], str(r[1])[:300]), {"seed": s, "outcome": r[0]})
            continue
        log, fail, rejected = r
        for l in log:
            k = l.split(" = ")[0]
            kinds[k] = kinds.get(k, 0) + 1
        if rejected or any("{{" in l or "[[" in l or "<b>" in l for l in log):
            nontrivial.add(tuple(log))
        if fail:
            c.fail(fail, {"seed": s, "assignments": log})
    import entityprobe
    ep = vlib.robust_map(entityprobe.work, [0], chunk=1, timeout=300)[0]
    if isinstance(ep, tuple) and ep and ep[0] in ("CRASH", "TIMEOUT", "PYEXC"):
        c.fail("entity probe %s: %s" % (ep[0], str(ep[1])[:300]), {"probe": "entity", "outcome": ep[0]})
    else:
        c.cov["evaluations"] += ep[1]
        for msg in ep[0][:20]:
            c.fail(msg, {"probe": "entity", "what": msg})
    import tagadd
    ta = vlib.robust_map(tagadd.work, [0], chunk=1, timeout=300)[0]
    if isinstance(ta, tuple) and ta and ta[0] in ("CRASH", "TIMEOUT", "PYEXC"):
        c.fail("Tag.add probe %s: %s" % (ta[0], str(ta[1])[:300]), {"probe": "tagadd", "outcome": ta[0]})
    else:
        c.cov["evaluations"] += ta[1]
        for msg in ta[0][:20]:
            c.fail(msg, {"probe": "tagadd", "what": msg})
    import hidekey
    hk = vlib.robust_map(hidekey.work, [0], chunk=1, timeout=240)[0]
    if isinstance(hk, tuple) and hk and hk[0] in ("CRASH", "TIMEOUT", "PYEXC"):
        c.fail("hide-key probe %s: %s" % (hk[0], str(hk[1])[:300]), {"probe": "hidekey", "outcome": hk[0]})
    else:
        c.cov["evaluations"] += hk[1]
        for msg in hk[0][:20]:
            c.fail(msg, {"probe": "hidekey", "what": msg})
    c.cov["distinct_nontrivial"] = len(nontrivial)
    c.cov["rule"] = ("sequences of 1-6 assignments on the nodes / attributes / parameters of a fixed document containing every node class; "
                     "parsed attributes get strings (plain, with markup, whitespace, empty), ints, Wikicode and Node values; validated attributes get "
                     "every value of a valid and an invalid catalogue; non-trivial = the sequence has a rejected assignment or a value with markup; "
                     "distinct by the assignment list")
    c.cov["samples"] = [r[0] for r in res[:3] if not (isinstance(r, tuple) and r and r[0] in ("CRASH", "TIMEOUT", "PYEXC"))]
    c.notes["assignments_per_attribute"] = kinds
    c.assumptions += ["the effect-program translator (tools/gen_defs.py gen_setters): any call except bool/isinstance/len may raise; attribute reads are pure",
                      "'renders the assigned text' relies on C01's round trip (parse_anything)"]
    return c.finish()


def replay(data):
    if data["data"].get("probe") == "entity":
        import entityprobe
        f, _n = entityprobe.probe()
        print("\n".join(f[:20]))
        return 1 if f else 0
    if data["data"].get("probe") == "tagadd":
        import tagadd
        f, _n = tagadd.probe()
        print("\n".join(f[:20]))
        return 1 if f else 0
    if data["data"].get("probe") == "hidekey":
        import hidekey
        f, _n = hidekey.probe()
        print("\n".join(f[:20]))
        return 1 if f else 0
    r = one_sequence(data["data"]["seed"])
    print(r)
    return 1 if r[1] else 0
