"""C03 - well-formed markup is recognised with exactly the structure it was written with.

Proved (coq/props/C03.v): the Builder half (build (fl_code t) = t for all well-formed trees,
positional names).  Validated: trees are generated from a grammar of well-formed constructs as real
node objects, rendered with str(), parsed with BOTH tokenizers, and the parsed tree is compared
field by field with the generated one (kinds, nesting, names, values, levels, attributes, quotes,
padding, flags).  Tables / lists / rules are checked by substitution into fixed skeletons.
"""
import random

import buildcorr
import vlib

WORDS = ["foo", "bar", "Baz", "x1", "y z", "42", "äö", "日本", "𝒳", "a b c", "q"]
def _all_schemes():
    from mwparserfromhell import definitions as d
    return [k + ("://" if v else ":") for k, v in sorted(d.URI_SCHEMES.items())]


ALL_SCHEMES = _all_schemes()          # every scheme of the definition table, in the form that needs no further slashes
TAGS = ["span", "div", "b", "small", "ref", "code", "center", "s", "DIV", "Span", "Ref", "SUP", "bLoCkQuOtE", "tr", "td", "th", "li", "dd", "dt", "p", "poem"]
UNPARSED = ["nowiki", "pre", "math", "source", "NoWiki", "PRE", "timeline", "gallery", "section", "hiero", "syntaxhighlight", "score", "categorytree", "ce", "chem", "graph", "imagemap", "inputbox", "templatedata"]
SINGLE = ["br", "hr", "wbr", "BR", "Hr", "img", "link", "meta", "Img"]
ENTS = [("amp", True, False, "x"), ("nbsp", True, False, "x"), ("Sigma", True, False, "x"), ("sup2", True, False, "x"), ("frac12", True, False, "x"),
        ("there4", True, False, "x"), ("thetasym", True, False, "x"), ("1114111", False, False, "x"), ("10FFFF", False, True, "x"), ("00065", False, False, "x"), ("107", False, False, "x"),
        ("1F", False, True, "x"), ("e9", False, True, "X")]


def W(nodes):
    from mwparserfromhell.smart_list import SmartList
    from mwparserfromhell.wikicode import Wikicode
    return Wikicode(SmartList(nodes))


def T(s):
    from mwparserfromhell.nodes import Text
    return Text(s)


def merge(nodes):
    """adjacent Text nodes merge in the source text"""
    from mwparserfromhell.nodes import Text
    out = []
    for n in nodes:
        if isinstance(n, Text) and out and isinstance(out[-1], Text):
            out[-1] = Text(out[-1].value + n.value)
        else:
            out.append(n)
    return out


class Gen:
    def __init__(self, rng, skip_style):
        self.rng = rng
        self.skip = skip_style
        self.kinds = set()

    def word(self):
        return self.rng.choice(WORDS)

    def namey(self, words, tpl=False):
        """the nodes of a name / key / title: a word, or 2-3 adjacent pieces among words, templates and arguments
        (markup in names is well formed; two templates may touch); a template's name may also be just a nested template
        or argument with white space / a comment around it"""
        from mwparserfromhell.nodes import Argument, Comment, Template
        rng = self.rng
        if tpl and rng.random() < 0.12:
            self.kinds.add("nested template as a whole name")
            inner = Template(W([T(rng.choice(["n", "m m"]))]), []) if rng.random() < 0.7 else Argument(W([T("1")]))
            pre, post = rng.choice([(" ", " "), ("\n", "\n"), (" ", ""), ("", " "), ("", "\n")])
            out = ([T(pre)] if pre else []) + ([Comment(" c ")] if rng.random() < 0.2 else []) + [inner] + ([T(post)] if post else [])
            return out
        if rng.random() < 0.6:
            return [T(rng.choice(words))]
        self.kinds.add("markup in a name")
        out = []
        for _ in range(rng.randint(2, 3)):
            c = rng.random()
            if c < 0.4:
                out.append(T(rng.choice(words).strip() or "w"))
            elif c < 0.8:
                out.append(Template(W([T(rng.choice(["n", "m m"]))]), []))
            else:
                out.append(Argument(W([T(rng.choice(["1", "arg"]))])))
        return merge(out)

    def inline(self, depth, nolinks=False, width=None, nostyle=False):
        """a list of nodes (well-formed, inline)"""
        from mwparserfromhell.nodes import Tag
        rng = self.rng
        n = rng.randint(1, 3) if width is None else width
        nodes = []
        styles = ("''", "'''")
        for _ in range(n):
            x = self.node(depth, nolinks, nostyle)
            is_style = isinstance(x, Tag) and x.wiki_markup in styles
            if is_style and nodes and isinstance(nodes[-1], Tag) and nodes[-1].wiki_markup in styles:
                nodes.append(T(" " + self.word()))     # style runs are never adjacent to another apostrophe
            bare = type(x).__name__ == "ExternalLink" and not x.brackets
            if bare and nodes:
                nodes.append(T(" "))
            nodes.append(x)
            last = _ == n - 1
            if bare and not last:
                nodes.append(T(" " + self.word()))      # white space ends a bare link (at the very end the enclosing construct does)
            elif not bare and rng.random() < 0.5:
                nodes.append(T(" " + self.word() if rng.random() < 0.5 else self.word()))
        return merge(nodes)

    def node(self, depth, nolinks, nostyle=False):
        from mwparserfromhell.nodes import (Argument, Comment, ExternalLink, HTMLEntity, Tag, Template, Wikilink)
        from mwparserfromhell.nodes.extras import Attribute, Parameter
        rng = self.rng
        c = rng.random()
        if depth <= 0 or c < 0.2:
            return T(self.word())
        if c < 0.36:
            self.kinds.add("template")
            params = []
            pos = 1
            for _ in range(rng.randint(0, 3)):
                if rng.random() < 0.5:
                    params.append(Parameter(W([T(str(pos))]), W(self.inline(depth - 1, nolinks)), showkey=False))
                    pos += 1
                else:
                    params.append(Parameter(W(self.namey(["k", "key ", " n1", "2x"])), W(self.inline(depth - 1, nolinks)), showkey=True))
            return Template(W(self.namey(["t", "tpl ", "Cite web", "a_b"], tpl=True)), params)
        if c < 0.42:
            self.kinds.add("argument")
            if rng.random() < 0.5:
                return Argument(W(self.namey(["1", "arg"])), W(self.inline(depth - 1, nolinks)))
            return Argument(W(self.namey(["1", "arg"])))
        if c < 0.52 and not nolinks:
            self.kinds.add("wikilink")
            if rng.random() < 0.5:
                return Wikilink(W(self.namey(["Page", "File:x.png", "a#b"])), W(self.inline(depth - 1, True)))
            return Wikilink(W(self.namey(["Page", "Cat:é"])))
        if c < 0.6 and not nolinks:
            self.kinds.add("external link")
            url = W([T(rng.choice(["http://", "https://", "ftp://", "mailto:", "//"] + ALL_SCHEMES) + rng.choice(["example.com", "a.b/c?d=e"]))])
            r = rng.random()
            if r < 0.25 and not str(url).startswith("//"):
                # a bare link: it starts after a non-word character and runs up to white space or to the closer / separator of
                # the construct around it; no '=' in it (that would be a parameter name's end, a heading's end)
                self.kinds.add("bare external link")
                url = W([T(str(url).split("example.com")[0].split("a.b/")[0] + rng.choice(["example.com", "a.b/c", "x.org/~u"]))])
                return ExternalLink(url, brackets=False)
            if r < 0.75:
                return ExternalLink(url, W(self.inline(depth - 1, True)), brackets=True)
            return ExternalLink(url, brackets=True)
        if c < 0.66:
            self.kinds.add("comment")
            return Comment(rng.choice(["", " c ", "x-y", "{{not}} [[parsed]]"]))
        if c < 0.73:
            self.kinds.add("entity")
            v, named, hexa, hc = rng.choice(ENTS)
            return HTMLEntity(v, named=named, hexadecimal=hexa, hex_char=hc)
        if c < 0.86:
            self.kinds.add("tag")
            name = rng.choice(TAGS)
            attrs = []
            nattrs = rng.randint(0, 2)
            last_valueless = False
            for ai in range(nattrs):
                k = rng.choice(["id", "class", "style", "name"])
                if ai == nattrs - 1 and rng.random() < 0.25:
                    # a valueless attribute owns the whitespace that follows it: only generated last
                    attrs.append(Attribute(W([T(k)]), None, None, " ", rng.choice(["", " "]), ""))
                    last_valueless = True
                    continue
                val = rng.choice([[T("x")], [T("a b")], [], None])
                if val is None:   # nested markup in a value: templates only (entities/comments are not parsed there)
                    val = [Template(W([T("t")]), [])] if rng.random() < 0.5 else [T("v"), Template(W([T("Cite web")]), [])]
                txt = "".join(str(v) for v in val)
                needq = (" " in txt) or not txt or rng.random() < 0.5
                q = rng.choice(['"', "'"]) if needq else None
                attrs.append(Attribute(W([T(k)]), W(val), q, rng.choice([" ", "  "]), rng.choice(["", " "]) if q else "",
                                       rng.choice(["", " "]) if q else ""))
            pad = "" if last_valueless else rng.choice(["", " "])
            if rng.random() < 0.15:
                return Tag(W([T(name)]), None, attrs, self_closing=True, padding=pad)
            return Tag(W([T(name)]), W(self.inline(depth - 1, nolinks)), attrs, padding=pad,
                       closing_tag=W([T(name)]))
        if c < 0.9:
            self.kinds.add("unparsed tag")
            name = rng.choice(UNPARSED)
            raw = rng.choice(["raw {{x}} [[y]]", "a b", "x ''y''"])
            return Tag(W([T(name)]), W([T(raw)]), closing_tag=W([T(name)]))
        if c < 0.94:
            self.kinds.add("single tag")
            name = rng.choice(SINGLE)
            if rng.random() < 0.5:
                return Tag(W([T(name)]), None, self_closing=True, implicit=True)
            return Tag(W([T(name)]), None, self_closing=True, padding=rng.choice(["", " "]))
        if not self.skip and not nostyle:
            self.kinds.add("style")
            tg, mk = rng.choice([("i", "''"), ("b", "'''")])
            body = [T(self.word())]
            if rng.random() < 0.5:
                inner = self.node(depth - 1, nolinks, True)
                if type(inner).__name__ == "ExternalLink" and not inner.brackets:
                    body.append(T(" "))
                body += [inner, T(" " + self.word())]
            return Tag(W(([T(tg)])), W(merge(body)), wiki_markup=mk, closing_tag=W([T(tg)]))
        return T(self.word())

    def document(self, depth):
        from mwparserfromhell.nodes import Heading, Tag
        rng = self.rng
        nodes = []
        for _ in range(rng.randint(1, 4)):
            c = rng.random()
            if c < 0.3:
                self.kinds.add("heading")
                lvl = rng.randint(1, 6)
                nodes += [T("\n"), Heading(W(merge([T(" ")] + self.inline(min(depth, 1), False) + [T(" ")])), lvl), T("\n")]
            elif c < 0.45:
                self.kinds.add("list")
                mk = rng.choice(["*", "#", ":", "**", "*#"])
                nodes.append(T("\n"))
                for ch in mk:
                    tg = "dd" if ch == ":" else "li"
                    nodes.append(Tag(W([T(tg)]), None, wiki_markup=ch, self_closing=True, closing_tag=W([T(tg)])))
                nodes += merge([T(" ")] + self.inline(depth - 1)) + [T("\n")]
            elif c < 0.52:
                self.kinds.add("rule")
                nodes += [T("\n"), Tag(W([T("hr")]), None, wiki_markup=rng.choice(["----", "-----"]), self_closing=True,
                                       closing_tag=W([T("hr")])), T("\n")]
            else:
                nodes += self.inline(depth) + [T("\n")]
        return merge(nodes)


TABLES = ["{| class=\"wikitable\"\n|-\n| QQQ\n| b\n|}", "{|\n! h !! QQQ\n|-\n| style=\"x\" | QQQ || c\n|}", "{|\n|+ cap\n|-\n|QQQ\n|}"]


def substitute(code, nodes_for_hole):
    """expected tree of C[X] from the tree of C[QQQ]"""
    from mwparserfromhell.nodes import Text
    import copy

    def sub_list(lst):
        out = []
        for n in lst:
            if isinstance(n, Text) and "QQQ" in n.value:
                parts = n.value.split("QQQ")
                for i, p in enumerate(parts):
                    if p:
                        out.append(Text(p))
                    if i < len(parts) - 1:
                        out += copy.deepcopy(nodes_for_hole)
            else:
                for ch in n.__children__():
                    ch.nodes = sub_list(list(ch.nodes))
                out.append(n)
        return merge(out)
    code.nodes = sub_list(list(code.nodes))
    return code


def one_case(seed):
    import tokharness
    st = tokharness.setup()
    rng = random.Random(seed)
    skip = rng.random() < 0.3
    g = Gen(rng, skip)
    depth = rng.randint(1, 4)
    mode = rng.random()
    if mode < 0.8:
        tree = W(g.document(depth))
        text = str(tree)
        expected = buildcorr.pcode(tree)
    else:
        g.kinds.add("table")
        hole = g.inline(min(depth, 2))
        skel = rng.choice(TABLES)
        text = skel.replace("QQQ", "".join(str(n) for n in hole))
        base = st["builder"]().build(st["py"]().tokenize(skel, 0, skip))
        expected = buildcorr.pcode(substitute(base, hole))
    fails = []
    for which in ("py", "c"):
        cls = st[which]
        if cls is None:
            continue
        try:
            code = st["builder"]().build(cls().tokenize(text, 0, skip))
            got = buildcorr.pcode(code)
        except Exception as e:  # noqa: BLE001
            fails.append("%s: parse raised %r" % (which, e))
            continue
        if got != expected:
            k = next((i for i in range(min(len(got), len(expected))) if got[i] != expected[i]), min(len(got), len(expected)))
            fails.append("%s: parsed tree differs at %d: ...%s vs expected ...%s" % (which, k, got[max(0, k - 60):k + 60], expected[max(0, k - 60):k + 60]))
    return text, skip, sorted(g.kinds), depth, fails


def _work(seeds):
    return [one_case(s) for s in seeds]


def _long_documents():
    """tables of R x C cells (plain and styled) and long runs of other constructs, followed by nested markup: the counts
    of recognised constructs must be exactly what was written - with both tokenizers"""
    import tokharness
    st = tokharness.setup()
    fails = []
    tail = "{{done|{{yes|[[link]]}}}}<b>''x''</b>"
    docs = []
    for r, cc in ((5, 10), (10, 10), (12, 10), (25, 8)):
        for style in ("", "style=x | "):
            rows = "".join("|-\n" + " || ".join("| " * (j == 0) + style + "r%dc%d" % (i, j) for j in range(cc)) + "\n" for i in range(r))
            docs.append(("table %dx%d%s" % (r, cc, " styled" if style else ""), "{|\n" + rows + "|}\n" + tail, {"td": r * cc, "tr": r, "table": 1}))
    for name, unit, tag in (("120 list items", "* item {{t}}\n", "li"), ("150 rules", "----\n", "hr"), ("130 bold runs", "'''b''' ", "b"),
                            ("110 dl terms", "; t : d\n", "dt")):
        k = int(name.split()[0])
        docs.append((name, unit * k + tail, {tag: k}))
    for name, text, want in docs:
        for which in ("py", "c"):
            if st[which] is None:
                continue
            try:
                code = st["builder"]().build(st[which]().tokenize(text))
            except Exception as e:  # noqa: BLE001
                fails.append(("%s: %s raises %r" % (which, name, e), {"text": text, "tokenizer": which}))
                continue
            tags = {}
            for t in code.filter_tags():
                tags[str(t.tag)] = tags.get(str(t.tag), 0) + 1
            for tg, k in want.items():
                extra = 1 if tg == "b" else 0          # the tail has one <b>
                if tags.get(tg, 0) != k + extra:
                    fails.append(("%s: %s: %d <%s> elements recognised, %d written" % (which, name, tags.get(tg, 0) - extra, tg, k), {"text": text, "tokenizer": which}))
            if len(code.filter_templates()) != 2 + (120 if name == "120 list items" else 0) or len(code.filter_wikilinks()) != 1:
                fails.append(("%s: %s: the nested markup after it is not recognised (%d templates, %d links)" % (
                    which, name, len(code.filter_templates()), len(code.filter_wikilinks())), {"text": text, "tokenizer": which}))
    return 2 * len(docs), fails


def run(tier, seed):
    c = vlib.Check("C03", tier, seed, "proof")
    c.prove("C03.v")
    import tokharness
    tokharness.setup()
    n = 20000 if tier == "quick" else 1000000
    seeds = [seed * 5000011 + i for i in range(n)]
    res = vlib.robust_map(_work, seeds, chunk=300, timeout=240)
    nontrivial = set()
    kinds_count = {}
    for s, r in zip(seeds, res):
        c.cov["evaluations"] += 1
        if isinstance(r, tuple) and r and r[0] in ("CRASH", "TIMEOUT", "PYEXC"):
            c.fail("generated case %s: %s" % (r[0], str(r[1])[:300]), {"seed": s, "outcome": r[0]})
            continue
        text, skip, kinds, depth, fails = r
        for k in kinds:
            kinds_count[k] = kinds_count.get(k, 0) + 1
        if len(kinds) >= 2 and depth >= 2:
            nontrivial.add(text)
        for f in fails:
            c.fail(f, {"seed": s, "text": text, "skip_style_tags": skip, "tokenizer": f.split(":")[0]})
    # ---- long documents: many constructs one after another (each must give back what it took: depth, contexts)
    ndocs, long_fails = _long_documents()
    c.cov["evaluations"] += ndocs
    c.notes["long_documents"] = ndocs
    for f, data in long_fails:
        c.fail(f, data)
    c.cov["distinct_nontrivial"] = len(nontrivial)
    c.cov["rule"] = ("trees generated as real node objects from a grammar (templates with positional/named parameters, arguments, wikilinks, "
                     "bracketed external links, headings, comments, entities, HTML tags with quoted/unquoted/valueless attributes, self-closing and "
                     "single tags, unparsed tags, bold/italic, list items, rules; leaf text without markup characters; no links inside links; "
                     "headings/lists/rules at line start; depth <= 4, width <= 4) rendered with str() and parsed by both tokenizers; tables by "
                     "substituting generated inline code into 3 table skeletons; 12 long documents (tables of 50-200 cells, 110-150 list items / rules / bold runs / "
                     "terms followed by nested markup: element counts must be exact); skip_style_tags 30% (style constructs excluded); "
                     "non-trivial = >= 2 construct kinds and depth >= 2; distinct by rendered text")
    c.cov["samples"] = [r[0] for r in res[:3] if not (isinstance(r, tuple) and r[0] in ("CRASH", "TIMEOUT", "PYEXC"))]
    c.notes["construct_kind_counts"] = kinds_count
    c.assumptions += ["tokenizer completeness (tokenize(render t) = fl_code t) is validated by testing, not proved",
                      "free (unbracketed) external links and definition-list terms are not generated",
                      "table cases use the parser's own tree of the skeleton as the context (substitution property)"]
    return c.finish()


def replay(data):
    d = data["data"]
    r = one_case(d["seed"])
    print(r)
    return 1 if r[4] else 0
