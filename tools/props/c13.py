"""C13 - SmartList and its sub-lists behave like lists and keep views consistent.

Proof: coq/props/C13.v.  Tie: histories of list operations are applied to real SmartList /
ListProxy objects from /repo and to the extracted Coq model (coq/SmartList.v); after every
step the result (or exception), the parent and every view (bounds and contents) are compared.
The plain-list specification (coq/PyList.v) is tied to CPython's list the same way.
The property's own oracle is evaluated on the implementation after every step.
"""
import random

import vlib

NONE = 99999
OPS = ["append", "extend", "iadd", "insert", "pop", "remove", "getitem", "setitem", "delitem",
       "setslice", "delslice", "reverse", "sort", "index", "len", "getslice"]
CODE = {n: i for i, n in enumerate(OPS)}


def enc_opt(x):
    return NONE if x is None else x


# list methods that are compositions of modelled operations: clear() = del l[:], l *= n (n <= 0) = del l[:],
# l *= 1 = nothing, l.copy() = a plain read.  They are run as themselves on the implementation and as the
# composition in the model.
ALIAS = {"clear": ("delslice", None, None), "imul0": ("delslice", None, None), "imulneg": ("delslice", None, None),
         "imul1": ("extend", ()), "copy": ("len",)}


def encode_action(tgt, op):
    if op[0] in ALIAS:
        op = ALIAS[op[0]]
    k = op[0]
    c = [tgt, CODE[k]]
    if k == "append":
        c += [op[1]]
    elif k in ("extend", "iadd"):
        c += [len(op[1])] + list(op[1])
    elif k == "insert":
        c += [op[1], op[2]]
    elif k == "pop":
        c += [enc_opt(op[1])]
    elif k in ("remove", "getitem", "delitem", "index"):
        c += [op[1]]
    elif k == "setitem":
        c += [op[1], op[2]]
    elif k == "setslice":
        c += [enc_opt(op[1]), enc_opt(op[2]), len(op[3])] + list(op[3])
    elif k in ("delslice", "getslice"):
        c += [enc_opt(op[1]), enc_opt(op[2])]
    return c


def apply_op(lst, op):
    """Apply op to a list-like object; ('none'|'val x'|'int n'|'exc Name', extra)."""
    k = op[0]
    try:
        if k == "clear":
            lst.clear(); return "none", None
        if k in ("imul0", "imulneg", "imul1"):
            lst *= {"imul0": 0, "imulneg": -2, "imul1": 1}[k]; return "none", None
        if k == "copy":
            cp = lst.copy()
            if type(cp) is not list and not isinstance(cp, list) or list(cp) != list(lst):
                raise AssertionError("copy() returned %r for %r" % (cp, list(lst)))
            return "int %d" % len(lst), None
        if k == "append":
            lst.append(op[1]); return "none", None
        if k == "extend":
            lst.extend(list(op[1])); return "none", None
        if k == "iadd":
            lst += list(op[1]); return "none", None
        if k == "insert":
            lst.insert(op[1], op[2]); return "none", None
        if k == "pop":
            return "val %d" % (lst.pop() if op[1] is None else lst.pop(op[1])), None
        if k == "remove":
            lst.remove(op[1]); return "none", None
        if k == "getitem":
            return "val %d" % lst[op[1]], None
        if k == "setitem":
            lst[op[1]] = op[2]; return "none", None
        if k == "delitem":
            del lst[op[1]]; return "none", None
        if k == "setslice":
            lst[op[1]:op[2]] = list(op[3]); return "none", None
        if k == "delslice":
            del lst[op[1]:op[2]]; return "none", None
        if k == "reverse":
            lst.reverse(); return "none", None
        if k == "sort":
            lst.sort(); return "none", None
        if k == "index":
            return "int %d" % lst.index(op[1]), None
        if k == "len":
            return "int %d" % len(lst), None
        if k == "getslice":
            return "slice", lst[op[1]:op[2]]
    except (IndexError, ValueError) as e:
        return "exc " + type(e).__name__, None
    raise AssertionError(k)


def show_list(l):
    return "[" + ",".join(map(str, l)) + "]"


def show_state(parent, views):
    vs = []
    for v in views:
        si = v._sliceinfo
        try:
            rd = show_list(list(v))
        except IndexError:
            rd = "EXC"
        vs.append("%d %s %s" % (si[0], "N" if si[1] is None else si[1], rd))
    return show_list(list(parent)) + " | " + " / ".join(vs)


def run_history(hist):
    """hist = (n0, [(tgt, op), ...]).  Returns (impl record string, oracle failure or None,
    nontrivial flag)."""
    from mwparserfromhell.smart_list import SmartList
    n0, acts = hist
    parent = SmartList(list(range(n0)))
    views = []
    recs = []
    failure = None
    nontrivial = False
    for step, (tgt, op) in enumerate(acts):
        T = parent if tgt < 0 else views[tgt]
        # ---------------- snapshot for the oracle
        snap = None
        if failure is None:
            try:
                before_T = list(T)
                snap = [(list(v), v._start, v._stop, list(v._parent), v._parent) for v in views]
            except Exception as e:  # reading a live view raised
                failure = (step, "reading a live sub-list raised %r" % (e,))
        # ---------------- the operation on the real object
        try:
            res, extra = apply_op(T, op)
        except Exception as e:
            res, extra = "exc! " + type(e).__name__, None
            if failure is None:
                failure = (step, "unexpected exception %r" % (e,))
        if op[0] == "getslice" and res == "slice":
            views.append(extra)
            res = "view %d" % (len(views) - 1)
        recs.append(res + " | " + show_state(parent, views))
        # ---------------- oracle: the property itself
        if failure is None and snap is not None:
            shadow = list(before_T)
            exp, eextra = apply_op(shadow, op)
            if op[0] == "getslice":
                if list(extra) != eextra:
                    failure = (step, "slice read differs from list: %r vs %r" % (list(extra), eextra))
            elif exp != res:
                failure = (step, "result differs from list: %r vs %r" % (res, exp))
            else:
                try:
                    after_T = list(T)
                except Exception as e:
                    after_T = None
                    failure = (step, "reading the target after the operation raised %r" % (e,))
                if after_T is not None and after_T != shadow:
                    failure = (step, "content differs from list: %r vs %r" % (after_T, shadow))
            reorder = op[0] in ("reverse", "sort")
            if failure is None and tgt >= 0 and not reorder and op[0] != "getslice":
                _c, s, e, pb, _p = snap[tgt]
                if list(T._parent) != pb[:s] + shadow + pb[e:]:
                    failure = (step, "parent does not reflect the edit at the sub-list's offset")
            if failure is None:
                for j, v in enumerate(views[:len(snap)]):
                    if j == tgt:
                        continue
                    old, os_, oe, pb, pobj = snap[j]
                    try:
                        cur = list(v)
                    except Exception as e:
                        failure = (step, "sub-list %d cannot be read: %r" % (j, e))
                        break
                    par = list(v._parent)
                    s, e = v._start, v._stop
                    if not (0 <= s <= e <= len(par)) or cur != par[s:e]:
                        failure = (step, "sub-list %d is no longer a slice of its parent: [%s:%s] of %r" % (j, s, e, par))
                        break
                    same_store = (tgt < 0 and pobj is parent) or (tgt >= 0 and pobj is snap[tgt][4])
                    if same_store and op[0] not in ("getitem", "index", "len", "getslice"):
                        nontrivial = True
                    if reorder:
                        if tgt < 0 and sorted(cur) != sorted(old):
                            failure = (step, "sub-list %d lost elements when the parent was reordered" % j)
                            break
                        continue
                    surv = [x for x in old if x in par]
                    kept = [x for x in cur if x in old]
                    if surv != kept:
                        failure = (step, "sub-list %d does not contain exactly its survivors: had %r now %r parent %r" % (j, old, cur, par))
                        break
                    if any(x in pb for x in cur if x not in old):
                        failure = (step, "sub-list %d gained an element from outside: had %r now %r" % (j, old, cur))
                        break
    return " ; ".join(recs) + " ; ", failure, nontrivial


def run_plain(hist):
    n0, acts = hist
    l = list(range(n0))
    recs = []
    for _t, op in acts:
        res, extra = apply_op(l, op)
        if op[0] == "getslice":
            recs.append("slice " + show_list(extra))
        else:
            recs.append(res + " | " + show_list(l))
    return " ; ".join(recs) + " ; "


def encode(hist, plain=False):
    n0, acts = hist
    out = [n0, len(acts)]
    for tgt, op in acts:
        out += encode_action(-2 if plain else tgt, op)
    return " ".join(map(str, out))


# ------------------------------------------------------------------ generators

def all_ops(n, fresh):
    """Every operation with indices in [-n-2, n+2] (plus None) on a list of length n."""
    rng_i = list(range(-n - 2, n + 3))
    rng_o = [None] + rng_i
    ops = [("append", fresh), ("extend", (fresh, fresh + 1)), ("iadd", (fresh,)), ("extend", ()),
           ("reverse",), ("sort",), ("len",), ("pop", None)]
    for i in rng_i:
        ops += [("insert", i, fresh), ("pop", i), ("getitem", i), ("setitem", i, fresh), ("delitem", i)]
    for x in range(0, n + 1):
        ops += [("remove", x), ("index", x)]
    for a in rng_o:
        for b in rng_o:
            ops += [("delslice", a, b), ("setslice", a, b, ()), ("setslice", a, b, (fresh,)),
                    ("setslice", a, b, (fresh, fresh + 1)), ("getslice", a, b)]
    return ops


def exhaustive_histories(nmax):
    """parent of size n <= nmax, two views with every normalised layout (plus some raw
    out-of-range / negative bounds), then ONE operation on parent / view 0 / view 1."""
    hs = []
    for n in range(0, nmax + 1):
        bounds = [(a, b) for a in range(0, n + 1) for b in range(a, n + 1)] + [(a, None) for a in range(0, n + 1)]
        bounds += [(-1, None), (None, -1), (n + 2, None), (-n - 3, n + 5), (2, 1)]
        for v0 in bounds:
            for v1 in bounds:
                pre = [(-1, ("getslice", v0[0], v0[1])), (-1, ("getslice", v1[0], v1[1]))]
                for tgt in (-1, 0, 1):
                    ln = n if tgt < 0 else None
                    for op in all_ops(n if ln is not None else n, 100):
                        hs.append((n, pre + [(tgt, op)]))
    return hs


def gen_op(rng, n, fresh):
    def r():
        return rng.choice([None, None] + list(range(-n - 3, n + 4)))

    def i():
        return rng.randint(-n - 3, n + 3)
    k = rng.choice(OPS)
    if rng.random() < 0.06:
        return (rng.choice(["clear", "imul0", "imulneg", "imul1", "copy"]),)
    if k == "append":
        return (k, fresh)
    if k in ("extend", "iadd"):
        return (k, tuple(range(fresh, fresh + rng.randint(0, 3))))
    if k == "insert":
        return (k, i(), fresh)
    if k == "pop":
        return (k, rng.choice([None, i()]))
    if k in ("remove", "index"):
        return (k, rng.randint(0, 14))
    if k in ("getitem", "delitem"):
        return (k, i())
    if k == "setitem":
        return (k, i(), fresh)
    if k in ("getslice", "delslice"):
        return (k, r(), r())
    if k == "setslice":
        return (k, r(), r(), tuple(range(fresh, fresh + rng.randint(0, 3))))
    return (k,)


def random_history(rng, nops):
    n0 = rng.randint(0, 6)
    acts = []
    nviews = 0
    fresh = 100
    size = n0
    for _ in range(rng.randint(0, 3)):
        a = rng.choice([None] + list(range(-n0 - 2, n0 + 3)))
        b = rng.choice([None] + list(range(-n0 - 2, n0 + 3)))
        acts.append((-1, ("getslice", a, b)))
        nviews += 1
    for _ in range(nops):
        tgt = rng.randint(-1, nviews - 1)
        op = gen_op(rng, size, fresh)
        fresh += 3
        if op[0] == "getslice":
            if nviews >= 5:
                continue
            nviews += 1
        if op[0] in ("append", "insert"):
            size += 1
        acts.append((tgt, op))
    return (n0, acts)


def _worker(hists):
    out = []
    for h in hists:
        rec, failure, nt = run_history(h)
        out.append((rec, failure, nt, run_plain(h)))
    return out


def histories(tier, seed):
    rng = random.Random(seed * 104729 + 13)
    hs = exhaustive_histories(2 if tier == "quick" else 3)
    nrand = 20000 if tier == "quick" else 600000
    for _ in range(nrand):
        hs.append(random_history(rng, rng.randint(1, 12)))
    return hs


def run(tier, seed):
    c = vlib.Check("C13", tier, seed, "proof")
    vlib.pure_python_parser()
    c.prove("C13.v")
    hs = histories(tier, seed)
    results = [r for ch in vlib.pmap(_worker, vlib.chunked(hs, 64)) for r in ch]
    try:
        model = vlib.model_run("smartlist", [encode(h) for h in hs])
        model_plain = vlib.model_run("smartlist", [encode(h, plain=True) for h in hs])
    except Exception as e:
        model = model_plain = None
        c.broken.append({"file": "coq/extract/smartlist_run", "line": 0, "statement": "sl_step (extracted)", "error": str(e)})
    dis = dis_plain = 0
    nontrivial = set()
    for k, (h, (rec, failure, nt, plain)) in enumerate(zip(hs, results)):
        c.cov["evaluations"] += 1
        if nt:
            nontrivial.add(encode(h))
        if failure:
            c.fail(failure[1], {"history": repr(h), "step": failure[0]})
        if model is not None:
            c.cov["traces_validated_against_impl"] += 1
            if model[k].strip() != rec.strip():
                dis += 1
                if dis <= 3 and not failure:
                    c.broken.append({"file": "correspondence SmartList", "line": 0, "statement": "sl_step (model tie)",
                                     "error": "history %r: model %r vs implementation %r" % (h, model[k], rec)})
            if model_plain[k].strip() != plain.strip():
                dis_plain += 1
                if dis_plain <= 3:
                    c.broken.append({"file": "correspondence PyList", "line": 0, "statement": "list_step (spec tie to CPython list)",
                                     "error": "history %r: spec %r vs list %r" % (h, model_plain[k], plain)})
    import liveval
    lv = vlib.robust_map(liveval.work, [0], chunk=1, timeout=300)[0]
    if isinstance(lv, tuple) and lv and lv[0] in ("CRASH", "TIMEOUT", "PYEXC"):
        c.fail("live-value probe %s: %s" % (lv[0], str(lv[1])[:300]), {"probe": "live-value"})
    else:
        c.cov["evaluations"] += lv[1]
        for msg in lv[0][:12]:
            c.fail(msg, {"probe": "live-value", "what": msg})
    c.cov["distinct_nontrivial"] = len(nontrivial)
    c.cov["rule"] = ("exhaustive: parent size <= %d x two views in every normalised layout (+ raw negative/out-of-range bounds) x one "
                     "operation of every kind with every index in [-n-2, n+2] on parent / view 0 / view 1; random: histories of up to "
                     "12 operations (incl. slicing new views, up to 5) on parents of size <= 6; after EVERY step result, parent and all views "
                     "(bounds + contents) are compared with the Coq model, and the property oracle runs on the implementation. "
                     "non-trivial = a mutating step while another live view shares the store; distinct by encoded history"
                     % (2 if tier == "quick" else 3))
    c.cov["samples"] = [{"history": repr(hs[i]), "trace": results[i][0][:300]} for i in (7, len(hs) // 2, len(hs) - 1)]
    c.notes["model_impl_disagreements"] = dis
    c.notes["spec_vs_cpython_list_disagreements"] = dis_plain
    c.assumptions += ["elements are distinct integers in the correspondence (the theorems are for any element type)",
                      "extended slices (step != 1), __mul__/__imul__, comparison operators and pickling are outside this model",
                      "garbage collection of views (weakref callbacks) is not modelled: all views stay alive"]
    return c.finish()


def replay(data):
    if isinstance(data.get("data"), dict) and str(data["data"].get("probe", "")).startswith("live-value"):
        import liveval
        f, _n = getattr(liveval, "work")([0])[0]
        print("\n".join(f[:12]))
        return 1 if f else 0
    h = eval(data["data"]["history"])
    rec, failure, _nt = run_history(h)
    print("history", h)
    print("trace", rec)
    print("failure", failure)
    return 1 if failure else 0
