"""C19 - independent parsers can run concurrently in threads without interference.  PARTIAL.

Proof: coq/props/C19.v (interleaving theorem + generated state-ownership facts).
Validated: N threads each parse their own inputs with their own parser objects at a 1 microsecond
switch interval; every result is compared with the sequential result; both tokenizers.
"""
import random
import sys
import threading

import vlib
import wikigen


def _stress(args):
    import tokharness
    st = tokharness.setup()
    from mwparserfromhell.parser.builder import Builder
    seed, nthreads, per_thread = args[0]
    rng = random.Random(seed)
    # a quarter of the inputs backtrack heavily (unclosed / crossed openers): failing routes are where tokenizers would share scratch state
    from props.c05 import FAMILIES
    fams = sorted(FAMILIES)

    def one_input():
        if rng.random() < 0.25:
            return FAMILIES[rng.choice(fams)](rng.randint(3, 24))[:600]
        return wikigen.any_input(rng, "small" if rng.random() < 0.8 else "large")
    inputs = [[one_input() for _ in range(per_thread)] for _ in range(nthreads)]
    which = ["api" if i % 3 == 2 else ("py" if (i % 2 == 0 or st["c"] is None) else "c") for i in range(nthreads)]
    import mwparserfromhell

    # every thread has its own options too: an option is per-call state like everything else
    skips = [i % 4 in (1, 2) for i in range(nthreads)]

    def parse_one(w, text, skip=False):
        if w == "api":      # the public entry point: a new Parser per call, default tokenizer
            code = mwparserfromhell.parse(text, skip_style_tags=skip)
            return str(code) + "|" + code.get_tree()
        toks = st[w]().tokenize(text, 0, skip)
        return str(Builder().build(toks)) + "|" + repr(tokharness.canon(st[w]().tokenize(text, 0, skip)))
    expected = [[parse_one(which[i], t, skips[i]) for t in inputs[i]] for i in range(nthreads)]
    results = [[None] * per_thread for _ in range(nthreads)]
    inside = [0]
    overlap = [0]
    errors = []
    lock = threading.Lock()

    def worker(i):
        for j, t in enumerate(inputs[i]):
            with lock:
                inside[0] += 1
                if inside[0] >= 2:
                    overlap[0] += 1
            try:
                results[i][j] = parse_one(which[i], t, skips[i])
            except Exception as e:  # noqa: BLE001
                errors.append((i, j, repr(e)))
            with lock:
                inside[0] -= 1
    old = sys.getswitchinterval()
    sys.setswitchinterval(1e-6)
    try:
        ths = [threading.Thread(target=worker, args=(i,)) for i in range(nthreads)]
        for t in ths:
            t.start()
        for t in ths:
            t.join()
    finally:
        sys.setswitchinterval(old)
    bad = []
    for i in range(nthreads):
        for j in range(per_thread):
            if results[i][j] != expected[i][j]:
                bad.append((which[i], inputs[i][j]))
    return [(len(bad), bad[:2], errors[:2], overlap[0], nthreads * per_thread)]


def run(tier, seed):
    c = vlib.Check("C19", tier, seed, "proof")
    c.prove("C19.v")
    import tokharness
    tokharness.setup()
    rounds = 12 if tier == "quick" else 200
    nthreads, per = (8, 250) if tier == "quick" else (16, 600)
    jobs = [(seed * 9000011 + r, nthreads, per) for r in range(rounds)]
    res = vlib.robust_map(_stress, jobs, chunk=1, timeout=600, procs=4)
    overlap_total = 0
    for job, r in zip(jobs, res):
        if isinstance(r, tuple) and r and r[0] in ("CRASH", "TIMEOUT", "PYEXC"):
            c.fail("thread stress round %s: %s" % (r[0], str(r[1])[:300]), {"seed": job[0], "threads": nthreads, "outcome": r[0]})
            continue
        nbad, bad, errors, overlap, total = r
        c.cov["evaluations"] += total
        overlap_total += overlap
        if nbad or errors:
            c.fail("a parse running concurrently with others gave a different result than alone: %r %r" % (bad, errors),
                   {"seed": job[0], "threads": nthreads, "examples": repr(bad), "errors": repr(errors)})
    c.cov["distinct_nontrivial"] = overlap_total
    c.cov["rule"] = ("%d rounds x %d threads x %d parses, each thread with its own inputs and its own tokenizer/Builder objects (every third thread: mwparserfromhell.parse(); even threads: "
                     "Python tokenizer, odd: C), switch interval 1e-6 s; every result compared with the sequential one; non-trivial = a parse "
                     "that started while >= 1 other thread was inside a parse (counted)" % (rounds, nthreads, per))
    c.cov["samples"] = [{"seed": j[0], "threads": j[1], "parses_per_thread": j[2]} for j in jobs[:2]]
    c.assumptions += ["the GIL / CPython thread safety / memory model are not modelled; the thread stress run is testing",
                      "generated lists: C file-scope variables and their writer functions, Python `global` statements (fail-closed text/AST scan)"]
    return c.finish()


def replay(data):
    d = data["data"]
    r = _stress([(d["seed"], d.get("threads", 8), 250)])
    print(r)
    return 1 if r[0][0] else 0
