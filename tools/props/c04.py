"""C04 - the C and Python tokenizers are interchangeable.

Proof: coq/props/C04.v on tables regenerated from BOTH sources on every run (contexts, tag contexts,
markers, limits, URI schemes, tag classes, token names, entity tables; lookup predicates for all
strings).  Not proved: equality of the two token streams - that is checked by differential
execution on table-driven and generated inputs.
"""
import headfrag
import tokprops
import vlib


def run(tier, seed):
    c = vlib.Check("C04", tier, seed, "proof")
    c.prove("C04.v")
    tokprops.run_stream(c, tier, seed, ("agree",),
                        "non-trivial = input contains markup characters or produced a non-Text token; distinct by (text, context, skip)")
    headfrag.run(c, tier, seed, ("pyc",))
    headfrag.run_entities(c, tier, seed, ("pyc",))
    headfrag.run_mixed(c, tier, seed, ("pyc",))
    c.assumptions += ["table generator: Python values by importing /repo's modules, C values by parsing #define / array initialisers (fail-closed)",
                      "token streams are compared by differential execution (testing), not proved equal",
                      "heading level: Python's float log2 formula vs the C shift loop is exercised by the heading inputs only"]
    return c.finish(explanation=None)


def replay(data):
    return tokprops.replay_text(data, ("agree",))
