"""C08 - editing a specific node changes exactly that node's span and nothing else.

Proof: coq/props/C08.v (node-list level; model tied to the implementation in C11's correspondence).
Oracle on parsed trees: every kind of target (any node at any depth incl. nodes whose text occurs
several times, a node of another tree, an index incl. negative / out of range, a string) x
insert_before / insert_after / replace / remove / insert / append / set x value types; the page text
must be the old text with exactly the target's span changed, all other nodes keep identity and
order, a missing target raises ValueError and changes nothing.
"""
import random

import vlib
from props import c09
import wikigen
from props import c11

MARK = "M"


def span_of(page, node):
    """(pre, post) such that str(page) == pre + str(node) + post, located by identity"""
    cls = type(node)
    marked = type("Marked" + cls.__name__, (cls,), {"__str__": lambda self: MARK})
    node.__class__ = marked
    try:
        s = str(page)
    finally:
        node.__class__ = cls
    if s.count(MARK) != 1:
        return None
    pre, post = s.split(MARK)
    return pre, post


def replaces_only_occurrences(old, new, s, r):
    """new is old with one or more pairwise disjoint occurrences of s replaced by r and nothing else changed
    (which occurrences are taken is not specified); trivially true when s == r"""
    n, m, k, kr = len(old), len(new), len(s), len(r)
    if not k:
        return False
    if s == r:
        return old == new
    # forward reachability over (position in old, position in new, some occurrence replaced)
    frontier = {(0, 0, False)}
    seen = set(frontier)
    while frontier:
        nxt = set()
        for (a, b, used) in frontier:
            if a == n and b == m and used:
                return True
            if a < n and b < m and old[a] == new[b]:
                # run ahead while the characters agree and no occurrence starts
                a2, b2 = a + 1, b + 1
                st = (a2, b2, used)
                if st not in seen:
                    seen.add(st)
                    nxt.add(st)
            if old.startswith(s, a) and new.startswith(r, b):
                st = (a + k, b + kr, True)
                if st not in seen:
                    seen.add(st)
                    nxt.add(st)
        frontier = nxt
    return False


def deletes_only_occurrences(old, new, s):
    return replaces_only_occurrences(old, new, s, "")


def make_value(rng, tag):
    import mwparserfromhell as M
    k = rng.random()
    if k < 0.08:
        v = rng.choice([None, b"by%s" % tag.encode(), ["l%s " % tag, "{{m%s}}" % tag], ()])
        return v, {type(None): "", bytes: (v.decode() if isinstance(v, bytes) else ""), list: ("".join(v) if isinstance(v, list) else ""), tuple: ""}[type(v)]
    if k < 0.14:
        # "anything parse_anything takes": a list holding a node, a one-shot iterator, a file-like object
        import io
        node = M.parse("{{w%s|x}}" % tag).nodes[0]
        v = rng.choice([[node, " t"], (x for x in ["g%s" % tag, "{{h}}"]), io.StringIO("f%s" % tag), iter(["i%s" % tag])])
        if isinstance(v, list):
            return v, str(node) + " t"
        if isinstance(v, io.StringIO):
            return v, "f%s" % tag
        return v, ("g%s{{h}}" % tag if hasattr(v, "gi_frame") else "i%s" % tag)
    if k < 0.35:
        v = rng.choice(["NEW%s" % tag, "{{n%s}}" % tag, "[[l%s]] z" % tag, "a{{b%s}}c" % tag, ""])
        return v, v
    if k < 0.5:
        n = rng.randint(0, 999)
        return n, str(n)
    if k < 0.75:
        w = M.parse("{{v%s|x}}" % tag)
        return w.nodes[0], str(w)
    w = M.parse("p{{q%s}}r" % tag)
    return w, str(w)


def one_case(seed):
    import mwparserfromhell as M
    rng = random.Random(seed)
    text = wikigen.gen_doc(rng, depth=rng.randint(1, 4))
    if rng.random() < 0.3:
        text = text + text[: len(text) // 2]          # repeated text: several nodes with equal rendering
    if rng.random() < 0.25:
        # a run of identical adjacent nodes: multi-node string targets overlap themselves there
        unit = rng.choice(["<br/>", "{{a}}", "[[b]]", "{{a}}b", "&amp;", "<!--c-->"])
        rep = unit * rng.randint(3, 5)
        text = rng.choice([rep + text, text + rep, "{{t|1=p" + rep + "q}}" + text, text + "x" + rep + "y"])
    if rng.random() < 0.15:
        text += rng.choice(["{{{title|}}} x", "{{t|k=}}", "{{t||a}}", "<b></b>", "{{box|head={{{title|}}}|body=b}}", "== ==\n"])      # empty child Wikicodes
    page = M.parse(text)
    nodes = page.filter()
    if not nodes:
        return text, None, None, False
    ops_done = []
    nested = False
    # live section views held across the edits (40% of the cases): they must stay what they were minus
    # what was removed, and they are edit targets themselves
    secs = []
    if rng.random() < 0.4:
        secs = page.get_sections(flat=rng.random() < 0.5, include_lead=True)[:6]
    for step in range(rng.randint(1, 4)):
        nodes = page.filter()
        if not nodes:
            break
        old = str(page)
        old_ids = [id(n) for n in nodes]
        keep_alive = list(nodes)
        kind = rng.random()
        val, vtext = make_value(rng, "%d_%d" % (seed % 1000, step))
        snap = c11.snapshot(page, secs) if secs else None
        if secs and rng.random() < 0.12:
            # ---- the VALUE is a live view of this page (a section, possibly the target itself or one that contains it) or
            # the page itself: what is inserted is what the value holds when the call is made
            v = rng.choice(secs + [page])
            vtext = str(v)
            cands = [x for x in secs if len(x.nodes)] + [n for n in page.nodes]
            tgt = rng.choice(cands)
            tn = list(tgt.nodes) if hasattr(tgt, "nodes") else [tgt]
            top = list(page.nodes)
            ids_top = [id(x) for x in top]
            if not tn or id(tn[0]) not in ids_top:
                continue
            a = ids_top.index(id(tn[0]))
            if [id(x) for x in tn] != ids_top[a:a + len(tn)]:
                continue
            pre = "".join(str(x) for x in top[:a])
            post = "".join(str(x) for x in top[a + len(tn):])
            tt = "".join(str(x) for x in tn)
            op = rng.choice(["insert_before", "insert_after", "replace", "replace"])
            ops_done.append((op, "view-value", tt[:30], vtext[:30]))
            try:
                getattr(page, op)(tgt, v)
            except Exception as e:  # noqa: BLE001
                return text, ops_done, "%s with a live view as the value raised %r" % (op, e), nested
            exp = {"replace": pre + vtext + post, "insert_before": pre + vtext + tt + post, "insert_after": pre + tt + vtext + post}[op]
            if str(page) != exp:
                return text, ops_done, "%s(target, <live view of the page>): text is %r, expected %r (the value as it was when the call was made)" % (
                    op, str(page)[:160], exp[:160]), nested
            break           # the same node objects are now at two places (the caller asked for that): the history ends here
        if rng.random() < 0.08:
            # ---- a nested Wikicode as the target (found through the node's attributes, not through __children__): a value of a
            # parameter, a default of an argument - possibly EMPTY -, a link title ...; an edit addressed to it must find it
            held = [(pn, attr, w) for pn, attr, w, rendered in c09.held_wikicodes(page) if rendered and span_of(page, pn) is not None]
            if held:
                pn, attr, w = rng.choice(held)
                before_w = str(w)
                op = rng.choice(["insert_after", "insert_before", "replace"])
                ops_done.append((op, "nested Wikicode", "%s.%s=%r" % (type(pn).__name__, attr, before_w[:20])))
                try:
                    getattr(page, op)(w, "ZZ%d" % step)
                except Exception as e:  # noqa: BLE001
                    return text, ops_done, "%s with the Wikicode %s.%s (%r) of a node of the tree as the target raised %r" % (
                        op, type(pn).__name__, attr, before_w[:40], e), nested
                want = {"insert_after": before_w + "ZZ%d" % step, "insert_before": "ZZ%d" % step + before_w, "replace": "ZZ%d" % step}[op]
                if str(w) != want:
                    return text, ops_done, "%s(<Wikicode %r>, 'ZZ%d'): the Wikicode renders %r, expected %r" % (op, before_w[:40], step, str(w)[:60], want[:60]), nested
                if want not in str(page):
                    return text, ops_done, "%s on a nested Wikicode is not visible in the page" % op, nested
                continue
        if secs and rng.random() < 0.1:
            # ---- a string edit THROUGH a section, at a place inside it (not its first or last node): the section shows the edit and
            # every section that has no node in common with it renders what it rendered before
            cand = [j for j, x in enumerate(secs) if len(x.nodes) >= 3]
            if cand:
                j = rng.choice(cand)
                T = secs[j]
                inner = T.nodes[rng.randint(1, len(T.nodes) - 2)]
                sT = str(T)
                tgt = str(inner)
                if type(inner).__name__ == "Text" and len(tgt) >= 4 and rng.random() < 0.6:
                    a1 = rng.randint(1, len(tgt) - 3)
                    tgt = tgt[a1:rng.randint(a1 + 1, len(tgt) - 1)]          # a piece of a Text node: the inexact path
                if tgt.strip() and sT.count(tgt) == 1 and not any(ch in tgt for ch in "{}[]<>|=&'\n"):
                    ranges = [(x.nodes._start, x.nodes._stop if x.nodes._stop is not None else len(page.nodes)) for x in secs]
                    before = [str(x) for x in secs]
                    op = rng.choice(["remove", "replace"])
                    ops_done.append((op, "string through section %d" % j, tgt[:30]))
                    try:
                        if op == "remove":
                            T.remove(tgt)
                        else:
                            T.replace(tgt, "RR%d" % step)
                    except Exception as e:  # noqa: BLE001
                        return text, ops_done, "%s(%r) through a section raised %r" % (op, tgt, e), nested
                    want = sT.replace(tgt, "" if op == "remove" else "RR%d" % step, 1)
                    if str(T) != want:
                        return text, ops_done, "%s(%r) through a section: the section renders %r, expected %r" % (op, tgt, str(T)[:100], want[:100]), nested
                    sj, ej = ranges[j]
                    for k, (sk, ek) in enumerate(ranges):
                        if k != j and (ek <= sj or sk >= ej) and str(secs[k]) != before[k]:
                            return text, ops_done, ("%s(%r) through section %d (nodes %d:%d) changed section %d (nodes %d:%d), which has no node in common with it: "
                                                    "%r -> %r" % (op, tgt, j, sj, ej, k, sk, ek, before[k][:80], str(secs[k])[:80])), nested
                    continue
        if secs and kind < 0.2:
            # ---- a section view as the target
            j = rng.randrange(len(secs))
            v = secs[j]
            vn = list(v.nodes)
            top = list(page.nodes)
            ids_top = [id(x) for x in top]
            a = ids_top.index(id(vn[0])) if vn and id(vn[0]) in ids_top else None
            if a is None or [id(x) for x in vn] != ids_top[a:a + len(vn)]:
                if vn:
                    return text, ops_done, "a held section view is not a run of the page's nodes before the edit", nested
                continue
            pre = "".join(str(x) for x in top[:a])
            post = "".join(str(x) for x in top[a + len(vn):])
            vt = "".join(str(x) for x in vn)
            op = rng.choice(["insert_before", "insert_after", "replace", "remove"])
            ops_done.append((op, "view", vt[:30], repr(vtext)[:30]))
            try:
                if op == "remove":
                    page.remove(v)
                    exp = pre + post
                elif op == "replace":
                    page.replace(v, val)
                    exp = pre + vtext + post
                elif op == "insert_before":
                    page.insert_before(v, val)
                    exp = pre + vtext + vt + post
                else:
                    page.insert_after(v, val)
                    exp = pre + vt + vtext + post
            except Exception as e:  # noqa: BLE001
                return text, ops_done, "%s with a section view as target raised %r" % (op, e), nested
            if str(page) != exp:
                return text, ops_done, "%s(view): text is %r, expected %r" % (op, str(page)[:120], exp[:120]), nested
            msg = c11.oracle_loose(page, secs, snap)
            if msg:
                return text, ops_done, "after %s(view): %s" % (op, msg), nested
            continue
        if kind < 0.55:
            # ---- node target: any node an attribute walk finds (not only those filter() lists); span_of() keeps those that are
            # rendered exactly once, by identity - such a node is part of the page and an edit addressed to it must find it
            n = rng.choice([x for x, _anc in c09.attribute_walk(page)[0]])
            sp = span_of(page, n)
            if sp is None:
                continue
            pre, post = sp
            ntext = str(n)
            if page.get_ancestors(n):
                nested = True
            sub_ids = {id(x) for x in M.wikicode.Wikicode._get_children(n)} if hasattr(M.wikicode.Wikicode, "_get_children") else {id(n)}
            op = rng.choice(["insert_before", "insert_after", "replace", "remove"])
            ops_done.append((op, "node", ntext[:30], repr(vtext)[:30]))
            try:
                if op == "remove":
                    page.remove(n)
                    exp = pre + post
                elif op == "replace":
                    page.replace(n, val)
                    exp = pre + vtext + post
                elif op == "insert_before":
                    page.insert_before(n, val)
                    exp = pre + vtext + ntext + post
                else:
                    page.insert_after(n, val)
                    exp = pre + ntext + vtext + post
            except Exception as e:  # noqa: BLE001
                return text, ops_done, "%s on a node of the tree raised %r" % (op, e), nested
            new = str(page)
            if new != exp:
                return text, ops_done, "%s: text is %r, expected %r" % (op, new[:120], exp[:120]), nested
            gone = sub_ids if op in ("remove", "replace") else set()
            survivors = [i for i in old_ids if i not in gone]
            now = [id(x) for x in page.filter()]
            if [i for i in now if i in set(old_ids)] != survivors:
                return text, ops_done, "%s changed the identity or order of other nodes" % op, nested
        elif kind < 0.65:
            # ---- a node or a Wikicode that is not in the tree (half of the time one that renders like a part of it)
            codes = [cc for nn in nodes for cc in nn.__children__()]
            if codes and rng.random() < 0.5:
                twin = rng.choice(codes)
                wrapper = M.parse("{{w|" + str(twin) + "}}")
                cands = [cc for nn in wrapper.filter() for cc in nn.__children__() if str(cc) == str(twin)]
                other = cands[0] if cands else M.parse(str(twin))
                other_owner = wrapper
            else:
                other = M.parse("{{zz}}").nodes[0]
                other_owner = None
            owner_before = str(other_owner) if other_owner is not None else None
            if other_owner is not None and page.contains(other):
                return text, ops_done, "contains() is true for a Wikicode of another tree (it renders like a nested one: %r)" % str(other)[:40], nested
            op = rng.choice(["insert_before", "insert_after", "replace", "remove"])
            ops_done.append((op, "foreign node"))
            try:
                if op == "remove":
                    page.remove(other)
                else:
                    getattr(page, op)(other, val)
                return text, ops_done, "%s with a node that is not in the tree did not raise ValueError" % op, nested
            except ValueError:
                pass
            except Exception as e:  # noqa: BLE001
                return text, ops_done, "%s with a foreign node raised %r instead of ValueError" % (op, e), nested
            if str(page) != old or [id(x) for x in page.filter()] != old_ids:
                return text, ops_done, "a failed %s changed the tree" % op, nested
            if other_owner is not None and str(other_owner) != owner_before:
                return text, ops_done, "%s with a target from another tree edited THAT tree" % op, nested
        elif kind < 0.9:
            # ---- index target on the page or on a nested Wikicode
            codes = [page] + [c for n in nodes for c in n.__children__()]
            code = rng.choice(codes)
            if code is not page:
                nested = True
            parts = [str(x) for x in code.nodes]
            csp = None
            L = len(parts)
            i = rng.randint(-L - 2, L + 2)
            op = rng.choice(["insert", "append", "set"])
            ops_done.append((op, "index", i, repr(vtext)[:30]))
            before_code = str(code)
            one_shot = hasattr(val, "__next__") or hasattr(val, "read")
            nvals = (len(M.parse(vtext).nodes) if one_shot else len(M.utils.parse_anything(val).nodes)) if not isinstance(val, (M.wikicode.Wikicode,)) else len(val.nodes)
            try:
                if op == "insert":
                    code.insert(i, val)
                    a = max(i + L, 0) if i < 0 else min(i, L)
                    expc = "".join(parts[:a]) + vtext + "".join(parts[a:])
                elif op == "append":
                    code.append(val)
                    expc = "".join(parts) + vtext
                else:
                    code.set(i, val)
                    j = i + L if i < 0 else i
                    expc = "".join(parts[:j]) + vtext + "".join(parts[j + 1:])
            except IndexError:
                if op == "set" and not (-L <= i < L) and str(code) == before_code:
                    continue
                return text, ops_done, "%s(%d) raised IndexError (length %d) or changed the list" % (op, i, L), nested
            except ValueError:
                if op == "set" and nvals > 1 and str(code) == before_code:
                    continue
                return text, ops_done, "%s(%d) raised ValueError" % (op, i), nested
            except Exception as e:  # noqa: BLE001
                return text, ops_done, "%s(%d) raised %r" % (op, i, e), nested
            if str(code) != expc:
                return text, ops_done, "%s(%d): the list renders %r, expected %r" % (op, i, str(code)[:100], expc[:100]), nested
            now = [id(x) for x in page.filter()]
            kept = [x for x in now if x in set(old_ids)]
            if op != "set" and kept != old_ids:
                return text, ops_done, "%s changed the identity or order of other nodes" % op, nested
        elif secs and kind < 0.93:
            # ---- index edits on the page while views are alive (negative indices, empty values = deletion)
            L = len(page.nodes)
            i = rng.randint(-L, L - 1) if L else 0
            if L and rng.random() < 0.5:
                val, vtext, i = "", "", rng.randint(-L, -1)      # deletion through a negative index
            ops_done.append(("set", "index+views", i, repr(vtext)[:30]))
            try:
                page.set(i, val)
            except (IndexError, ValueError):
                continue
            msg = c11.oracle(page, secs, snap, None, True)
            if msg:
                return text, ops_done, "after set(%d, %r) on the page: %s" % (i, vtext[:20], msg), nested
        else:
            # ---- string target: the text of one node, or of a run of 2-3 adjacent nodes of some node list
            n = rng.choice(nodes)
            s = str(n)
            lists = [page] + [cc for nn in nodes for cc in nn.__children__() if len(cc.nodes) >= 2]
            if rng.random() < 0.5:
                holder = rng.choice(lists)
                L0 = len(holder.nodes)
                if L0 >= 2:
                    a0 = rng.randint(0, L0 - 2)
                    s = "".join(str(x) for x in holder.nodes[a0:a0 + rng.randint(2, 3)])
            if not s or MARK in s:
                continue
            if rng.random() < 0.3:
                # a piece of one Text node (the inexact path: the text around it is re-parsed)
                texts = [x for x in page.filter_text() if len(str(x)) >= 3]
                if texts:
                    tn = str(rng.choice(texts))
                    a1 = rng.randint(0, len(tn) - 2)
                    s = tn[a1:rng.randint(a1 + 2, len(tn))]
            op = rng.choice(["remove", "insert_before", "replace", "insert_after"])
            whole_node = any(str(x) == s for x in nodes)
            overlaps_itself = s in (s + s)[1:-1]
            if op in ("replace", "insert_after") and not (
                    s.strip() and not overlaps_itself and
                    (whole_node or (old.count(s) == 1 and not any(ch in s for ch in "{}[]<>|=&'\n")))):
                op = "remove"
            ops_done.append((op, "string", s[:30]))
            try:
                if op == "remove":
                    page.remove(s)
                elif op == "replace":
                    page.replace(s, val)
                elif op == "insert_after":
                    page.insert_after(s, val)
                else:
                    page.insert_before(s, "{{ZZ%d}}" % step)
            except ValueError:
                return text, ops_done, "%s(%r) raised ValueError although the string occurs" % (op, s[:40]), nested
            except Exception as e:  # noqa: BLE001
                return text, ops_done, "%s(%r) raised %r" % (op, s[:40], e), nested
            new = str(page)
            if op == "replace":
                if not replaces_only_occurrences(old, new, s, vtext):
                    return text, ops_done, "replace(%r, %r) changed something other than occurrences of the string: %r -> %r" % (s[:30], vtext[:30], old[:120], new[:120]), nested
            elif op == "insert_after":
                if not replaces_only_occurrences(old, new, s, s + vtext):
                    return text, ops_done, "insert_after(%r, %r) did not insert exactly after occurrences of the string: %r -> %r" % (s[:30], vtext[:30], old[:120], new[:120]), nested
            elif op == "remove":
                if not deletes_only_occurrences(old, new, s):
                    return text, ops_done, "remove(%r) changed something other than occurrences of the string: %r -> %r" % (s[:40], old[:100], new[:100]), nested
            else:
                z = "{{ZZ%d}}" % step
                if not (new.count(z) >= 1 and new.replace(z, "") == old and new.count(z + s) == new.count(z)):
                    return text, ops_done, "insert_before(%r) did not insert exactly before occurrences of the string" % (s[:40],), nested
        allnodes = page.filter()
        if len({id(x) for x in allnodes}) != len(allnodes):
            return text, ops_done, "after %r the same node object occurs at two places of the tree" % (ops_done[-1:],), nested
    # appending a live view of the page (or the page) to the page adds its text once and terminates
    if secs and rng.random() < 0.5:
        v = rng.choice(secs + [page])
        before, vt = str(page), str(v)
        ops_done.append(("append", "view of the same page", vt[:30]))
        page.append(v)
        if str(page) != before + vt:
            return text, ops_done, "append(view): text is %r, expected %r" % (str(page)[:120], (before + vt)[:120]), nested
    # a node whose enclosing Wikicode renders empty is still a node of the tree
    tns = [x for x in page.filter_text() if page.get_ancestors(x)]
    if tns and rng.random() < 0.3:
        tn = rng.choice(tns)
        par = page.get_parent(tn)
        holder = [cc for cc in par.__children__() if any(y is tn for y in cc.nodes)]
        if holder and len(holder[0].nodes) == 1:
            tn.value = ""
            ops_done.append(("insert_before", "emptied text node"))
            if not any(y is tn for y in page.filter()):
                pass        # an emptied closing tag is no longer a child of its tag (Tag.__children__, C09): not a node of the tree
            elif not page.contains(tn):
                return text, ops_done, "contains() is false for a node of the tree whose enclosing Wikicode renders empty", nested
            try:
                if any(y is tn for y in page.filter()):
                    page.insert_before(tn, "Q")
            except ValueError:
                return text, ops_done, "insert_before raised ValueError for a node of the tree whose enclosing Wikicode renders empty", nested
    return text, ops_done, None, nested


def _work(seeds):
    out = []
    for s in seeds:
        try:
            out.append(one_case(s))
        except RecursionError:
            out.append(("", None, None, False))
    return out


WEAK_KINDS = ["remove", "replace", "insert_before", "insert_after"]


def weak_cases(seed, n):
    """(kind, pattern ids, value ids, list ids, nested?, recursive?) - a 4-letter alphabet so that the pattern occurs often and overlaps itself"""
    rng = random.Random(seed * 7 + 5)
    out = []
    for _ in range(n):
        l = [rng.randrange(4 if rng.random() < 0.8 else 2) for _ in range(rng.randrange(0, 11))]
        r = rng.random()
        if r < 0.6 and len(l) >= 1:
            i = rng.randrange(len(l))
            pat = l[i:i + rng.randrange(1, 4)]
        elif r < 0.65:
            pat = []
        else:
            pat = [rng.randrange(4) for _ in range(rng.randrange(1, 4))]
        new = [rng.randrange(7, 10) for _ in range(rng.randrange(0, 3))]
        if rng.random() < 0.15:
            new = list(pat) + new          # a value that contains the target again
        variant = rng.choice([0, 0, 0, 1, 2, 3, 4])      # plain / target given as bytes / the value is the edited Wikicode itself / value as bytes / target as a one-shot iterator
        if variant == 2:
            new = list(l)
        out.append((rng.randrange(4), pat, new, l, rng.random() < 0.3, rng.random() < 0.5, variant))
    return out


def _weak_work(cases):
    import mwparserfromhell
    from mwparserfromhell.nodes import Template
    res = []
    for kind, pat, new, l, nested, recursive, variant in cases:
        tx = lambda ids: "".join("{{%d}}" % i for i in ids)
        page = mwparserfromhell.parse("{{t|" + tx(l) + "}}" if nested else tx(l))
        holder = page.nodes[0].params[0].value if nested else page
        target = tx(pat).encode() if variant == 1 else (iter([tx(pat)]) if variant == 4 else tx(pat))
        value = holder if variant == 2 else (tx(new).encode() if variant == 3 else tx(new))
        args = (target,) if kind == 0 else (target, value)
        try:
            getattr(page if (nested and recursive) else holder, WEAK_KINDS[kind])(*args, recursive=recursive)
        except ValueError:
            res.append("E ValueError")
            continue
        except Exception as e:      # noqa: BLE001
            res.append("E %s" % type(e).__name__)
            continue
        if not all(isinstance(x, Template) and not x.params for x in holder.nodes):
            res.append("? " + str(holder))
            continue
        res.append(",".join(str(x.name) for x in holder.nodes) or "-")
    return res


def weak_tie(c, tier, seed):
    """string targets with exact matches: the real remove/replace/insert_before/insert_after vs the extracted weak_edit"""
    cases = weak_cases(seed, 6000 if tier == "quick" else 200000)
    real = vlib.robust_map(_weak_work, cases, chunk=500, timeout=120)
    lines = ["%d %d %s %d %s %d %s" % (k, len(p), " ".join(map(str, p)), len(nw), " ".join(map(str, nw)), len(l), " ".join(map(str, l)))
             for k, p, nw, l, _n, _r, _v in cases]
    try:
        model = vlib.model_run("weaksearch", lines)
    except Exception as e:  # noqa: BLE001
        c.broken.append({"file": "coq/extract/weaksearch_run", "line": 0, "statement": "weak_edit (extracted)", "error": str(e)})
        return
    dis = 0
    for case, r, m in zip(cases, real, model):
        c.cov["traces_validated_against_impl"] += 1
        if isinstance(r, tuple):
            c.fail("string-target edit %s: %s" % (r[0], str(r[1])[:200]), {"weak_case": list(case)})
            continue
        if r.strip() != m.strip():
            dis += 1
            kind, pat, new, l, nested, recursive, variant = case
            # the model is proved to edit only occurrences: is the implementation's result still of that shape?
            bad = None
            if not r.startswith("E") and not r.startswith("?") and not m.startswith("E"):
                got = [] if r == "-" else [int(x) for x in r.split(",")]
                seg = {0: [], 1: new, 2: new + pat, 3: pat + new}[kind]
                if not _only_occurrences(l, got, pat, seg):
                    bad = "changes something else than occurrences of the target"
            elif r.startswith("E") != m.startswith("E"):
                bad = "raises %s although the target occurs" % r[2:] if r.startswith("E") else "does not raise although the target occurs nowhere"
            elif r.startswith("?"):
                bad = "leaves other nodes than the expected templates: %s" % r[2:80]
            if bad:
                c.fail("%s(%r%s, recursive=%r)%s on %r %s: got %s, the model (scan from the end, disjoint exact matches) gives %s"
                       % (WEAK_KINDS[kind], "".join("{{%d}}" % i for i in pat), "" if kind == 0 else ", %r" % "".join("{{%d}}" % i for i in new),
                          recursive, ["", " with the target as bytes", " with the edited Wikicode itself as the value", " with the value as bytes", " with the target as a one-shot iterator"][variant],
                          ("{{t|%s}}" if nested else "%s") % "".join("{{%d}}" % i for i in l), bad, r, m), {"weak_case": list(case)})
            elif dis <= 3:
                c.broken.append({"file": "correspondence string targets", "line": 0, "statement": "weak_edit (model tie)",
                                 "error": "case %r: model %r vs implementation %r" % (case, m, r)})
    c.notes["weak_search_model_disagreements"] = dis


def _only_occurrences(old, new, pat, seg):
    """new = old with some disjoint occurrences of pat replaced by seg (any choice)"""
    m = len(pat)
    if m == 0:
        return old == new
    reach = {(0, 0)}
    frontier = [(0, 0)]
    while frontier:
        i, j = frontier.pop()
        if i == len(old) and j == len(new):
            return True
        nxt = []
        if i < len(old) and j < len(new) and old[i] == new[j]:
            nxt.append((i + 1, j + 1))
        if old[i:i + m] == pat and new[j:j + len(seg)] == seg:
            nxt.append((i + m, j + len(seg)))
        for st in nxt:
            if st not in reach:
                reach.add(st)
                frontier.append(st)
    return False


def _target_kinds_probe(_items):
    """the same string target given as str, bytes, a one-element list and a one-shot iterator, on the exact and on the inexact path
    (a piece of a Text node): the page text afterwards is the same in all four cases"""
    import mwparserfromhell as M
    fails = []
    pages = ["a foo b {{t}} foo", "x{{a}}y{{a}}z", "lead\n== A ==\nfoo bar\n"]
    targets = ["foo", "oo b", "{{a}}", "{{t}}", "== A ==", "o"]
    for page in pages:
        for tgt in targets:
            if tgt not in page:
                continue
            for op, args in (("remove", ()), ("replace", ("Z",)), ("insert_before", ("{{n}}",)), ("insert_after", ("Q",))):
                want = None
                for kind, make in (("str", lambda t: t), ("bytes", lambda t: t.encode()), ("list", lambda t: [t]), ("iterator", lambda t: iter([t]))):
                    code = M.parse(page)
                    try:
                        getattr(code, op)(make(tgt), *args)
                        got = str(code)
                    except Exception as e:      # noqa: BLE001
                        got = "raised %r" % (e,)
                    if want is None:
                        want = got
                    elif got != want:
                        fails.append("%s(%r given as %s%s) on %r gives %r, given as str %r" % (op, tgt, kind, "".join(", %r" % a for a in args), page, got, want))
    return [fails]


def run(tier, seed):
    c = vlib.Check("C08", tier, seed, "proof")
    vlib.pure_python_parser()
    c.prove("C08.v")
    n = 8000 if tier == "quick" else 300000
    seeds = [seed * 23000009 + i for i in range(n)]
    res = vlib.robust_map(_work, seeds, chunk=100, timeout=45)
    nontrivial = set()
    kinds = {}
    for s, r in zip(seeds, res):
        c.cov["evaluations"] += 1
        if isinstance(r, tuple) and r and r[0] in ("CRASH", "TIMEOUT", "PYEXC"):
            c.fail("case %s: %s" % (r[0], str(r[1])[:300]), {"seed": s, "outcome": r[0]})
            continue
        text, ops, fail, nested = r
        for o in ops or []:
            kinds["%s/%s" % (o[0], o[1])] = kinds.get("%s/%s" % (o[0], o[1]), 0) + 1
        if nested and ops:
            nontrivial.add(text + repr(ops))
        if fail:
            c.fail(fail, {"seed": s, "text": text, "ops": repr(ops)})
    weak_tie(c, tier, seed)
    pr = vlib.robust_map(_target_kinds_probe, [0], chunk=1, timeout=120)[0]
    if isinstance(pr, tuple) and pr and pr[0] in ("CRASH", "TIMEOUT", "PYEXC"):
        c.fail("string-target kinds probe %s: %s" % (pr[0], str(pr[1])[:200]), {"probe": "target-kinds"})
    else:
        for msg in pr[:10]:
            c.fail(msg, {"probe": "target-kinds", "what": msg})
    c.cov["distinct_nontrivial"] = len(nontrivial)
    c.cov["rule"] = ("grammar documents (depth 1-4; 30% with a repeated half so that several nodes render the same text) x sequences of 1-4 edits: "
                     "node targets at any depth (located by identity through a marker rendering), nodes of another tree, index targets on the page "
                     "or any nested Wikicode with indices in [-n-2, n+2], string targets; values: strings (plain / markup / empty), ints, Node, "
                     "Wikicode; non-trivial = an edit whose target is nested; distinct by (document, edits)")
    c.cov["samples"] = [{"text": r[0][:120], "ops": repr(r[1])} for r in res[:3] if not (isinstance(r, tuple) and r and r[0] in ("CRASH", "TIMEOUT", "PYEXC"))]
    c.notes["edits_per_kind"] = kinds
    c.assumptions += ["the span of a nested node in the page text is located by rendering with a marker (identity-based)",
                      "string targets: the oracle accepts any change that only deletes / inserts at occurrences of the string",
                      "the list-level model is tied to the implementation by C11's correspondence"]
    return c.finish()


def replay(data):
    if data["data"].get("probe") == "target-kinds":
        vlib.pure_python_parser()
        f = _target_kinds_probe([0])[0]
        print("\n".join(f[:10]))
        return 1 if f else 0
    if "weak_case" in data["data"]:
        vlib.pure_python_parser()
        case = tuple(data["data"]["weak_case"])
        print(case, _weak_work([case]))
        return 1
    r = one_case(data["data"]["seed"])
    print(r[1], r[2])
    return 1 if r[2] else 0
