"""C06 - parsing is a pure function of its input, even after failed or interrupted calls.

Proof: coq/props/C06.v (call = body o reset over field lists regenerated from /repo).
Tie / oracle: histories of tokenize()/parse() calls on ONE Tokenizer / CTokenizer / Builder /
Parser object, with an exception injected at the k-th token construction, the k-th _push or the
k-th _emit_text of a call (every k for short inputs), followed by further calls; every later result
must equal a fresh object's, and the object must not keep frames of the abandoned call.
Everything runs in crash-isolating children (a hang or a killed interpreter is a failure).
"""
import os
import random

import vlib
import wikigen


class Boom(BaseException):
    pass


# Fault injection is installed ONCE per process (permanent wrappers that consult ARM); patching and
# un-patching the token base class thousands of times made CPython itself misbehave in forked
# children (address-dependent, see DESIGN.md "Corrections").
ARM = {"site": None, "k": 0, "n": 0}
_INSTALLED = []


def _install():
    if _INSTALLED:
        return
    from mwparserfromhell.parser import tokens
    from mwparserfromhell.parser.tokenizer import Tokenizer

    def init(self, *a, **kw):
        if ARM["site"] == "token":
            ARM["n"] += 1
            if ARM["n"] == ARM["k"]:
                raise Boom()
        dict.__init__(self, *a, **kw)
    tokens.Token.__init__ = init
    orig_getattr = tokens.Token.__getattr__

    def getattr_(self, key, _orig=orig_getattr):
        if ARM["site"] == "getattr":
            ARM["n"] += 1
            if ARM["n"] == ARM["k"]:
                raise Boom()
        return _orig(self, key)
    tokens.Token.__getattr__ = getattr_
    from mwparserfromhell.parser.builder import Builder
    orig_handle = Builder._handle_token

    def handle(self, token, _orig=orig_handle):
        if ARM["site"] == "build":
            ARM["n"] += 1
            if ARM["n"] == ARM["k"]:
                raise Boom()
        return _orig(self, token)
    Builder._handle_token = handle
    for meth in ("_push", "_emit_text", "_pop", "_emit"):
        orig = getattr(Tokenizer, meth)

        def wrapper(self, *a, _orig=orig, _meth=meth, **kw):
            if ARM["site"] == _meth:
                ARM["n"] += 1
                if ARM["n"] == ARM["k"]:
                    raise Boom()
            return _orig(self, *a, **kw)
        setattr(Tokenizer, meth, wrapper)
    _INSTALLED.append(True)


def _arm(site, k):
    ARM.update(site=site, k=k, n=0)


def _disarm():
    ARM.update(site=None, k=0, n=0)


def _residue(obj):
    """frames kept from an abandoned call"""
    st = getattr(obj, "_stacks", None)
    return len(st) if isinstance(st, list) else 0


def one_history(seed):
    import tokharness
    st = tokharness.setup()
    _install()
    from mwparserfromhell.parser import Parser
    rng = random.Random(seed)
    target = rng.choice(["py", "c", "parser", "py-method"])
    texts = [wikigen.any_input(rng) for _ in range(rng.randint(2, 4))]
    deep = rng.random() < 0.15
    if deep:
        # nesting near and beyond the depth limit: the depth counter is per-call state too
        dd = rng.choice([30, 60, 70, 101])
        pairs = [("{{a|", "}}"), ("{{{", "}}}"), ("[[a|", "]]"), ("<b>", "</b>"), ("{{a|", ""), ("<i>", "")]
        deeps = []
        for _ in range(2):
            o, c = rng.choice(pairs)
            deeps.append(o * dd + "x" + c * dd)
        texts = deeps + texts[:1]
    texts = [t for t in texts if "\ud800" not in t and "\udfff" not in t] or ["{{a|b}}"]
    if target == "parser":
        obj = Parser()
        fresh = lambda: Parser()
        call = lambda o, t, a=(): str(o.parse(t, *a))
    elif target in ("py", "py-method"):
        obj = st["py"]()
        fresh = lambda: st["py"]()
        call = lambda o, t, a=(): tokharness.canon(o.tokenize(t, *a))
    else:
        if st["c"] is None:
            return target, texts, None, False
        obj = st["c"]()
        fresh = lambda: st["c"]()
        call = lambda o, t, a=(): tokharness.canon(o.tokenize(t, *a))
    aborted = 0

    def some_args():
        # options are per-call arguments too: given, defaulted, given again (a default must not remember the last call)
        r = rng.random()
        if r < 0.45:
            return ()
        ctx = st["uri"] if rng.random() < 0.2 else 0
        if r < 0.6:
            return (ctx,)
        return (ctx, rng.random() < 0.6)
    for i, t in enumerate(texts):
        if rng.random() < 0.6:
            k = rng.randint(1, 10) if not deep else rng.randint(1, 120)
            outcome = None
            if target == "py-method":
                site = rng.choice(["_push", "_emit_text", "_pop", "_emit"])
            elif target == "parser":
                site = rng.choice(["token", "build", "build", "getattr"])      # inside the tokenizer, inside the Builder, in an attribute read
            else:
                site = rng.choice(["token", "token", "getattr"])
            _arm(site, k)
            try:
                try:
                    call(obj, t, some_args())
                    outcome = "completed"
                except Boom:
                    outcome = "aborted"
                except Exception as e:  # noqa: BLE001
                    outcome = "exc " + type(e).__name__
            finally:
                fired = ARM["n"] >= k
                _disarm()
            if fired and outcome != "aborted":
                # the exception raised inside the call did not come out of it: the call went on after it (its
                # result then depends on more than the input) or reported something else
                return target, texts, "an exception raised at the %d-th %s of a call on %r was swallowed: the call %s" % (
                    k, {"token": "token construction", "build": "Builder step", "getattr": "token attribute read"}.get(site, site), t,
                    "returned normally" if outcome == "completed" else "ended with " + outcome[4:]), True
            if outcome != "completed":
                aborted += 1
        # after whatever happened: the object must behave like a fresh one on every later call
        for t2 in (texts[(i + 1) % len(texts)], "x ''y'' z", t):
            args = some_args()
            try:
                a = call(obj, t2, args)
            except Exception as e:  # noqa: BLE001
                import traceback
                return target, texts, "after %d aborted call(s) the reused object raises %r on %r [%s]" % (
                    aborted, e, t2, " <- ".join("%s:%d" % (f.name, f.lineno) for f in traceback.extract_tb(e.__traceback__)[-4:])), aborted > 0
            b = call(fresh(), t2, args)
            if a != b:
                return target, texts, "after %d aborted call(s) the reused object gives a different result on %r with the arguments %r" % (aborted, t2, args), aborted > 0
            if target == "parser":
                r = _residue(obj._tokenizer) + _residue(obj._builder)
            else:
                r = _residue(obj)
            if r:
                return target, texts, "the reused object keeps %d frame(s) of an abandoned call" % r, aborted > 0
    return target, texts, None, aborted > 0


def _work(seeds):
    return [one_history(s) for s in seeds]


def run(tier, seed):
    c = vlib.Check("C06", tier, seed, "proof")
    c.prove("C06.v")
    import tokharness
    tokharness.setup()
    n = 6000 if tier == "quick" else 200000
    seeds = [seed * 7000003 + i for i in range(n)]
    res = vlib.robust_map(_work, seeds, chunk=100, timeout=120)
    nontrivial = set()
    per_target = {}
    for s, r in zip(seeds, res):
        c.cov["evaluations"] += 1
        if isinstance(r, tuple) and r and r[0] in ("CRASH", "TIMEOUT", "PYEXC"):
            c.fail("history %s: %s" % ({"CRASH": "terminated the interpreter", "TIMEOUT": "did not finish", "PYEXC": "raised in the harness"}[r[0]], str(r[1])[:300]),
                   {"seed": s, "outcome": r[0]})
            continue
        target, texts, failure, had_abort = r
        per_target[target] = per_target.get(target, 0) + 1
        if had_abort:
            nontrivial.add(s)
        if failure:
            c.fail(failure, {"seed": s, "target": target, "texts": texts})
            if os.environ.get("C06_DEBUG"):
                open(os.environ["C06_DEBUG"], "a").write(repr((s, target, texts, failure)) + "\n")
    c.cov["distinct_nontrivial"] = len(nontrivial)
    c.cov["rule"] = ("histories of 2-4 calls on one object (Python Tokenizer, CTokenizer, Parser) over the shared input generator; each call "
                     "with probability 0.6 gets a BaseException injected at the k-th (1..10; up to 120 in deep inputs) token construction, token attribute read or Builder step, or "
                     "(Python tokenizer) at the k-th _push/_pop/_emit/_emit_text; after every call three further calls are compared with a fresh object's results and the "
                     "object is inspected for leftover frames; non-trivial = the history contains an aborted call followed by calls")
    c.cov["samples"] = [{"seed": s, "target": r[0], "texts": r[1]} for s, r in list(zip(seeds, res))[:3] if not (isinstance(r, tuple) and r[0] in ("CRASH", "TIMEOUT", "PYEXC"))]
    c.notes["histories_per_target"] = per_target
    c.assumptions += ["Python attribute semantics: a method body reaches instance state only through self.<field> (hypothesis of the theorem)",
                      "field lists come from an AST / C-text scan (tools/gen_defs.py gen_state), fail-closed",
                      "the C tokenizer may report SystemError instead of the injected exception at call sites that ignore an emit failure; "
                      "the property concerns the calls AFTER the aborted one, which are checked"]
    return c.finish()


def replay(data):
    d = data["data"]
    import tokharness
    tokharness.setup()
    r = one_history(d["seed"])
    print(r)
    return 1 if r[2] else 0
