"""Correspondence of the Builder / node rendering model (coq/Builder.v, coq/Nodes.v) with
parser/builder.py and nodes/*.py: encode real token lists for the extracted driver and print real
trees in the driver's format."""

KIND = {n: i for i, n in enumerate([
    "Text", "TemplateOpen", "TemplateParamSeparator", "TemplateParamEquals", "TemplateClose",
    "ArgumentOpen", "ArgumentSeparator", "ArgumentClose", "WikilinkOpen", "WikilinkSeparator", "WikilinkClose",
    "ExternalLinkOpen", "ExternalLinkSeparator", "ExternalLinkClose",
    "HTMLEntityStart", "HTMLEntityNumeric", "HTMLEntityHex", "HTMLEntityEnd", "HeadingStart", "HeadingEnd",
    "CommentStart", "CommentEnd", "TagOpenOpen", "TagAttrStart", "TagAttrEquals", "TagAttrQuote",
    "TagCloseOpen", "TagCloseSelfclose", "TagOpenClose", "TagCloseClose"])}


def _s(x):
    x = "" if x is None else str(x)
    return [len(x)] + [ord(c) for c in x]


def _os(x):
    if x is None:
        return [-1]
    return _s(x)


def encode_tokens(tokens):
    """real Token objects -> list of ints (None if a token has a shape the model does not cover)"""
    out = [len(tokens)]
    for t in tokens:
        name = type(t).__name__
        k = KIND.get(name)
        if k is None:
            return None
        out.append(k)
        d = dict(t)
        if name == "Text":
            out += _s(d.get("text"))
        elif name == "ExternalLinkOpen":
            out.append(1 if d.get("brackets") else 0)
        elif name == "ExternalLinkSeparator":
            out.append(1 if d.get("suppress_space") is True else 0)
        elif name == "HTMLEntityHex":
            out += _s(d.get("char"))
        elif name == "HeadingStart":
            out.append(int(d.get("level")))
        elif name == "TagOpenOpen":
            out += _os(d.get("wiki_markup")) + [1 if d.get("invalid") else 0]
        elif name == "TagAttrStart":
            out += _s(d.get("pad_first")) + _s(d.get("pad_before_eq")) + _s(d.get("pad_after_eq"))
        elif name == "TagAttrQuote":
            out += _s(d.get("char"))
        elif name == "TagCloseOpen":
            out += _s(d.get("padding") or "") + _os(d.get("wiki_markup"))
        elif name == "TagCloseSelfclose":
            out += _s(d.get("padding") or "") + [1 if d.get("implicit") else 0] + _os(d.get("wiki_markup"))
        elif name == "TagOpenClose":
            out += _os(d.get("wiki_markup"))
    return " ".join(map(str, out))


def pstr(s):
    return ".".join(str(ord(c)) for c in s)


def postr(s):
    return "~" if s is None else "'" + pstr(s)


def pb(x):
    return "1" if x else "0"


def pcode(code):
    return "[" + "".join(pnode(n) for n in code.nodes) + "]"


def pocode(code):
    return "~" if code is None else pcode(code)


def pnode(n):
    name = type(n).__name__
    if name == "Text":
        return "T(%s)" % pstr(n.value)
    if name == "Comment":
        return "C(%s)" % pstr(n.contents)
    if name == "Heading":
        return "H(%d;%s)" % (n.level, pcode(n.title))
    if name == "Wikilink":
        return "W(%s;%s)" % (pcode(n.title), pocode(n.text))
    if name == "Argument":
        return "A(%s;%s)" % (pcode(n.name), pocode(n.default))
    if name == "ExternalLink":
        return "E(%s;%s;%s%s)" % (pcode(n.url), pocode(n.title), pb(n.brackets), pb(n.suppress_space))
    if name == "HTMLEntity":
        return "N(%s;%s%s;%s)" % (pstr(n.value), pb(n.named), pb(n.hexadecimal), pstr(n.hex_char))
    if name == "Template":
        return "P(%s%s)" % (pcode(n.name), "".join(";%s=%s:%s" % (pcode(p.name), pcode(p.value), pb(p.showkey)) for p in n.params))
    if name == "Tag":
        attrs = "".join("{%s;%s;%s;%s;%s;%s}" % (pcode(a.name), pocode(a.value), postr(a.quotes), pstr(a.pad_first),
                                                   pstr(a.pad_before_eq), pstr(a.pad_after_eq)) for a in n.attributes)
        return "G(%s;%s;%s;%s;%s%s%s;%s;%s;%s;%s)" % (
            pcode(n.tag), pcode(n.contents), attrs, postr(n.wiki_markup), pb(n.self_closing), pb(n.invalid), pb(n.implicit),
            pstr(n.padding), pcode(n.closing_tag), postr(n.wiki_style_separator), postr(n.closing_wiki_markup))
    raise ValueError(name)


def real_build(tokens):
    """run the real Builder; result string in the driver's format"""
    from mwparserfromhell.parser.builder import Builder
    from mwparserfromhell.parser import ParserError
    try:
        code = Builder().build(list(tokens))
    except ParserError:
        return "exc ParserError"
    except RecursionError:
        return "resource"
    except Exception:  # noqa: BLE001 - anything else: outside the model's domain
        return "exc other"
    return "ok %s | %s" % (pcode(code), pstr(str(code)))
