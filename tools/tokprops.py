"""Shared driver for the tokenizer-level properties (C01 round trip, C02 totality, C04 agreement,
C14 canonical form): one input stream, both tokenizers, the property-specific failure kinds."""
import random

import tokharness
import vlib
import wikigen


def table_inputs():
    """every URI scheme x forms, every tag name x forms, every entity, numeric entities, brace runs"""
    import html.entities as ents
    from mwparserfromhell import definitions as d
    out = []
    for sch in sorted(d.URI_SCHEMES):
        for sep in (":", "://"):
            for name in (sch, sch.upper(), sch.capitalize()):
                out += ["%s%sexample.com/x" % (name, sep), "[%s%sexample.com/x t]" % (name, sep), "a %s%sb.c, d" % (name, sep),
                        "[[x|%s%sb.c]]" % (name, sep)]
    tags = sorted(set(d.PARSER_BLACKLIST + d.INVISIBLE_TAGS + d.SINGLE + ["b", "span", "ref", "Ref", "div"]))
    for t in tags:
        for name in (t, t.upper(), t.capitalize()):
            out += ["<%s>x</%s>" % (name, name), "<%s/>" % name, "<%s>" % name, "</%s>" % name, "<%s a=b c=\"d e\">{{x}}</%s>" % (name, name),
                    "<%s>x" % name, "<%s\n>y</%s >" % (name, name), "x<%s>'''y'''</%s>z" % (name, name.swapcase())]
    for e in sorted(ents.entitydefs):
        out += ["&%s;" % e, "a&%s;b" % e]
    for n in ("0", "1", "32", "1114111", "1114112", "00065", "12345678", "123456789", "x0", "x41", "x10FFFF", "x110000", "X41", "x0041",
              "xg", "", "x", "12a"):
        out += ["&#%s;" % n, "&#%s" % n]
    for n in (1, 2, 3, 4, 5, 6, 7, 254, 255, 256, 257):
        out += ["{" * n + "a" + "}" * n, "{" * n + "a", "{" * n + "a|b=c" + "}" * n, "[" * n + "a" + "]" * n]
    # brace runs around the depth limit (F18): single runs, chained runs, runs under other constructs
    for dd in list(range(94, 104)) + [126, 127, 128, 200, 400]:
        out += ["{{" * dd + "a" + "}}" * dd, "{{{" * dd + "a" + "}}}" * dd, "{{{{{" * (dd // 2) + "a|b" + "}}}}}" * (dd // 2)]
    for k in (2, 3, 5, 10):
        for w in (30, 60, 127):
            out += [("{{" * w + "a|") * k + "b" + "}}" * (w * k)]
    for pre in ("[[a|", "<b>", "''", "{{x|", "{{x|y="):
        for dd in (50, 98, 99, 100):
            out += [pre * dd + "{{" * 60 + "a" + "}}" * 60]
    # every Unicode white-space character, and characters whose LOW BYTE is an ASCII space character, wherever the
    # tokenizers test for white space: after a template name, in tag headers and attributes, table styles, headings
    ws = [chr(i) for i in range(0x3100) if chr(i).isspace()] + ["\u0120", "\u010a", "\u0109", "\u010d", "\u0220", "\u2020", "\u200b", "\ufeff"]
    for w in ws:
        out += ["{{foo\n" + w + "}}", "{{foo" + w + "\n|x=1}}", "{{foo\n" + w + "|x}}", "{{" + w + "foo" + w + "}}", "<b" + w + "a=1>x</b>",
                "<b a=1" + w + ">x</b" + w + ">", "<b a" + w + "=" + w + "\"c\">x</b>", "<br" + w + "/>", "{|" + w + "a=b\n|" + w + "c\n|}",
                "==" + w + "h" + w + "==\n", "[[a" + w + "|b]]", "[http://a.b" + w + "c]", "&#" + w + "65;", "<" + w + "b>x</b>", "</b" + w + ">"]
    # bracketed and free links whose URL ends in a node or whose title starts with one
    for sch in ("http://", "//", "mailto:"):
        for tail in ("{{p}}", "&amp;", "<!--c-->", "{{{1}}}", "[[x]]", "''i''", "<b>y</b>"):
            out += ["[%sexample.com/%s title]" % (sch, tail), "[%sexample.com/%s]" % (sch, tail), "[%sexample.com/ %s t]" % (sch, tail),
                    "%sexample.com/%s x" % (sch, tail), "[%s%s title]" % (sch, tail)]
    # a construct of every kind exactly around the depth limit, under every kind of opener
    pairs = [("<b>", "</b>"), ("{{a|", "}}"), ("[[a|", "]]"), ("{{{a|", "}}}"), ("''", "''"), ("<i>", ""), ("{", "}"), ("{{", "")]
    inner = ["\n==h==\n", "[[a]]", "{{a}}", "<i>x</i>", "''x''", "[http://a b]", "&amp;", "\n{|\n|a\n|}\n", "\n* x\n", "== t ==\nrest", "<br>", "<!--c-->"]
    for o, cl in pairs:
        for dd in (96, 97, 98, 99, 100, 101):
            for k, inn in enumerate(inner):
                if (dd + k) % 2 == 0 or o == "<b>":
                    out.append(o * dd + inn + cl * dd)
    # mixed openers reaching the depth limit from below and above (a template level costs more than a tag level), around every
    # construct that has a fall-back of its own when it can no longer recurse
    inner2 = ["\n{|\n|- class=x\n| cell\n|}\n", "\n{| a=b\n|+ cap\n|-\n! h !! i\n|-\n| c || d\n|}\n", "\n== h ==\n", "[[l|t]]", "{{t|p=q}}", "{{{1|d}}}", "x\'\'y\'\'z", "x\'\'\'y\'\'\'z",
              "[http://u.v w]", "http://u.v/w x", "&amp;&#65;", "<i a=\"b c\">y</i>", "<br/>", "<!--c-->", "\n* i\n", "\n; t : d\n", "\n----\n", "<nowiki>n</nowiki>", "<ref name=r />"]
    for k in range(28, 35):
        for m in range(0, 5):
            for j, inn in enumerate(inner2):
                if (k + m + j) % 2 == 0:
                    out.append("{{a|" * k + "<b>" * m + inn + "</b>" * m + "}}" * k)
                else:
                    out.append("<b>" * m + "{{a|" * k + inn + "}}" * k + "</b>" * m)
    # long runs where the C tokenizer joins one text buffer to another (punctuation after a bare URL, a scheme before ':', text
    # after an unclosed nowiki): sizes around every growth step of the buffers
    for n in (31, 32, 33, 63, 64, 65, 95, 96, 97, 100, 127, 128, 129, 150, 300, 1000, 5000):
        out += ["see http://example.com/a" + "." * n + "b and more", "wow http://example.com/x" + "!" * n, "x http://a.b/c" + ",;:!?" * (n // 5) + " y",
                "[http://a.b c" + "." * n + "]", "a" * n + "://b.c", "x " + "ab" * (n // 2) + ":c", "<nowiki>" + "z" * n + "</nowik", "<nowiki>" + "z" * n,
                "mailto:" + "q" * n + ". r", "\u65e5http://a.b/" + "\u672c" * n + "...", "\U0001d4b3 http://a.b/" + "," * n]
    # constructs that are tokenized a second time because an enclosing route fails after them (memoised shortcuts are taken then)
    twice = ["[http://a b [[http://c]] d]", "[http://a.com see [[http://b.com]] too]", "[[http://a y]]", "<!-- c -->", "<!-- u", "{{t|{{u}}{{v}}=w}}", "&amp;", "http://a.b/c.",
             "{|\n| {{a\n|b}} | c\n|}", "x\'\'\'\'\'y", "[[a|[http://b [[http://c]]]]]"]
    for outer in ["{{x|", "{{cite|url=", "\'\'", "\'\'\'", "<b>", "== ", "[[File:x.png|", "{{{a|", "<ref name=\"", "{|\n| ", "[http://q ", "{{x|{{y|", "<b>\'\'"]:
        for t in twice:
            out += [outer + t, outer + t + " tail", outer + t + t]
    # many table cells (each cell end must give its depth back), then nested markup
    rows = "".join("|-\n" + "| r%dc0 || r%dc1 || r%dc2 || r%dc3 || r%dc4 || r%dc5 || r%dc6 || r%dc7 || r%dc8 || r%dc9\n" % ((r,) * 10) for r in range(12))
    out += ["{|\n" + rows + "|}\n{{done|{{yes|[[link]]}}}}", "{|\n" + rows.replace("| r", "| style=x | r") + "|}\n{{done|{{yes|[[link]]}}}}<b>''x''</b>"]
    out += ["&#x100000041;", "&#4294967361;", "&#x100000000041;", "&#x0100000041;", "&#04294967361;", "a&#xFFFFFFFF;b", "&#2147483713;"]
    # nesting through attribute values / tag headers, far beyond the depth limit
    for dd in (60, 120, 400, 1000):
        out += ["<a " * dd + "/>" * dd, "<a b=" * dd + "x" + ">y</a>" * dd, "<a b=\"" * dd + "x" + "\">y</a>" * dd, "<a {{b|" * dd + "}}/>" * dd,
                "{| a=<b c=" * dd + "x" + ">y</b>\n|}" * dd]
    # entities written with non-ASCII digits / letters (str.isdigit, isdecimal, isalnum accept them; int() only some), NUL in tag names
    for dg in ("\u0661\u0662\u0663", "\u06f6\u06f5", "\uff10\uff16\uff10", "\u0966\u096f", "\u00b2", "\u00b3", "\u2460", "1\u2070", "6\u0665", "\u0665\u0035"):
        out += ["&#" + dg + ";", "x&#" + dg + ";y", "&#x" + dg + ";", "{{t|m&#" + dg + ";}}", "[[a|&#" + dg + ";]]", "&#0" + dg + ";"]
    out += ["&\u00e1mp;", "&am\uff50;", "&sup2;", "&frac12;", "&there4;", "&sup\u00b2;", "&#x\uff21;", "&#x\uff41\uff11;"]
    out += ["<a\x00b>x</a\x00b>", "</b\x00r >", "<b\x00>", "<br\x00/>", "x </b\x00r> y", "<\x00b>x</\x00b>", "ht\x00tp://a.b", "<nowiki\x00>x</nowiki\x00>"]
    # numeric entities with thousands of digits / leading zeros (int() refuses more than 4300 decimal digits)
    out += ["&#" + "9" * 5000 + ";", "&#x" + "f" * 5000 + ";", "&#" + "0" * 5000 + "65;", "&#x" + "0" * 5000 + "41;", "&#" + "0" * 4299 + "65;",
            "a&#" + "0" * 4400 + ";b", "&#123456789;", "&#x00110000;"]
    # two templates / arguments touching in names, keys and titles
    out += ["{{foo|{{b}}{{c}}=d}}", "{{foo|a{{b}}{{c}}=d}}", "{{{{a}}{{b}}|x=1}}", "[[{{a}}{{b}}]]", "{{foo|{{b}}{{{c}}}=d}}", "{{{ {{a}}{{b}} |d}}}",
            "{{foo|{{b}}{{=d}}", "{{foo|{{ x {{c}}=d}}"]
    # comments: terminated and unterminated mixed, inside routes that are retried (F20)
    out += ["<!--a<!--b-->c<!--d", "{{a|<!--b}}<!--c-->", "<!--" * 5 + "-->", "[[a|<!--b]]<!--c-->d<!--e", "<!--x--><!--y", "''<!--a''<!--b-->",
            "<b><!--</b><!---->", "<!--<!---->-->", "{{a|<!--}}-->|b}}<!--", "<!--[[a|" * 6, "<b><!--" * 6 + "-->", "{{{a|<!--" * 4 + "}}}"]
    # bare and bracketed links whose URL runs into the closer of the enclosing construct (or a look-alike of it)
    wrappers = ["%s", "{{a|%s}}", "{{a|k=%s}}", "{{{a|%s}}}", "{{{%s}}}", "[[a|%s]]", "== %s ==", "{|\n| %s\n|}", "{|\n| %s || z\n|}", "{|\n! %s !! z\n|}",
                "<b>%s</b>", "\'\'%s\'\'", "\'\'\'%s\'\'\'", "[http://x.y %s]", "* %s\n", "; %s : z\n", "<ref name=a>%s</ref>", "{{a|{{{b|%s}}}}}", "{{{a|{{b|%s}}}}}"]
    tails = ["}}", "}", "}}}", "]]", "]", "|", "||", "!!", "{{", "{{{", "[[", "\'\'", "\'\'\'", "<", ">", "=", "==", "\n", "&", "&amp;", ":", ";", "<!--", "</b>", "{{c}}", "{{{c}}}"]
    for w in wrappers:
        for tl in tails:
            for url in ("http://b.c/", "mailto:a", "//b.c/"):
                out.append(w % (url + tl + "d"))
                if url.startswith("//"):
                    out[-1] = w % ("[" + url + tl + "d e]")
    for lvl in range(1, 9):
        out += ["=" * lvl + " h " + "=" * lvl, "=" * lvl + "h" + "=" * (lvl + 1) + "\n", "\n" + "=" * lvl + "=\n"]
    return out


WRAPPERS = ["%s", "{{a|%s}}", "{{a|k=%s}}", "{{%s|x}}", "{{a|%s=v}}", "{{{a|%s}}}", "{{{%s}}}", "[[a|%s]]", "[[%s]]", "== %s ==", "\n== %s ==\n",
            "{|\n| %s\n|}", "{|\n| %s || z\n|}", "{|\n! %s !! z\n|}", "{| %s\n|a\n|}", "{|\n|+ %s\n|}", "{|\n|- %s\n|a\n|}", "{|\n| s=1 | %s\n|}",
            "<b>%s</b>", "<ref name=a>%s</ref>", "<span a=\"%s\">x</span>", "<span %s>x</span>", "<span a=%s>x</span>", "<nowiki>%s</nowiki>",
            "\'\'%s\'\'", "\'\'\'%s\'\'\'", "\'\'\'\'\'%s\'\'\'\'\'", "[http://x.y %s]", "[http://x.y/%s z]", "http://x.y/%s",
            "* %s\n", "\n# %s\n", "; %s : z\n", "\n: %s\n", "<!-- %s -->", "&%s;", "<li>%s", "%s\n----\n", "{{a|\n%s\n|b}}"]
ATOMS = ["x", "", " ", "\n", "x y", "{{t}}", "{{t|a|b=c}}", "{{t|\n a = 1\n}}", "{{{1}}}", "{{{1|d}}}", "[[l]]", "[[l|t]]", "[[File:x.png|thumb|c]]",
         "[http://u.v t]", "[http://u.v]", "http://u.v/w", "mailto:a@b.c", "[//u.v t]", "\n== h ==\n", "==h==", "=h=", "<!--c-->", "&amp;", "&#65;", "&#x41;",
         "&nosuch;", "&#xZZ;", "&", "<i>y</i>", "<br/>", "<br>", "<hr>", "</br>", "<nowiki>{{n}}</nowiki>", "<ref name=\"r\">q</ref>", "<ref name=r />",
         "<b>", "</b>", "<i", "<i a", "< b>", "\'\'y\'\'", "\'\'\'y\'\'\'", "\'\'", "\'\'\'", "\'\'\'\'\'y", "\n* i\n", "\n; t : d\n", "\n----\n", "\n:::x\n",
         "{|\n| a || b\n|-\n! h\n|}", "{|\n|}", "{|", "|}", "\n|-\n", "\n| c\n", "||", "!!", "|", "=", "==", ":", ";", "{{", "}}", "{{{", "}}}", "[[", "]]", "[", "]",
         "{", "}", "<", ">", "<!--", "-->", "{{t", "{{t|", "[[l", "[[l|", "[http://u.v", "{{{1", "{{t}}{{u}}", "{{t|{{u}}}}", "[[l|{{t}}]]", "{{t|[[l]]}}",
         "\u65e5\u672c", "\U0001d4b3", "a\x00b", "\u00a0", "&#x1F600;", "x\n\ny", "<pre>\n p\n</pre>", "<math>a<b</math>", "__TOC__", "~~~~", "#REDIRECT [[r]]"]


# unclosed opener (its route fails at the end, so everything after it is read a second time through the route memo)
# x a construct that itself gives up speculatively x a construct that succeeds speculatively afterwards (round-10 seed C02_r10:
# a flag left over from the second stage was only visible to the third)
CHAIN_OPENERS = ["", "{{x|", "{{x|k=", "{{{x|", "[[x|", "''", "'''", "<b>", "<ref>", "== ", "{|\n| ", "[http://o ", "<span a=\"", "* ''", "{{x|{{y|"]
CHAIN_MIDS = ["[http://a [[http://b ", "[http://a [[l]] ", "[[http://b ", "[http://a {{t}} ", "[http://a <b>", "[http://a ''i", "[[l|[http://a ",
              "{{t|[http://a [[http://b ", "http://a[[http://b ", "[http://a [[http://b [[http://c ", "[[l|[[m ", "{{t|{{{u| ", "<i>[[http://b "]
CHAIN_TAILS = ["&amp; c]]", "&amp;", "{{t}}]]", "<!--c-->]]", "[[l]]]", "''x''", "<br>", "&#65;]] ]", "x]]", "]]", "]", "", "&amp; {{t}} [[l]] c]]"]


def chain_inputs():
    return [o + m + t for o in CHAIN_OPENERS for m in CHAIN_MIDS for t in CHAIN_TAILS]


def nesting_inputs(tier, seed):
    """every construct inside every construct (all pairs, in four positions), and triples: a sample in the quick tier, all in the thorough one"""
    out = []
    for w in WRAPPERS:
        for a in ATOMS:
            out += [w % a, w % ("p" + a), w % (a + "q"), w % (a + a)]
    rng = random.Random(seed * 31 + 7)
    triples = [(w1, w2, a) for w1 in WRAPPERS for w2 in WRAPPERS for a in ATOMS]
    if tier == "quick":
        triples = rng.sample(triples, 6000)
    for w1, w2, a in triples:
        try:
            out.append(w1 % (w2 % a))
        except (TypeError, ValueError):
            pass
    return out


WITH_BUILDER = [False]


def _work(items):
    tokharness.setup()
    out = []
    for text, ctx, skip in items:
        r = tokharness.analyse(text, ctx, skip, with_builder=WITH_BUILDER[0])
        out.append((r["fail"], r["stats"], r.get("builder", [])))
    return out


def make_inputs(tier, seed, n_quick=60000, n_thorough=3000000):
    st = tokharness.setup()
    rng = random.Random(seed * 7919 + 1)
    items = []
    for t in table_inputs():
        items.append((t, 0, False))
        if rng.random() < 0.3:
            items.append((t, 0, True))
        if rng.random() < 0.1:
            items.append((t, st["uri"], False))
    for t in nesting_inputs(tier, seed):
        items.append((t, 0, rng.random() < 0.2))
    n = n_quick if tier == "quick" else n_thorough
    for _ in range(n):
        size = "small" if (tier == "quick" or rng.random() < 0.7) else "large"
        text = wikigen.any_input(rng, size)
        skip = rng.random() < 0.3
        ctx = st["uri"] if rng.random() < 0.12 else 0
        items.append((text, ctx, skip))
    # appended last and without drawing from rng, so that the stream above is exactly what it was before this family existed
    for k, t in enumerate(chain_inputs()):
        items.append((t, 0, k % 5 == 4))
    return items


def run_stream(c, tier, seed, kinds, nontrivial_rule, n_quick=60000, n_thorough=3000000, builder_tie=False):
    """c: vlib.Check; kinds: failure kinds of tokharness.analyse that count for this property.
    builder_tie: also run the extracted Builder/rendering model on every real token stream."""
    WITH_BUILDER[0] = builder_tie
    st = tokharness.setup()
    if st["c"] is None:
        c.fail("the C tokenizer does not build or load: %s" % st["clog"][-300:], {"build": "ctokenizer"})
    items = make_inputs(tier, seed, n_quick, n_thorough)
    res = vlib.robust_map(_work, items, chunk=400, timeout=240)
    seen = set()
    btie = []
    stats = {"nontext_inputs": 0, "resource": 0, "uri_context": 0, "skip_style_tags": 0}
    for (text, ctx, skip), r in zip(items, res):
        c.cov["evaluations"] += 1
        if isinstance(r, tuple) and r and r[0] in ("CRASH", "TIMEOUT", "PYEXC"):
            if "total" in kinds or r[0] != "PYEXC":
                c.fail("parsing %s: %s" % ({"CRASH": "terminated the interpreter", "TIMEOUT": "did not finish", "PYEXC": "raised in the harness"}[r[0]], r[1]),
                       {"text": text, "context": ctx, "skip_style_tags": skip, "outcome": r[0]})
            continue
        fail, s, bl = r
        for which, enc, real in bl:
            btie.append((text, which, enc, real))
        if s.get("nontext", 0) > 0 or any(ch in text for ch in "{[<&='"):
            if (text, ctx, skip) not in seen:
                seen.add((text, ctx, skip))
        stats["resource"] += 1 if s.get("resource") else 0
        stats["uri_context"] += 1 if ctx else 0
        stats["skip_style_tags"] += 1 if skip else 0
        stats["nontext_inputs"] += 1 if s.get("nontext", 0) > 0 else 0
        for k in kinds:
            for msg in fail.get(k, []):
                data = {"text": text, "context": ctx, "skip_style_tags": skip, "kind": k, "tokenizer": msg.split(" ")[0].rstrip(":")}
                if "instance that had tokenized" in msg:
                    data["history"] = s.get("history")
                c.fail("%s: %s" % (k, msg), data)
    if builder_tie:
        _builder_tie(c, btie)
    c.cov["distinct_nontrivial"] = len(seen)
    c.cov["rule"] = ("inputs: table-driven (every URI scheme x ':'/'://' x case x bracketed/free, every tag name of every class in open/close/"
                     "self-closing/unclosed/attribute forms x case, every named entity, numeric entities at the range boundaries, brace/bracket runs "
                     "up to 257 and around the depth limit, heading levels 1-8, every Unicode white-space character and low-byte alias at every white-space test, "
                     "numeric entities of thousands of digits, comments in retried routes, touching templates in names/keys, URLs ending in nodes, "
                     "attribute nesting far beyond the depth limit) + a seeded stream: marker-heavy noise over multi-character atoms, grammar documents, mutated "
                     "documents, Unicode incl. U+0000, NEL, astral, lone surrogates; each with skip_style_tags (30%) and the external-link-URL "
                     "starting context (12%); both tokenizers. " + nontrivial_rule)
    c.cov["samples"] = [{"text": t, "context": cx, "skip_style_tags": sk} for (t, cx, sk) in items[-4:]]
    c.notes["stream"] = stats
    return items


def _builder_tie(c, btie):
    """real Builder + node rendering vs the extracted model on every real token stream"""
    try:
        model = vlib.model_run("builder", [b[2] for b in btie])
    except Exception as e:  # noqa: BLE001
        c.broken.append({"file": "coq/extract/builder_run", "line": 0, "statement": "build (extracted)", "error": str(e)})
        return
    dis = 0
    obs = {"streams": 0, "in_image_of_flatten": 0, "rebuild_identity": 0, "wf_normal_forms": 0}
    for (text, which, enc, real), m in zip(btie, model):
        c.cov["traces_validated_against_impl"] += 1
        mm = m.split(" | img=")[0].strip()
        if mm != real.strip():
            both_reject = mm.startswith("exc") and real.startswith("exc")
            if not both_reject:
                dis += 1
                if dis <= 3:
                    c.broken.append({"file": "correspondence Builder/rendering", "line": 0, "statement": "build / str_code (model tie)",
                                     "error": "input %r (%s tokens): model %r vs implementation %r" % (text, which, mm[:300], real[:300])})
        if " | img=" in m:
            flags = dict(kv.split("=") for kv in m.split(" | ")[-1].split())
            obs["streams"] += 1
            obs["in_image_of_flatten"] += flags.get("img") == "1"
            obs["rebuild_identity"] += flags.get("rb") == "1"
            obs["wf_normal_forms"] += flags.get("wf") == "1"
            if flags.get("img") != "1" or flags.get("rb") != "1":
                c.notes.setdefault("streams_outside_flatten_image", []).append(text) if len(c.notes.get("streams_outside_flatten_image", [])) < 5 else None
    c.notes["builder_model_disagreements"] = dis
    c.notes["builder_observations"] = obs


def replay_text(data, kinds):
    d = data["data"]
    if "text" not in d:
        print(d)
        return 1
    tokharness.setup()
    tokharness._REUSED.clear()
    for h in d.get("history") or []:
        for which in ("py", "c"):
            tokharness.tokenize_reused(which, *h)
    r = tokharness.analyse(d["text"], d.get("context", 0), d.get("skip_style_tags", False))
    print("history", d.get("history"))
    print("input", repr(d["text"]), "context", d.get("context"), "skip", d.get("skip_style_tags"))
    print("failures", r["fail"])
    return 1 if any(k in r["fail"] for k in kinds) else 0
