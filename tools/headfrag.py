"""Correspondence of coq/HeadingFrag.v (the tokenizers on the sub-language whose only markers are '=' and
'\\n': plain text and section headings) with BOTH real tokenizers: same inputs, token list against token list.

Inputs: every string over {'=', '\\n', 'a'} up to a length (exhaustive), random strings over a wider
non-marker alphabet (three string widths), and the depth-limit neighbourhood ('=' runs inside one heading
line around MAX_DEPTH).  The model's depth limit comes from coq/gen/Tables.v (regenerated from both sources).

A disagreement is first examined for a failure of the property itself on that input (round trip, canonical
form, Py = C); when there is none it is reported as a broken correspondence (no-failing-input-found).
"""
import itertools
import os
import random
import re

import tokharness
import vlib

OTHER = ["a", "b", " ", "x", "\t", "é", "中", "\U0001F600", "0", "_", "(", ")", "~", "\\", ".", ","]


def _depths():
    txt = open(os.path.join(vlib.VERIF, "coq", "gen", "Tables.v")).read()
    py = int(re.search(r"py_max_depth : N := (\d+)%N", txt).group(1))
    c = int(re.search(r"c_max_depth : N := (\d+)%N", txt).group(1))
    return py, c


def inputs(tier, seed):
    rng = random.Random(seed * 7919 + 13)
    out = []
    top = 9 if tier == "quick" else 12
    for n in range(0, top + 1):
        for t in itertools.product("=\na", repeat=n):
            out.append("".join(t))
    n_rand = 20000 if tier == "quick" else 400000
    for _ in range(n_rand):
        k = rng.choice([3, 8, 15, 30, 60])
        w_eq, w_nl = rng.choice([(3, 1), (1, 1), (6, 1), (2, 3)])
        alpha = rng.sample(OTHER, rng.choice([1, 2, 4]))
        chars = []
        for _ in range(rng.randint(1, k)):
            r = rng.random() * (w_eq + w_nl + 4)
            if r < w_eq:
                chars.append("=" * rng.choice([1, 1, 1, 2, 2, 3, 5, 6, 7, 9]))
            elif r < w_eq + w_nl:
                chars.append("\n")
            else:
                chars.append(rng.choice(alpha) * rng.choice([1, 1, 2, 3]))
        out.append("".join(chars))
    py, c = _depths()
    for md in sorted({py, c}):
        for k in (md - 4, md - 3, md - 2, md - 1, md, md + 1, md + 2, md + 30):
            for a in (1, 2, 6, 7):
                for b in (1, 2, 3, 6, 8):
                    for tail in ("", "t", "\n=z=", "t\n"):
                        out.append("=" * a + ("x" + "=" * b) * max(k, 0) + tail)
                        out.append("\n" + "=" * a + ("x" + "=" * b) * max(k, 0) + "=" * 2 + tail)
    seen = set()
    uniq = []
    for s in out:
        if s not in seen:
            seen.add(s)
            uniq.append(s)
    return uniq


def _show(canon_tokens):
    out = []
    for t in canon_tokens:
        d = dict(t[1:])
        if t[0] == "Text":
            out.append("T" + ".".join(str(ord(ch)) for ch in d["text"]))
        elif t[0] == "HeadingStart":
            out.append("S%d" % int(d["level"]))
        elif t[0] == "HeadingEnd":
            out.append("E")
        else:
            out.append("?" + t[0])
    return " ".join(out) or "-"


def _work(items):
    res = []
    for s in items:
        row = {}
        for which in ("py", "c"):
            r = tokharness.tokenize(which, s)
            row[which] = _show(r[1]) if r[0] == "ok" else "EXC %s %s" % (r[1], r[2])
        res.append(row)
    return res


def _render(shown):
    """text spelled by a shown token list (heading level from its start token)"""
    if shown == "-":
        return ""
    out, lv = [], []
    for t in shown.split(" "):
        if t[0] == "T":
            out.append("".join(chr(int(x)) for x in t[1:].split(".")) if len(t) > 1 else "")
        elif t[0] == "S":
            lv.append(int(t[1:]))
            out.append("=" * lv[-1])
        elif t == "E":
            out.append("=" * (lv.pop() if lv else 0))
        else:
            return None
    return "".join(out)


def _canonical(shown):
    if shown == "-":
        return True
    ts = shown.split(" ")
    return all(t != "T" for t in ts) and not any(a[0] == "T" and b[0] == "T" for a, b in zip(ts, ts[1:]))


def run(c, tier, seed, props=("roundtrip", "canon", "pyc")):
    """adds the fragment correspondence to check C; PROPS = which properties a disagreement is examined for"""
    st = tokharness.setup()
    items = inputs(tier, seed)
    py_md, c_md = _depths()
    real = vlib.robust_map(_work, items, chunk=512, timeout=240)
    want = {}
    for which, md in (("py", py_md), ("c", c_md)):
        if which == "c" and st["c"] is None:
            continue
        lines = ["%d %s" % (md, " ".join(str(ord(ch)) for ch in s)) for s in items]
        want[which] = vlib.model_run("headfrag", lines)
    dist = {"inputs": len(items), "with_heading": 0, "depth_limited": 0, "text_only": 0}
    reported = 0
    for i, s in enumerate(items):
        row = real[i]
        if not isinstance(row, dict):
            c.fail("heading-fragment input killed or hung the interpreter: %r" % (row,), {"text": s, "kind": "headfrag"})
            continue
        c.cov["evaluations"] += 1
        m = want["py"][i]
        if "S" in m:
            dist["with_heading"] += 1
        else:
            dist["text_only"] += 1
        if s.count("=") > 150:
            dist["depth_limited"] += 1
        for which in want:
            got = row[which]
            if got == want[which][i]:
                continue
            if reported >= 5:
                continue
            reported += 1
            # the property itself on this input
            bad = None
            if got.startswith("EXC"):
                bad = "tokenizer raised: " + got
            elif "roundtrip" in props and _render(got) != s:
                bad = "token stream does not spell the input (renders %r)" % (_render(got),)
            elif "canon" in props and not _canonical(got):
                bad = "token stream has an empty Text or two adjacent Text tokens"
            elif "pyc" in props and row.get("py") != row.get("c") and "c" in want:
                bad = "Python and C token streams differ"
            data = {"text": s, "kind": "headfrag", "tokenizer": which, "model": want[which][i], "implementation": got}
            if bad:
                c.fail("%s tokenizer on %r: %s" % (which, s[:80], bad), data)
            else:
                c.fail("correspondence HeadingFrag.v / %s tokenizer broken on %r: model %s, implementation %s"
                       % (which, s[:80], want[which][i][:120], got[:120]), data, found_input=False)
    c.notes["heading_fragment_correspondence"] = dist
    c.cov["traces_validated_against_impl"] += len(items)
    return dist


# ---------------------------------------------------------------------------------------------------------
# second fragment: HTML entities in running text (coq/EntityFrag.v, driver `entfrag`)

ENT_OTHER = ["a", "x", "X", "0", "1", "9", "f", "F", "g", "amp", "lt", "nbsp", "thetasym", "Aacute", "zwnj", "#", ";", "&", " ", "é", "中",
             "\U0001F600", "\\", "_", "٣", "10FFFF", "110000", "1114111", "1114112", "00", "0000000041", "x0", "x00000000041"]


def ent_inputs(tier, seed):
    import html.entities
    rng = random.Random(seed * 104729 + 7)
    names = sorted(k for k in html.entities.entitydefs)
    out = []
    # table-driven: every name, with and without ';', wrong case, prefix, suffix
    for n in names:
        out += ["&%s;" % n, "&%s" % n, "&%s;;" % n, "a&%s;b" % n, "&%s;&%s;" % (n, n), "&%sx;" % n, "&%s;" % n.swapcase(), "&#%s;" % n, "&0%s;" % n, "&00%s;" % n, "&#x%s;" % n, "&%s0;" % n, "& %s;" % n, "&%s ;" % n]
    # numeric boundaries
    for v in (0, 1, 9, 10, 65, 0xD7FF, 0xD800, 0xFFFF, 0x10000, 0x10FFFF, 0x110000, 99999999, 100000000, 0xFFFFFFF, 0xFFFFFFFF, 0x100000000):
        for z in ("", "0", "000", "0" * 9, "0" * 40):
            out += ["&#%s%d;" % (z, v), "&#x%s%x;" % (z, v), "&#X%s%X;" % (z, v), "&#%s%d" % (z, v), "t&#%s%d;t" % (z, v), "&#x%s%xg;" % (z, v)]
    top = 7 if tier == "quick" else 9
    for n in range(0, top + 1):
        for t in itertools.product("&#;x4", repeat=n):
            s = "".join(t)
            if s[:1] not in ("#", ";"):
                out.append(s)
    # comments: every string over {<,!,-,>,a} up to a length, and random mixtures of comment pieces with entities
    topc = 6 if tier == "quick" else 9
    for n in range(0, topc + 1):
        for t in itertools.product("<!->a", repeat=n):
            out.append("".join(t))
    cparts = ["<!--", "-->", "<", "!", "-", ">", "--", "<!", "->", "<!-", "&amp;", "&", "#", ";", "a", "b c", "&#60;!--", "<!---->", "<!--->"]
    for _ in range(8000 if tier == "quick" else 200000):
        out.append("".join(rng.choice(cparts) for _ in range(rng.randint(1, rng.choice([4, 8, 14])))))
    n_rand = 20000 if tier == "quick" else 400000
    for _ in range(n_rand):
        parts = [rng.choice(ENT_OTHER) for _ in range(rng.randint(1, rng.choice([3, 6, 12, 25])))]
        if rng.random() < 0.6:
            k = rng.randrange(len(parts) + 1)
            parts.insert(k, rng.choice(["&", "&#", "&#x", "&#X"]) + rng.choice(["amp", "41", "x41", "0", "lt", "1" * rng.randint(1, 12), rng.choice(names)]) + rng.choice([";", ";", ""]))
        s = "".join(parts)
        if s[:1] in ("#", ";"):
            s = "a" + s
        out.append(s)
    seen = set()
    uniq = []
    for s in out:
        # outside the sub-language: a leading '-' (horizontal rule) or list marker, a '<' followed by anything that could start a tag
        if s[:1] in ("-", "#", ";") or re.search(r"<[^!\-><&#;]", s):
            continue
        if s not in seen:
            seen.add(s)
            uniq.append(s)
    return uniq


def _eshow(canon_tokens):
    out = []
    for t in canon_tokens:
        d = dict(t[1:])
        codes = lambda x: ".".join(str(ord(ch)) for ch in x)  # noqa: E731
        if t[0] == "Text":
            out.append("T" + codes(d["text"]))
        elif t[0] == "HTMLEntityStart":
            out.append("A")
        elif t[0] == "HTMLEntityNumeric":
            out.append("N")
        elif t[0] == "HTMLEntityHex":
            out.append("X" + codes(d["char"]))
        elif t[0] == "HTMLEntityEnd":
            out.append("Z")
        elif t[0] == "CommentStart":
            out.append("C")
        elif t[0] == "CommentEnd":
            out.append("D")
        else:
            out.append("?" + t[0])
    return " ".join(out) or "-"


def _ework(items):
    res = []
    for s in items:
        row = {}
        for which in ("py", "c"):
            r = tokharness.tokenize(which, s)
            row[which] = _eshow(r[1]) if r[0] == "ok" else "EXC %s %s" % (r[1], r[2])
        res.append(row)
    return res


def _erender(shown):
    if shown == "-":
        return ""
    out = []
    dec = lambda x: "".join(chr(int(v)) for v in x.split(".")) if x else ""  # noqa: E731
    for t in shown.split(" "):
        if t[0] == "T":
            out.append(dec(t[1:]))
        elif t == "A":
            out.append("&")
        elif t == "N":
            out.append("#")
        elif t[0] == "X":
            out.append(dec(t[1:]))
        elif t == "Z":
            out.append(";")
        elif t == "C":
            out.append("<!--")
        elif t == "D":
            out.append("-->")
        else:
            return None
    return "".join(out)


def _ecanonical(shown):
    """no empty Text, no two adjacent Text at the top level (the Text inside an entity is its own list)"""
    if shown == "-":
        return True
    ts = shown.split(" ")
    if any(t == "T" for t in ts):
        return False
    inside = False
    prev_text = False
    for t in ts:
        if t in ("A", "C"):
            inside, prev_text = True, False
        elif t in ("Z", "D"):
            inside, prev_text = False, False
        elif t[0] == "T" and not inside:
            if prev_text:
                return False
            prev_text = True
        elif not inside:
            prev_text = False
    return True


def run_entities(c, tier, seed, props=("roundtrip", "canon", "pyc")):
    st = tokharness.setup()
    items = ent_inputs(tier, seed)
    py_ms = int(getattr(st["py"], "MAX_ENTITY_SIZE", 8))
    txt = open(os.path.join(vlib.VERIF, "coq", "gen", "Tables.v")).read()
    c_ms = int(re.search(r"c_max_entity_size : N := (\d+)%N", txt).group(1))
    real = vlib.robust_map(_ework, items, chunk=512, timeout=240)
    want = {}
    for which, flag, ms in (("py", 1, py_ms), ("c", 0, c_ms)):
        if which == "c" and st["c"] is None:
            continue
        lines = ["%d %d %s" % (flag, ms, " ".join(str(ord(ch)) for ch in s)) for s in items]
        want[which] = vlib.model_run("entfrag", lines)
    dist = {"inputs": len(items), "with_entity": 0, "numeric": 0, "hexadecimal": 0, "ampersand_as_text": 0, "with_comment": 0, "unterminated_comment_opener": 0}
    reported = 0
    for i, s in enumerate(items):
        row = real[i]
        if not isinstance(row, dict):
            c.fail("entity-fragment input killed or hung the interpreter: %r" % (row,), {"text": s, "kind": "entfrag"})
            continue
        c.cov["evaluations"] += 1
        m = want["py"][i].split(" ")
        dist["with_entity"] += "A" in m
        dist["numeric"] += "N" in m
        dist["hexadecimal"] += any(t[0] == "X" for t in m)
        dist["ampersand_as_text"] += ("&" in s and m.count("A") < s.count("&"))
        dist["with_comment"] += "C" in m
        dist["unterminated_comment_opener"] += ("<!--" in s and "C" not in m)
        for which in want:
            got = row[which]
            if got == want[which][i] or reported >= 5:
                continue
            reported += 1
            bad = None
            if got.startswith("EXC"):
                bad = "tokenizer raised: " + got
            elif "roundtrip" in props and _erender(got) != s:
                bad = "token stream does not spell the input (renders %r)" % (_erender(got),)
            elif "canon" in props and not _ecanonical(got):
                bad = "token stream has an empty Text or two adjacent Text tokens"
            elif "pyc" in props and "c" in want and row.get("py") != row.get("c"):
                bad = "Python and C token streams differ"
            data = {"text": s, "kind": "entfrag", "tokenizer": which, "model": want[which][i], "implementation": got}
            if bad:
                c.fail("%s tokenizer on %r: %s" % (which, s[:80], bad), data)
            else:
                c.fail("correspondence EntityFrag.v / %s tokenizer broken on %r: model %s, implementation %s"
                       % (which, s[:80], want[which][i][:120], got[:120]), data, found_input=False)
    c.notes["entity_fragment_correspondence"] = dist
    c.cov["traces_validated_against_impl"] += len(items)
    return dist


# ---------------------------------------------------------------------------------------------------------
# both fragments combined: headings whose lines contain entities (coq/MixFrag.v, driver `mixfrag`)

def mix_inputs(tier, seed):
    rng = random.Random(seed * 15485863 + 11)
    out = []
    top = 6 if tier == "quick" else 9
    for n in range(0, top + 1):
        for t in itertools.product(["=", "\n", "&lt;", "&", "a"], repeat=n):
            s = "".join(t)
            out.append(s)
    # with comments (which may span lines and hide '=' and newlines)
    topc = 5 if tier == "quick" else 7
    for n in range(0, topc + 1):
        for t in itertools.product(["=", "\n", "&lt;", "a", "<!--", "-->", "=="], repeat=n):
            out.append("".join(t))
    ents = ["&amp;", "&lt;", "&#65;", "&#x41;", "&#X3c;", "&#0061;", "&#61;", "&#x3D;", "&#10;", "&", "&#", "&#x", "&amp", "&;", "&#;", "&bogus;", "&#1114112;", "&=", "&#=;",
            "&amp=;", "#", ";", "x;", "#61;",
            "<!--", "-->", "<!--x-->", "<!--\n-->", "<!--==-->", "<!--\n==h==\n-->", "<", ">", "!", "--", "<!", "<!---->", "<!--&amp;-->"]
    other = ["a", "b", " ", "é", "中", "\U0001F600", "x", "0"]
    n_rand = 20000 if tier == "quick" else 400000
    for _ in range(n_rand):
        parts = []
        w = rng.choice([(3, 1, 3), (2, 1, 1), (5, 1, 2), (2, 2, 3)])
        for _ in range(rng.randint(1, rng.choice([4, 8, 16, 30]))):
            r = rng.random() * (w[0] + w[1] + w[2] + 3)
            if r < w[0]:
                parts.append("=" * rng.choice([1, 1, 2, 2, 3, 6, 7]))
            elif r < w[0] + w[1]:
                parts.append("\n")
            elif r < w[0] + w[1] + w[2]:
                parts.append(rng.choice(ents))
            else:
                parts.append(rng.choice(other))
        out.append("".join(parts))
    py, c = _depths()
    for md in sorted({py, c}):
        for k in (md - 3, md - 2, md - 1, md, md + 1):
            for e in ("&amp;", "&", "&#61;"):
                out.append("==" + (e + "==") * max(k, 0) + "t")
                out.append("=" + ("x=" + e) * max(k, 0))
    seen = set()
    uniq = []
    for s in out:
        # outside the sub-language: a line beginning (outside a comment) with a list marker or '-', a '<' that could start a tag
        plain = re.sub(r"<!--.*?-->", "C", s, flags=re.S)
        if any(ln[:1] in ("#", ";", "-") for ln in plain.split("\n")) or re.search(r"<[^!\-><&#;=\n]", s):
            continue
        if s not in seen:
            seen.add(s)
            uniq.append(s)
    return uniq


def _mshow(canon_tokens):
    out = []
    for t in canon_tokens:
        if t[0] == "HeadingStart":
            out.append("S%d" % int(dict(t[1:])["level"]))
        elif t[0] == "HeadingEnd":
            out.append("E")
        else:
            out.append(_eshow([t]))
    return " ".join(out) or "-"


def _mwork(items):
    res = []
    for s in items:
        row = {}
        for which in ("py", "c"):
            r = tokharness.tokenize(which, s)
            row[which] = _mshow(r[1]) if r[0] == "ok" else "EXC %s %s" % (r[1], r[2])
        res.append(row)
    return res


def _mrender(shown):
    if shown == "-":
        return ""
    out, lv = [], []
    dec = lambda x: "".join(chr(int(v)) for v in x.split(".")) if x else ""  # noqa: E731
    for t in shown.split(" "):
        if t[0] == "T":
            out.append(dec(t[1:]))
        elif t[0] == "S":
            lv.append(int(t[1:]))
            out.append("=" * lv[-1])
        elif t == "E":
            out.append("=" * (lv.pop() if lv else 0))
        elif t == "A":
            out.append("&")
        elif t == "N":
            out.append("#")
        elif t[0] == "X":
            out.append(dec(t[1:]))
        elif t == "Z":
            out.append(";")
        elif t == "C":
            out.append("<!--")
        elif t == "D":
            out.append("-->")
        else:
            return None
    return "".join(out)


def _mcanonical(shown):
    """no empty Text; no two adjacent Text in one list (lists: top level, a heading's title, an entity's text)"""
    if shown == "-":
        return True
    prev = [False]
    for t in shown.split(" "):
        if t == "T":
            return False
        if t[0] == "T":
            if prev[-1]:
                return False
            prev[-1] = True
        elif t in ("A", "C") or t[0] == "S":
            prev[-1] = False
            prev.append(False)
        elif t in ("Z", "E", "D"):
            if len(prev) > 1:
                prev.pop()
            prev[-1] = False
        else:
            prev[-1] = False
    return True


def run_mixed(c, tier, seed, props=("roundtrip", "canon", "pyc")):
    st = tokharness.setup()
    items = mix_inputs(tier, seed)
    py_md, c_md = _depths()
    py_ms = int(getattr(st["py"], "MAX_ENTITY_SIZE", 8))
    txt = open(os.path.join(vlib.VERIF, "coq", "gen", "Tables.v")).read()
    c_ms = int(re.search(r"c_max_entity_size : N := (\d+)%N", txt).group(1))
    real = vlib.robust_map(_mwork, items, chunk=512, timeout=240)
    want = {}
    for which, flag, ms, md in (("py", 1, py_ms, py_md), ("c", 0, c_ms, c_md)):
        if which == "c" and st["c"] is None:
            continue
        lines = ["%d %d %d %s" % (flag, ms, md, " ".join(str(ord(ch)) for ch in s)) for s in items]
        want[which] = vlib.model_run("mixfrag", lines)
    dist = {"inputs": len(items), "with_heading": 0, "with_entity": 0, "entity_inside_heading": 0, "with_comment": 0, "comment_inside_heading": 0,
            "comment_spanning_lines": 0}
    reported = 0
    for i, s in enumerate(items):
        row = real[i]
        if not isinstance(row, dict):
            c.fail("mixed-fragment input killed or hung the interpreter: %r" % (row,), {"text": s, "kind": "mixfrag"})
            continue
        c.cov["evaluations"] += 1
        m = want["py"][i].split(" ")
        dist["with_heading"] += "E" in m
        dist["with_entity"] += "A" in m
        depth = 0
        for t in m:
            if t[0] == "S":
                depth += 1
            elif t == "E":
                depth -= 1
            elif t == "A" and depth > 0:
                dist["entity_inside_heading"] += 1
                break
        dist["with_comment"] += "C" in m
        depth = 0
        for t in m:
            if t[0] == "S":
                depth += 1
            elif t == "E":
                depth -= 1
            elif t == "C" and depth > 0:
                dist["comment_inside_heading"] += 1
                break
        k = 0
        while k < len(m):
            if m[k] == "C" and k + 1 < len(m) and m[k + 1][0] == "T" and "10" in m[k + 1][1:].split("."):
                dist["comment_spanning_lines"] += 1
                break
            k += 1
        for which in want:
            got = row[which]
            if got == want[which][i] or reported >= 5:
                continue
            reported += 1
            bad = None
            if got.startswith("EXC"):
                bad = "tokenizer raised: " + got
            elif "roundtrip" in props and _mrender(got) != s:
                bad = "token stream does not spell the input (renders %r)" % (_mrender(got),)
            elif "canon" in props and not _mcanonical(got):
                bad = "token stream has an empty Text or two adjacent Text tokens"
            elif "pyc" in props and "c" in want and row.get("py") != row.get("c"):
                bad = "Python and C token streams differ"
            data = {"text": s, "kind": "mixfrag", "tokenizer": which, "model": want[which][i], "implementation": got}
            if bad:
                c.fail("%s tokenizer on %r: %s" % (which, s[:80], bad), data)
            else:
                c.fail("correspondence MixFrag.v / %s tokenizer broken on %r: model %s, implementation %s"
                       % (which, s[:80], want[which][i][:120], got[:120]), data, found_input=False)
    c.notes["mixed_fragment_correspondence"] = dist
    c.cov["traces_validated_against_impl"] += len(items)
    return dist
