"""Tag.add (C18): exhaustive probe.  An attribute whose padding is not white space, whose quote character is not one of
None, '"', "'" or which is to be left unquoted although its value contains white space is refused with ValueError, and the
tag is left exactly as it was; every other combination is accepted and the tag renders the new attribute."""

TAGS = ['<ref name="a">cite</ref>', "<span>x</span>", "<br/>", '{| class="w"\n| c\n|}', "<b a=1 c>y</b>"]
NAMES = ["group", "id"]
VALUES = [None, "v", "note b", "", "a\tb", "q'r", 'q"r']
QUOTES = ['"', "'", None, "", "\"'", "'\"", "''", '""', "x", "`", "“"]
PADS = [None, " ", "", "\n", "  ", "x", " y", "\n-", "="]


def state(t):
    return (str(t), [(str(a.name), None if a.value is None else str(a.value), a.quotes, a.pad_first, a.pad_before_eq, a.pad_after_eq) for a in t.attributes])


def probe():
    import mwparserfromhell as M
    fails = []
    n = 0
    for src in TAGS:
        for name in NAMES:
            for val in VALUES:
                for q in QUOTES:
                    for which in range(4):
                        for pad in (PADS if which else [None]):
                            kw = {}
                            if which:
                                kw[("pad_first", "pad_before_eq", "pad_after_eq")[which - 1]] = pad
                            t = M.parse(src).filter_tags()[0]
                            before = state(t)
                            qq = q if q else None
                            bad = (qq not in (None, '"', "'")) or (pad is not None and pad.strip() != "") or \
                                (qq is None and val is not None and any(ch.isspace() for ch in val))
                            n += 1
                            try:
                                if pad is None and which:
                                    continue
                                t.add(name, val, quotes=q, **kw)
                            except ValueError:
                                if state(t) != before:
                                    fails.append("%r .add(%r, %r, quotes=%r, %r) raised ValueError but changed the tag: %r" % (src, name, val, q, kw, str(t)))
                                elif not bad:
                                    fails.append("%r .add(%r, %r, quotes=%r, %r) was refused although every argument is valid" % (src, name, val, q, kw))
                                continue
                            except Exception as e:      # noqa: BLE001
                                fails.append("%r .add(%r, %r, quotes=%r, %r) raised %r" % (src, name, val, q, kw, e))
                                continue
                            if bad:
                                fails.append("%r .add(%r, %r, quotes=%r, %r) was accepted: %r" % (src, name, val, q, kw, str(t)))
                            elif not t.has(name) or str(t) == before[0]:
                                fails.append("%r .add(%r, %r, quotes=%r, %r) did not add the attribute: %r" % (src, name, val, q, kw, str(t)))
    return fails, n


def work(_items):
    return [probe()]
