# Builds the Coq development (full .vo build) and the extracted model drivers.
COQDIR := coq
EXDIR  := coq/extract
DRIVERS := sections smartlist wikiedit matches builder nodeops template cbuffers weaksearch escape headfrag entfrag mixfrag
BINS := $(DRIVERS:%=$(EXDIR)/%_run)

.PHONY: all coq drivers clean
# the drivers are built even when a proof file no longer compiles (-k): the models live in their own files, and
# the search for a failing input needs the model regenerated from the CURRENT sources
all:
	@rc=0; $(MAKE) coq || rc=1; $(MAKE) -k drivers || rc=1; exit $$rc

coq:
	/venv/bin/python tools/gen_tables.py
	cd $(COQDIR) && coq_makefile -f _CoqProject -o Makefile.coq > /dev/null && timeout 3000 $(MAKE) -k -f Makefile.coq -j8

drivers: $(BINS)

# Extract*.v -> *_model.ml ; then model + conv + driver concatenated into one compilation unit
$(EXDIR)/%_run: $(EXDIR)/Extract%.v $(EXDIR)/conv.ml $(EXDIR)/%_driver.ml $(wildcard $(COQDIR)/*.v) $(wildcard $(COQDIR)/gen/*.v)
	cd $(EXDIR) && timeout 600 coqc -Q .. MW Extract$*.v > /dev/null
	cd $(EXDIR) && cat $*_model.ml conv.ml $*_driver.ml > $*_all.ml && timeout 600 ocamlfind ocamlopt -w -a $*_all.ml -o $*_run

clean:
	cd $(COQDIR) && rm -f *.vo *.vok *.vos *.glob .*.aux props/*.vo props/*.glob props/.*.aux Makefile.coq* $(EXDIR)/*_run
