(* C14 - Parsed trees are in canonical form.  PARTIAL.
   Full statement (NOT proved): forall s cfg, canon_code (parse cfg s).
   Proved: if the token stream of a tree has no empty Text token and no two adjacent Text tokens
   then NO node list anywhere in the tree (top level or nested) has an empty or two adjacent Text
   nodes - for all trees.  With C01/C02's theorem (the Builder rebuilds the tree of its stream) this
   reduces canonical trees to canonical token streams; that both tokenizers only emit canonical
   streams is validated by the oracle on both the streams and the trees. *)
From MW Require Import PyBase Nodes Builder Flatten BuilderProofs Canon.
From MW Require Import HeadingFrag HeadingFragProofs.
From MW Require Import EntityFrag EntityFragProofs.
From MW Require Import MixFrag MixFragProofs.

Theorem C14_canonical_tokens_give_canonical_tree_partial :
  forall c, canon_toks (fl_code c) = true -> canon_code c = true.
Proof. exact canon_tokens_canon_tree. Qed.

Theorem C14_build_preserves_partial : forall c,
  wf_code c -> canon_toks (fl_code c) = true ->
  exists t, build (fl_code c) = Ok t /\ canon_code t = true.
Proof.
  intros c Hw Hc. exists c. split; [exact (build_flatten_lemma c Hw)|exact (canon_tokens_canon_tree c Hc)].
Qed.

Print Assumptions C14_canonical_tokens_give_canonical_tree_partial.
Print Assumptions C14_build_preserves_partial.

Example C14_example :
  canon_code [NText [97%N]; NTemplate [NText [116%N]] []; NText [98%N]] = true /\
  canon_code [NText [97%N]; NText [98%N]] = false /\
  canon_code [NTemplate [NText []] []] = false.
Proof. vm_compute. repeat split; reflexivity. Qed.

(* the heading fragment of the tokenizer (coq/HeadingFrag.v, tied to both tokenizers by tools/headfrag.py):
   the text-buffer discipline gives canonical trees for EVERY string over the fragment and every depth limit *)
Theorem C14_fragment_canonical : forall md s, canon_code (frag_nodes md s) = true.
Proof. exact frag_canonical. Qed.

Print Assumptions C14_fragment_canonical.

Theorem C14_entity_fragment_canonical : forall markers names msize s, canon_code (efrag_nodes markers names msize s) = true.
Proof. exact efrag_canonical. Qed.

Print Assumptions C14_entity_fragment_canonical.

(* canonical in EVERY node list: the top level and the title of every heading *)
Theorem C14_mixed_fragment_canonical : forall markers names msize md s, canon_code (mfrag_nodes markers names msize md s) = true.
Proof. exact mfrag_canonical. Qed.

Print Assumptions C14_mixed_fragment_canonical.
