(* C01 - Parsing is lossless.  PARTIAL.
   Full statement (NOT proved - the 1.5k-line backtracking tokenizers are not modelled):
     forall s cfg,  str (build (tokenize cfg s)) = s.
   Proved here, for every tree / token list (Builder and node rendering, coq/Builder.v, coq/Nodes.v,
   both tied to /repo by correspondence on every token stream the real tokenizers produce):
   the Builder rebuilds a well-formed tree from its token stream exactly, so nothing a token carries
   is lost between the token stream and the rendered text.  What remains for the full statement is
   that the tokenizer's output spells its input - validated by the round-trip oracle. *)
From MW Require Import PyBase Nodes Builder Flatten BuilderProofs.
From MW Require Import HeadingFrag HeadingFragProofs.
From MW Require Import EntityFrag EntityFragProofs.
From MW Require Import MixFrag MixFragProofs.

Theorem C01_build_flatten_partial : forall c, wf_code c -> build (fl_code c) = Ok c.
Proof. exact build_flatten_lemma. Qed.

Theorem C01_rendering_preserved_partial : forall c t,
  wf_code c -> build (fl_code c) = Ok t -> str_code t = str_code c.
Proof. exact build_render_lemma. Qed.

(* rendering is compositional: the text of a node list is the concatenation of its nodes' texts *)
Theorem C01_render_app : forall a b, str_code (a ++ b) = str_code a ++ str_code b.
Proof. exact str_code_app. Qed.

Print Assumptions C01_build_flatten_partial.
Print Assumptions C01_rendering_preserved_partial.
Print Assumptions C01_render_app.

(* Non-vacuity: "{{t|x|k=[[l]]}}&amp;<b a="1">y</b>" as a tree; built back from its tokens inside Coq *)
Definition ex_tree : code :=
  [NTemplate [NText [116%N]] [([NText [49%N]], [NText [120%N]], false);
                              ([NText [107%N]], [NWikilink [NText [108%N]] None], true)];
   NEntity [97; 109; 112]%N true false [120%N];
   NTag [NText [98%N]] [NText [121%N]] [([NText [97%N]], Some [NText [49%N]], Some [34%N], ([32%N], [], []))]
        None false false false [] [NText [98%N]] None None].
Example C01_example : build (fl_code ex_tree) = Ok ex_tree /\ wf_codeb ex_tree = true /\ length (fl_code ex_tree) = 26.
Proof. vm_compute. repeat split; reflexivity. Qed.

(* ---- the tokenizer on the heading fragment (coq/HeadingFrag.v: '=' and '\n' the only markers), tied to BOTH
   real tokenizers by correspondence (tools/headfrag.py).  For EVERY string and every depth limit: the model's
   tree renders to the input, and the proved Builder applied to the model's token stream yields a tree that
   renders to the input - the full statement of C01, end to end, on this sub-language. *)
Theorem C01_fragment_lossless : forall md s, str_code (frag_nodes md s) = s.
Proof. exact frag_lossless. Qed.

Theorem C01_fragment_end_to_end : forall md s, exists c, build (frag_tokens md s) = Ok c /\ str_code c = s.
Proof. exact frag_end_to_end. Qed.

Print Assumptions C01_fragment_lossless.
Print Assumptions C01_fragment_end_to_end.

(* Non-vacuity: "== a = b ==\nx=" has a level-2 heading whose title keeps the inner '=' *)
Example C01_fragment_example :
  frag_tokens 100 [61;61;32;97;32;61;32;98;32;61;61;10;120;61]%N =
  [THeadingStart 2; TText [32;97;32;61;32;98;32]%N; THeadingEnd; TText [10;120;61]%N].
Proof. vm_compute. reflexivity. Qed.

(* ---- the tokenizer on the entity fragment (coq/EntityFrag.v: '&', '#', ';' and non-markers on one line), tied to
   BOTH real tokenizers by correspondence (tools/headfrag.py run_entities).  For EVERY string and EVERY marker table,
   entity-name table and size limit. *)
Theorem C01_entity_fragment_lossless : forall markers names msize s, str_code (efrag_nodes markers names msize s) = s.
Proof. exact efrag_lossless. Qed.

Theorem C01_entity_fragment_end_to_end : forall markers names msize s,
  exists c, build (efrag_tokens markers names msize s) = Ok c /\ str_code c = s.
Proof. exact efrag_end_to_end. Qed.

Print Assumptions C01_entity_fragment_lossless.
Print Assumptions C01_entity_fragment_end_to_end.

(* Non-vacuity: "a&amp;&#x41;&#0065;&x;&#;" - three entities, then the two '&' that are not entities stay text *)
Example C01_entity_fragment_example :
  efrag_tokens [10; 35; 38; 59; 61]%N [[97; 109; 112]%N] 8
    [97; 38; 97; 109; 112; 59; 38; 35; 120; 52; 49; 59; 38; 35; 48; 48; 54; 53; 59; 38; 120; 59; 38; 35; 59]%N =
  [TText [97%N]; THTMLEntityStart; TText [97; 109; 112]%N; THTMLEntityEnd;
   THTMLEntityStart; THTMLEntityNumeric; THTMLEntityHex [120%N]; TText [52; 49]%N; THTMLEntityEnd;
   THTMLEntityStart; THTMLEntityNumeric; TText [48; 48; 54; 53]%N; THTMLEntityEnd; TText [38; 120; 59; 38; 35; 59]%N].
Proof. vm_compute. reflexivity. Qed.

(* ---- both fragments combined (coq/MixFrag.v): documents of plain text, HTML entities and section headings whose titles
   may contain entities; tied to BOTH real tokenizers by correspondence (tools/headfrag.py run_mixed).  For EVERY string
   and EVERY marker table, entity table, size limit and depth limit. *)
Theorem C01_mixed_fragment_lossless : forall markers names msize md s, str_code (mfrag_nodes markers names msize md s) = s.
Proof. exact mfrag_lossless. Qed.

Theorem C01_mixed_fragment_end_to_end : forall markers names msize md s,
  exists c, build (mfrag_tokens markers names msize md s) = Ok c /\ str_code c = s.
Proof. exact mfrag_end_to_end. Qed.

Print Assumptions C01_mixed_fragment_lossless.
Print Assumptions C01_mixed_fragment_end_to_end.

(* Non-vacuity: "==a&amp;==\n&#41;==x": a level-2 heading whose title holds an entity, then an entity and text *)
Example C01_mixed_fragment_example :
  mfrag_tokens [10; 35; 38; 59; 61]%N [[97; 109; 112]%N] 8 100
    [61; 61; 97; 38; 97; 109; 112; 59; 61; 61; 10; 38; 35; 52; 49; 59; 61; 61; 120]%N =
  [THeadingStart 2; TText [97%N]; THTMLEntityStart; TText [97; 109; 112]%N; THTMLEntityEnd; THeadingEnd; TText [10%N];
   THTMLEntityStart; THTMLEntityNumeric; TText [52; 49]%N; THTMLEntityEnd; TText [61; 61; 120]%N].
Proof. vm_compute. reflexivity. Qed.

(* Non-vacuity with a comment: "==a<!--\n==-->b==" - the comment hides a newline and an '=' run inside a heading title *)
Example C01_mixed_fragment_comment_example :
  mfrag_tokens [10; 33; 35; 38; 45; 59; 60; 61; 62]%N [[97; 109; 112]%N] 8 100
    [61; 61; 97; 60; 33; 45; 45; 10; 61; 61; 45; 45; 62; 98; 61; 61]%N =
  [THeadingStart 2; TText [97%N]; TCommentStart; TText [10; 61; 61]%N; TCommentEnd; TText [98%N]; THeadingEnd].
Proof. vm_compute. reflexivity. Qed.
