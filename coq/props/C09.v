(* C09 - Tree navigation is complete and mutually consistent.
   Model: coq/Strip.v (children_of = __children__ per class, descend = Wikicode._get_children).
   Proved for all trees: the pre-order walk is the node followed by the walks of exactly the
   Wikicodes __children__ yields; and EVERY Wikicode that contributes text to a node is yielded
   (emptying all the others leaves the rendering unchanged).  filter / index / get_ancestors /
   get_parent / contains / get_tree are tied to these by correspondence and checked by the oracle. *)
From MW Require Import PyBase Nodes Strip NavProofs.

Theorem C09_walk_follows_children : forall n, descend n = n :: flat_map descend_code (children_of n).
Proof. exact descend_children_lemma. Qed.

Theorem C09_children_cover_rendering : forall n, str_node (prune n) = str_node n.
Proof. exact children_cover_str_lemma. Qed.

Theorem C09_walk_of_concatenation : forall a b, descend_code (a ++ b) = descend_code a ++ descend_code b.
Proof. exact descend_code_app. Qed.

Print Assumptions C09_walk_follows_children.
Print Assumptions C09_children_cover_rendering.
Print Assumptions C09_walk_of_concatenation.

Example C09_example :
  length (descend_code [NTemplate [NText [116%N]] [([NText [49%N]], [NText [120%N]; NComment []], false)]; NText [121%N]]) = 5.
Proof. vm_compute. reflexivity. Qed.
