(* C08 - Editing a specific node changes exactly that node's span and nothing else.
   FULL at the level of the node list that holds the target (top level, a section view through
   C11, or the nested Wikicode the strong search found): node and index targets.
   The composition through enclosing nodes is proved too (coq/Context.v): wherever a Wikicode sits below the
   page - in any place __children__ yields, at any depth - the page's text is pre ++ text(it) ++ post with pre
   and post independent of it, so replacing its contents changes exactly its span.  String targets are
   proved for the exact matches in one node list (coq/WeakSearch.v); the inexact fall-back (a string that matches no
   whole nodes: text replacement and re-parse of the page) is validated by the oracle only. *)
From MW Require Import PyBase PyList SmartList WikiEdit EditSpan Nodes Strip Context WeakSearch WeakSearchProofs.
Local Open Scope Z_scope.

Section C08.
Context {A : Type} (eqb : A -> A -> bool) (sortf : list A -> list A).
Hypothesis eqb_eq : forall a b, eqb a b = true -> a = b.

(* node targets: found -> the list is P ++ x :: Q (x not in P) and each operation yields exactly
   P ++ Q / P ++ new ++ Q / P ++ new ++ x :: Q / P ++ x :: new ++ Q : all other nodes keep identity and order;
   not found -> ValueError and (the functions being pure) nothing changed *)
Theorem C08_edit_node_target : forall L x ns,
  match find_index eqb x L 0 with
  | None =>
      wc_list eqb sortf L (WRemoveNode x) = Exn ValueError /\ wc_list eqb sortf L (WReplaceNode x ns) = Exn ValueError /\
      wc_list eqb sortf L (WBeforeNode x ns) = Exn ValueError /\ wc_list eqb sortf L (WAfterNode x ns) = Exn ValueError
  | Some _ =>
      exists P Q, L = P ++ x :: Q /\ Forall (fun y => eqb y x = false) P /\
        wc_list eqb sortf L (WRemoveNode x) = Ok (P ++ Q) /\
        wc_list eqb sortf L (WReplaceNode x ns) = Ok (P ++ ns ++ Q) /\
        wc_list eqb sortf L (WBeforeNode x ns) = Ok (P ++ ns ++ x :: Q) /\
        wc_list eqb sortf L (WAfterNode x ns) = Ok (P ++ x :: ns ++ Q)
  end.
Proof. exact (edit_node_target eqb sortf eqb_eq). Qed.

(* insert(index, value): the value's nodes, IN ORDER, at the position list.insert would use
   (negative and out-of-range indices included: the pinned tree reversed them there, finding F16) *)
Theorem C08_insert_at_index : forall L i ns,
  let a := Z.to_nat (adj (zlen L) i) in
  wc_list eqb sortf L (WInsert i ns) = Ok (firstn a L ++ ns ++ skipn a L).
Proof. exact (insert_at_index eqb sortf). Qed.

Theorem C08_append : forall L ns, wc_list eqb sortf L (WAppend ns) = Ok (L ++ ns).
Proof. exact (append_at_end eqb sortf). Qed.

(* text: any rendering distributes over the pieces, so exactly the target's span changes *)
Theorem C08_text_span : forall (B : Type) (f : A -> list B) P ns Q x,
  flat_map f (P ++ ns ++ x :: Q) = flat_map f P ++ flat_map f ns ++ f x ++ flat_map f Q.
Proof. exact (@render_pieces A). Qed.
End C08.

(* nested targets: a Wikicode anywhere below the page (one-hole context K, built from the places
   __children__ yields) is rendered verbatim, once, between a prefix and a suffix that do not depend on it *)
Theorem C08_nested_edit_changes_only_its_span : forall K, code_hole K ->
  exists pre post, forall old new,
    str_code (K old) = pre ++ str_code old ++ post /\ str_code (K new) = pre ++ str_code new ++ post.
Proof. exact nested_edit_span. Qed.

(* ... and every Wikicode that navigation can reach in a node is such a place (the one exception, the
   title of an unbracketed link, cannot come out of the parser and is never rendered) *)
Theorem C08_every_child_is_a_place : forall n c, In c (children_of n) ->
  (exists F, node_hole F /\ F c = n) \/ (exists u s, n = NExtLink u (Some c) false s).
Proof. exact hole_covers_children. Qed.



Print Assumptions C08_edit_node_target.
Print Assumptions C08_insert_at_index.
Print Assumptions C08_append.
Print Assumptions C08_text_span.

Example C08_example :
  wc_list Z.eqb (fun l => l) [1; 2; 3] (WInsert (-1) [8; 9]) = Ok [1; 2; 8; 9; 3] /\
  wc_list Z.eqb (fun l => l) [1; 2; 3] (WAfterNode 2 [8; 9]) = Ok [1; 2; 8; 9; 3] /\
  wc_list Z.eqb (fun l => l) [1; 2; 3] (WRemoveNode 7) = Exn ValueError.
Proof. vm_compute. repeat split; reflexivity. Qed.
Print Assumptions C08_nested_edit_changes_only_its_span.
Print Assumptions C08_every_child_is_a_place.

(* Non-vacuity: the value of parameter k of {{t|k=...}} that follows a Text node is such a place, two levels deep
   when the template itself sits in a heading *)
Example C08_nested_place_example :
  code_hole (fun c => [NText [97%N]; NHeading ([] ++ NTemplate [NText [116%N]] ([] ++ ([NText [107%N]], c, true) :: []) :: []) 2]).
Proof.
  apply (CH_in [NText [97%N]] [] (fun c => NHeading c 2) (fun c => [] ++ NTemplate [NText [116%N]] ([] ++ ([NText [107%N]], c, true) :: []) :: [])).
  - constructor.
  - apply (CH_in [] [] (fun c => NTemplate [NText [116%N]] ([] ++ ([NText [107%N]], c, true) :: [])) (fun c => c)); constructor.
Qed.

(* string targets, exact matches in one node list (remove / replace / insert_before / insert_after are weak_edit with
   h = nothing / the value / value ++ match / match ++ value): the result is the list with n >= 1 DISJOINT occurrences of
   the pattern replaced and every other node kept in order; ValueError exactly when the pattern is empty or occurs nowhere *)
Theorem C08_string_target_edits_only_occurrences : forall (A : Type) (eqb : A -> A -> bool) pat h l l',
  weak_edit eqb pat h l = Ok l' -> exists n, n <> 0%nat /\ Rep eqb pat h n l l'.
Proof. exact (@weak_edit_spec). Qed.

Theorem C08_string_target_not_found : forall (A : Type) (eqb : A -> A -> bool) pat h l,
  weak_edit eqb pat h l = Exn ValueError <-> pat = [] \/ (forall a o b, l = a ++ o ++ b -> ~ occurrence eqb pat o).
Proof. exact (@weak_edit_not_found). Qed.

Theorem C08_string_target_total : forall (A : Type) (eqb : A -> A -> bool) pat h l,
  weak_edit eqb pat h l = Exn ValueError \/ exists l', weak_edit eqb pat h l = Ok l'.
Proof. exact (@weak_edit_total). Qed.

(* ... and in the page's text exactly those occurrences of the target's text change *)
Theorem C08_string_target_text : forall (A : Type) (eqb : A -> A -> bool) (B : Type) (f : A -> list B) pat h ht n l l',
  (forall a b, eqb a b = true -> f a = f b) ->
  (forall k o, occurrence eqb pat o -> flat_map f (h k o) = ht k (flat_map f pat)) ->
  Rep eqb pat h n l l' -> TRep (flat_map f pat) ht n (flat_map f l) (flat_map f l').
Proof. exact (@rep_text). Qed.

(* the scan goes from the end: 'aa' in 'aaa b aa' is found at [1,3) and [4,6) *)
Example C08_string_target_example :
  (weak_replace Nat.eqb [1; 1] (fun k => [9 + k]) [1; 1; 1; 2; 1; 1] = Ok [1; 10; 2; 9]
  /\ weak_remove Nat.eqb [1; 2] [3; 1] = Exn ValueError
  /\ weak_before Nat.eqb [2] (fun _ => [7; 8]) [1; 2; 3] = Ok [1; 7; 8; 2; 3]
  /\ weak_after Nat.eqb [2] (fun _ => [7; 8]) [1; 2; 3] = Ok [1; 2; 7; 8; 3])%nat.
Proof. vm_compute. repeat split. Qed.

Print Assumptions C08_string_target_edits_only_occurrences.
Print Assumptions C08_string_target_not_found.
Print Assumptions C08_string_target_total.
Print Assumptions C08_string_target_text.
