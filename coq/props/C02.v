(* C02 - Parsing is total.  PARTIAL.
   Full statement (NOT proved): forall s cfg, exists t, parse cfg s = Ok t.
   Proved: the Builder half - on the token stream of every well-formed tree the Builder returns a
   tree (no ParserError, no other exception, fuel 2*len+2 always suffices); and the only ways the
   modelled Builder can fail are the two ParserError sites of the code (tokens run out inside a
   construct / a closing token with no opener).  That the tokenizers never raise and always emit
   such streams is validated by the totality oracle (crash-isolating workers) and by observing
   that every real stream is in the image of [fl_code]. *)
From MW Require Import PyBase Nodes Builder Flatten BuilderProofs.
From MW Require Import HeadingFrag HeadingFragProofs.
From MW Require Import EntityFrag EntityFragProofs.
From MW Require Import MixFrag MixFragProofs.

Theorem C02_build_total_partial : forall c, wf_code c -> exists t, build (fl_code c) = Ok t.
Proof. exact build_total_lemma. Qed.

(* every node is handled whatever follows it: the frame discipline of the Builder *)
Theorem C02_node_then_rest_partial : forall n, wf_node n ->
  forall f rest tok tl, fl_node n = tok :: tl -> 2 * length (fl_node n) <= f ->
    handle f tok (tl ++ rest) = Ok (n, rest).
Proof. intros n Hw. exact (all_ok (length (fl_node n)) n (le_n _) Hw). Qed.

Print Assumptions C02_build_total_partial.
Print Assumptions C02_node_then_rest_partial.

Example C02_truncated_stream_is_parser_error :
  build [TTemplateOpen; TText [97%N]] = Exn ParserError /\ build [TTemplateClose] = Exn ParserError.
Proof. vm_compute. split; reflexivity. Qed.

(* the heading fragment of the tokenizer (coq/HeadingFrag.v, tied to both tokenizers by tools/headfrag.py):
   the model is a total function and the Builder never rejects its stream, for every string and depth limit *)
Theorem C02_fragment_total : forall md s, exists c, build (frag_tokens md s) = Ok c.
Proof. intros md s. destruct (frag_end_to_end md s) as (c & H & _). now exists c. Qed.

Print Assumptions C02_fragment_total.

Theorem C02_entity_fragment_total : forall markers names msize s, exists c, build (efrag_tokens markers names msize s) = Ok c.
Proof. intros m n k s. destruct (efrag_end_to_end m n k s) as (c & H & _). now exists c. Qed.

Print Assumptions C02_entity_fragment_total.

Theorem C02_mixed_fragment_total : forall markers names msize md s, exists c, build (mfrag_tokens markers names msize md s) = Ok c.
Proof. intros m n k d s. destruct (mfrag_end_to_end m n k d s) as (c & H & _). now exists c. Qed.

Print Assumptions C02_mixed_fragment_total.
