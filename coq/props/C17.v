(* C17 - Pickling and copying a tree preserves it and detaches it.
   Model (Pickle.v): restoring a pickle of a page and some of its views adds a disjoint copy of
   the stores and re-registered copies of the views; original and copy are then independent
   because an operation only touches the store of its target (frame property of C13's sl_step).
   The protocol methods themselves are pinned to the shape this model assumes (C17_protocol_shape,
   on definitions regenerated from /repo's source). *)
From Coq Require Import String.
From MW Require Import PyBase PyList SmartList SmartListProofs Pickle.
From MW.gen Require Import PickleGen.
Local Open Scope Z_scope.

Section C17.
Context {A : Type} (eqb : A -> A -> bool) (sortf : list A -> list A).
Hypothesis sortf_length : forall l, length (sortf l) = length l.

(* the restored views are valid, registered views of the restored page *)
Theorem C17_restored_views_valid : forall (st : @sl A) ks, views_inv st -> views_inv (pickle_copy st ks).
Proof. exact copy_inv_lemma. Qed.

(* ... with the same content as the originals (which are unchanged by pickling) *)
Theorem C17_restored_render_equal : forall (st : @sl A) ks v,
  view_ok st v ->
  V_render (pickle_copy st ks) (shift_store (length (stores st)) v) = V_render st v /\
  V_render (pickle_copy st ks) v = V_render st v.
Proof. exact copy_render_lemma. Qed.

(* editing one side never changes the other: any operation leaves every other store and every
   view of another store exactly as it was *)
Theorem C17_independent : forall (st st' : @sl A) t o r,
  views_inv st -> sl_step eqb sortf st t o = Ok (st', r) ->
  let p := target_store st t in
  (forall q, q <> p -> (q < length (stores st))%nat -> store st' q = store st q) /\
  (forall j w, nth_error (views st) j = Some w -> v_store w <> p ->
     nth_error (views st') j = Some w /\ V_render st' w = V_render st w).
Proof. exact (step_frame_lemma eqb sortf sortf_length). Qed.
End C17.

(* The pickling methods have the shape the model assumes: SmartList pickles as an empty
   SmartList plus its items (no registry); ListProxy pickles its parent and its slice info and
   __setstate__ registers THE SAME slice-info object with the restored parent. *)
Theorem C17_protocol_shape :
  smartlist_reduce_ex = ["return (SmartList, (), None, iter(self))"%string] /\
  listproxy_reduce_ex = ["return (ListProxy, (self._parent, self._sliceinfo), ())"%string] /\
  listproxy_setstate = ["child_ref = weakref.ref(self, self._parent._delete_child)"%string;
                        "self._parent._children[id(child_ref)] = (child_ref, self._sliceinfo)"%string] /\
  listproxy_init = ["super().__init__()"%string; "self._parent = parent"%string; "self._sliceinfo = sliceinfo"%string].
Proof. repeat split; reflexivity. Qed.

Print Assumptions C17_restored_views_valid.
Print Assumptions C17_restored_render_equal.
Print Assumptions C17_independent.
Print Assumptions C17_protocol_shape.

Example C17_example :
  let st := run Z.eqb (fun l => l) (init [1; 2; 3; 4]) [AGet Parent (Some 1) (Some 3); AGet Parent (Some 2) None] in
  let st2 := pickle_copy st [0%nat; 1%nat] in
  let st3 := run Z.eqb (fun l => l) st2 [AOp (View 2) (LAppend 9)] in
  stores st3 = [[1; 2; 3; 4]; [1; 2; 3; 9; 4]] /\
  map (fun v => (v_store v, v_start v, v_stop v)) (views st3)
  = [(0%nat, 1, Some 3); (0%nat, 2, None); (1%nat, 1, Some 4); (1%nat, 2, None)].
Proof. vm_compute. split; reflexivity. Qed.
