(* C07 - The C tokenizer is memory-safe and leak-free.  PARTIAL: proved here is the logic of the
   hand-managed buffers (textbuffer.c growth / concat / reverse / render, the `length -= n` truncation after
   the backwards scheme scan, the fixed-size entity and brace text buffers) over a bounds-checked memory, with
   the comparison operators, constants and growth expressions regenerated from the C sources on every run
   (coq/gen/CBufGen.v; any function that no longer matches its template makes the first theorem fail).
   Reference counts, frees, the AVL tree and undefined behaviour in the remaining ~3k lines are NOT modelled:
   they are decided by the instrumented (ASan/UBSan) build, block counts and reference counts in
   tools/props/c07.py. *)
From Coq Require Import List Arith Bool Lia NArith.
From MW Require Import CBuffers.
From MW.gen Require Import CBufGen.
Import ListNotations.

Theorem C07_buffer_code_matches_model_template : c_textbuffer_matches_template = true.
Proof. vm_compute. reflexivity. Qed.

Definition c_new := tb_new c_initial_capacity.
Definition c_run := run c_initial_capacity c_resize_factor c_concat_extra c_write_needs_resize c_concat_needs_resize.

Lemma c_Hwrite : forall l c, l <= c -> c_write_needs_resize l c = false -> l < c.
Proof. intros l c H E. unfold c_write_needs_resize in E. apply Nat.leb_gt in E. exact E. Qed.
Lemma c_Hwrite_t : forall l c, c_write_needs_resize l c = true -> l <= c -> 0 < c -> l < c * c_resize_factor.
Proof. intros l c _ H Hc. unfold c_resize_factor. lia. Qed.
Lemma c_Hconcat : forall n c, c_concat_needs_resize n c = false -> n <= c.
Proof. intros n c E. unfold c_concat_needs_resize in E. apply Nat.ltb_ge in E. exact E. Qed.
Lemma c_Hconcat_t : forall n c, c_concat_needs_resize n c = true -> 0 < c -> 0 < n + c_concat_extra.
Proof. intros n c E Hc. unfold c_concat_needs_resize in E. apply Nat.ltb_lt in E. lia. Qed.
Lemma c_Hinit : 0 < c_initial_capacity.  Proof. unfold c_initial_capacity. lia. Qed.
Lemma c_Hfactor : 2 <= c_resize_factor.  Proof. unfold c_resize_factor. lia. Qed.

(* every sequence of buffer operations (writes to either buffer, concat, reverse, reset, truncation by at most
   the length, render) stays inside the allocated objects and computes the plain-list result *)
Theorem C07_textbuffer_operations_memory_safe_partial : forall ops,
  exists a b, c_run (c_new, c_new) ops = Some (a, b) /\ tb_inv a /\ tb_inv b /\
              (contents a, contents b) = fold_left spec_step ops ([], []).
Proof.
  intros ops.
  destruct (new_inv c_initial_capacity c_resize_factor c_Hinit c_Hfactor) as (Hn & Hc).
  destruct (run_ok c_initial_capacity c_resize_factor c_concat_extra c_write_needs_resize c_concat_needs_resize
              c_Hinit c_Hfactor c_Hwrite c_Hwrite_t c_Hconcat c_Hconcat_t ops c_new c_new Hn Hn) as (a & b & E & Ha & Hb & Hs).
  exists a, b. unfold c_new in *. rewrite Hc in Hs. auto.
Qed.

(* the backwards scan reads only initialised cells and the scheme it finds is never longer than the buffer,
   so `textbuffer->length -= len(scheme)` keeps 0 <= length <= capacity *)
Theorem C07_scheme_removal_memory_safe_partial : forall word b, tb_inv b ->
  exists l b', scheme_scan word b = Some l /\ tb_truncate b (length l) = Some b' /\ tb_inv b'.
Proof. exact (scheme_scan_then_truncate_ok c_initial_capacity c_resize_factor c_Hinit c_Hfactor). Qed.

(* the entity text buffer: every write is inside calloc(MAX_ENTITY_SIZE + 1) and the last cell stays 0 *)
Theorem C07_entity_buffer_memory_safe_partial : forall cs,
  exists text, entity_loop c_entity_guard cs 0 (repeat 0%N c_entity_alloc) = Some text /\
               length text = c_entity_alloc /\ nth_error text (c_entity_alloc - 1) = Some 0%N.
Proof.
  intros cs. apply entity_loop_ok.
  - intros i E. unfold c_entity_guard in E. apply Nat.leb_gt in E. unfold c_entity_alloc. lia.
  - apply repeat_length.
  - vm_compute. reflexivity.
Qed.

(* the brace text buffer holds the longest run plus its terminator *)
Theorem C07_brace_buffer_fits_partial : c_brace_run_max < c_brace_text_size.
Proof. vm_compute. lia. Qed.

Print Assumptions C07_buffer_code_matches_model_template.
Print Assumptions C07_textbuffer_operations_memory_safe_partial.
Print Assumptions C07_scheme_removal_memory_safe_partial.
Print Assumptions C07_entity_buffer_memory_safe_partial.
Print Assumptions C07_brace_buffer_fits_partial.

(* non-vacuity: the model detects an off-by-one growth test (length > capacity instead of >=) *)
Example C07_model_discriminates :
  run 2 2 32 (fun a b => Nat.ltb b a) (fun a b => Nat.ltb b a) (tb_new 2, tb_new 2)
      [OWrite false 1%N; OWrite false 2%N; OWrite false 3%N] = None.
Proof. vm_compute. reflexivity. Qed.
