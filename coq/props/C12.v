(* C12 - Sections partition the page and nest by heading level.
   Only statements here; each is closed by [exact] of a lemma from SectionsProofs.v. *)
From Coq Require Import Sorting.Sorted.
From MW Require Import PyBase Sections SectionsProofs.

(* The code's loop (open-heading stack, deferred sort) computes the declarative spec,
   for every page and every option combination. *)
Theorem C12_get_sections_spec : forall o p, get_sections o p = spec_sections o p.
Proof. exact get_sections_spec_lemma. Qed.
Print Assumptions C12_get_sections_spec.

(* flat=True, lead included: the sections concatenate to the page; one per heading + lead. *)
Theorem C12_flat_lead_partition : forall p,
  concat (map (sec_slice p) (get_sections flat_all p)) = p /\
  length (get_sections flat_all p) = S (count_headings p).
Proof. exact flat_lead_partition_lemma. Qed.
Print Assumptions C12_flat_lead_partition.

(* levels=/matches= select exactly the sections whose own heading qualifies; each starts at
   its heading (or just after it) and extends to [end_in]. *)
Theorem C12_filter_exact_and_extent : forall o q i s,
  In s (spec_from o q i) <->
  exists a l m b, q = a ++ Hd l m :: b /\ matcher o l m = true /\
    s = (st o (i + length a), end_in (o_flat o) b (S (i + length a)) l).
Proof. exact spec_from_in. Qed.
Print Assumptions C12_filter_exact_and_extent.

(* [end_in] is "the next heading of the same or a higher rank (any heading when flat)". *)
Theorem C12_extent_some : forall fl q i lvl j,
  end_in fl q i lvl = Some j ->
  exists a b l m, q = a ++ Hd l m :: b /\ j = (i + length a)%nat /\
    (fl = true \/ (l <= lvl)%Z) /\
    Forall (fun x => match x with Hd l' _ => fl = false /\ (lvl < l')%Z | Ot => True end) a.
Proof. exact end_in_some. Qed.
Print Assumptions C12_extent_some.

Theorem C12_extent_none : forall fl q i lvl,
  end_in fl q i lvl = None ->
  Forall (fun x => match x with Hd l' _ => fl = false /\ (lvl < l')%Z | Ot => True end) q.
Proof. exact end_in_none. Qed.
Print Assumptions C12_extent_none.

(* Deeper sections are contained in their parents. *)
Theorem C12_nesting : forall b l' m' c i l,
  (forall j, end_in false (b ++ Hd l' m' :: c) (S i) l = Some j -> (S i + length b < j)%nat) ->
  (l < l')%Z /\
  opt_le (end_in false c (S (S i + length b)) l')
         (end_in false (b ++ Hd l' m' :: c) (S i) l).
Proof. exact nesting_lemma. Qed.
Print Assumptions C12_nesting.

(* include_headings=False drops only the leading heading. *)
Theorem C12_drop_heading : forall o q i,
  spec_from (with_headings o false) q i
  = map (fun s : sec => (S (fst s), snd s)) (spec_from (with_headings o true) q i).
Proof. exact drop_heading_lemma. Qed.
Print Assumptions C12_drop_heading.

(* Sections are returned in page order. *)
Theorem C12_page_order : forall o p, StronglySorted key_le (get_sections o p).
Proof. exact page_order_lemma. Qed.
Print Assumptions C12_page_order.

(* Non-vacuity: a page with nested headings; computed inside Coq. *)
Example C12_example :
  get_sections {| o_levels := []; o_has_match := false; o_flat := false;
                  o_include_lead := None; o_include_headings := true |}
    [Ot; Hd 2 true; Ot; Hd 3 true; Ot; Hd 2 true]
  = [(0, Some 1); (1, Some 5); (3, Some 5); (5, None)]%nat.
Proof. vm_compute. reflexivity. Qed.
