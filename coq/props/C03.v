(* C03 - Well-formed markup is recognised with exactly the structure it was written with.  PARTIAL.
   Full statement (NOT proved): forall well-formed t, parse (render t) = t.
   It factors as  tokenize (render t) = fl_code t  (tokenizer completeness - validated on generated
   trees against both tokenizers) and  build (fl_code t) = t  (proved here for ALL well-formed trees:
   same node kinds, nesting, names, values, levels, attributes, flags), with positional template
   parameters named 1, 2, 3 ... in order. *)
From MW Require Import PyBase Nodes Builder Flatten BuilderProofs.
From MW Require Import HeadingFrag HeadingFragProofs.

Theorem C03_build_flatten_partial : forall c, wf_code c -> build (fl_code c) = Ok c.
Proof. exact build_flatten_lemma. Qed.

Theorem C03_positional_names : forall ps d,
  hidden_names_ok ps d -> hidden_keys ps = count_from d (length (hidden_keys ps)).
Proof. exact positional_names_lemma. Qed.

Print Assumptions C03_build_flatten_partial.
Print Assumptions C03_positional_names.

Example C03_example :
  build [TTemplateOpen; TText [116%N]; TTemplateParamSeparator; TText [97%N]; TTemplateParamSeparator;
         TText [107%N]; TTemplateParamEquals; TText [118%N]; TTemplateParamSeparator; TText [98%N]; TTemplateClose]
  = Ok [NTemplate [NText [116%N]] [([NText [49%N]], [NText [97%N]], false); ([NText [107%N]], [NText [118%N]], true);
                                   ([NText [50%N]], [NText [98%N]], false)]].
Proof. vm_compute. reflexivity. Qed.

(* the heading fragment of the tokenizer (coq/HeadingFrag.v, tied to both tokenizers by tools/headfrag.py):
   every heading the model recognises has a level between 1 and 6, for every string and depth limit *)
Theorem C03_fragment_heading_levels : forall md s, levels_ok (join_lines md (lines s)).
Proof. exact frag_levels. Qed.

Print Assumptions C03_fragment_heading_levels.
