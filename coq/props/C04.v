(* C04 - the C and Python tokenizers are interchangeable: constant tables.
   All tables are regenerated on every run: the Python ones from the imported modules, the C ones
   from the text of contexts.h, tok_parse.h, tok_support.h, tok_parse.c, definitions.[ch], tokens.c.
   The finite theorems are closed by computation on those tables; the predicate equivalence holds
   for ALL strings. Equality of the two token STREAMS is not proved (see DESIGN.md): it is checked
   by differential execution. *)
From Coq Require Import String List Bool NArith.
From MW Require Import TableLemmas.
From MW.gen Require Import Tables.
Import ListNotations.
Local Open Scope string_scope.

Theorem C04_contexts_agree : pairs_eqb py_contexts c_contexts = true.
Proof. vm_compute. reflexivity. Qed.

Theorem C04_tag_contexts_agree : pairs_eqb py_tag_contexts c_tag_contexts = true.
Proof. vm_compute. reflexivity. Qed.

(* local context flags are distinct single bits; every aggregate only uses bits of declared flags *)
Theorem C04_contexts_well_formed :
  nodup_N (map snd (flags py_contexts)) = true /\ aggregates_within py_contexts = true /\
  nodup_N (map snd (flags c_contexts)) = true /\ aggregates_within c_contexts = true /\
  nodup_N (map snd py_tag_contexts) = true /\ forallb (fun p => is_pow2 (snd p)) py_tag_contexts = true.
Proof. vm_compute. repeat split; reflexivity. Qed.

(* markers: the C table is the Python one plus the end sentinel '\0' (Python has START/END objects);
   NUM_MARKERS is the table's length; the Python split regex is markers + backslash *)
Theorem C04_markers_agree :
  nlist_eqb c_markers (0%N :: py_markers) = true /\
  N.of_nat (length c_markers) = c_num_markers /\ py_marker_sentinels = 2%N /\
  nlist_eqb py_regex_class (filter (fun c => negb (N.eqb c 92)) py_regex_class ++ []) = false /\
  nlist_eqb (filter (fun c => negb (N.eqb c 92)) py_regex_class) py_markers = true.
Proof. vm_compute. repeat split; reflexivity. Qed.

Theorem C04_limits_agree :
  py_max_depth = c_max_depth /\ py_urischeme_chars = c_urischeme_chars /\
  c_max_entity_size = 8%N /\ py_max_braces = c_max_braces.
Proof. vm_compute. repeat split; reflexivity. Qed.

(* the only character-class tests of the C sources are the Unicode ones (an ASCII-only ctype test such as
   Py_ISSPACE / isspace answers differently from str.isspace beyond U+007F and masks its argument) *)
Theorem C04_char_classes_are_unicode :
  forallb (fun s => existsb (String.eqb s) ["Py_UNICODE_ISSPACE"; "Py_UNICODE_ISALNUM"]) c_char_class_calls = true.
Proof. vm_compute. reflexivity. Qed.

Theorem C04_definitions_agree :
  strings_eqb py_uri_schemes c_uri_schemes = true /\
  strings_eqb py_uri_schemes_authority_optional c_uri_schemes_authority_optional = true /\
  strings_eqb py_parser_blacklist c_parser_blacklist = true /\
  strings_eqb py_single c_single = true /\ strings_eqb py_single_only c_single_only = true /\
  py_markup_to_html = c_markup_to_html.
Proof. vm_compute. repeat split; reflexivity. Qed.

(* every token class the C tokenizer loads exists in tokens.py and vice versa (Text included) *)
Theorem C04_token_names_agree : strings_eqb py_token_names c_token_names = true.
Proof. vm_compute. reflexivity. Qed.

(* named entities: both tokenizers use html.entities.entitydefs; the Builder/normalize use name2codepoint *)
Theorem C04_entity_tables_agree :
  strings_eqb entity_names entity_codepoint_names = true /\
  forallb (fun n => Nat.leb (String.length n) (N.to_nat c_max_entity_size)) entity_names = true.
Proof. vm_compute. split; reflexivity. Qed.

(* FOR ALL strings: Python's "name.lower() in TABLE" and C's unicode_in_string_list agree on each table *)
Theorem C04_lookups_equivalent : forall low : string,
  c_in c_uri_schemes low = py_in py_uri_schemes low /\
  c_in c_uri_schemes_authority_optional low = py_in py_uri_schemes_authority_optional low /\
  c_in c_parser_blacklist low = py_in py_parser_blacklist low /\
  c_in c_single low = py_in py_single low /\ c_in c_single_only low = py_in py_single_only low.
Proof.
  intros low.
  assert (E1 : c_uri_schemes = py_uri_schemes) by (vm_compute; reflexivity).
  assert (E2 : c_uri_schemes_authority_optional = py_uri_schemes_authority_optional) by (vm_compute; reflexivity).
  assert (E3 : c_parser_blacklist = py_parser_blacklist) by (vm_compute; reflexivity).
  assert (E4 : c_single = py_single) by (vm_compute; reflexivity).
  assert (E5 : c_single_only = py_single_only) by (vm_compute; reflexivity).
  rewrite E1, E2, E3, E4, E5.
  repeat split; apply in_table_equiv; vm_compute; reflexivity.
Qed.

Print Assumptions C04_char_classes_are_unicode.
Print Assumptions C04_contexts_agree.
Print Assumptions C04_tag_contexts_agree.
Print Assumptions C04_contexts_well_formed.
Print Assumptions C04_markers_agree.
Print Assumptions C04_limits_agree.
Print Assumptions C04_definitions_agree.
Print Assumptions C04_token_names_agree.
Print Assumptions C04_entity_tables_agree.
Print Assumptions C04_lookups_equivalent.

(* the heading fragment of the tokenizer (coq/HeadingFrag.v; each tokenizer is tied to the model instantiated with ITS
   OWN depth limit by tools/headfrag.py): on this sub-language the two token streams are equal for EVERY string *)
From MW Require HeadingFrag.
Theorem C04_fragment_streams_agree : forall s,
  HeadingFrag.frag_tokens (N.to_nat py_max_depth) s = HeadingFrag.frag_tokens (N.to_nat c_max_depth) s.
Proof. intros s. now rewrite (proj1 C04_limits_agree). Qed.

Print Assumptions C04_fragment_streams_agree.

(* the entity fragment of the tokenizer (coq/EntityFrag.v; each tokenizer is tied to the model instantiated with ITS OWN
   marker table and size limit by tools/headfrag.py run_entities): the C table is the Python table plus the end-of-input
   sentinel NUL, and the two instances give the same stream for EVERY string without U+0000 *)
From MW Require EntityFrag EntityFragProofs.
Theorem C04_entity_fragment_streams_agree : forall names s, ~ In 0%N s ->
  EntityFrag.efrag_tokens py_markers names (N.to_nat c_max_entity_size) s =
  EntityFrag.efrag_tokens c_markers names (N.to_nat c_max_entity_size) s.
Proof.
  intros names s H0. apply EntityFragProofs.efrag_tokens_ext. intros c Hc.
  assert (Hne : c <> 0%N) by (intros ->; contradiction).
  change c_markers with (0%N :: py_markers). unfold EntityFrag.is_marker. cbn [existsb].
  destruct (N.eqb_spec c 0); [contradiction|reflexivity].
Qed.

Print Assumptions C04_entity_fragment_streams_agree.

(* both fragments combined (coq/MixFrag.v, tied to each tokenizer with its own tables and limits by run_mixed): once the
   depth limits agree (C04_limits_agree) the Python and the C instance give the same stream for EVERY string without U+0000 *)
From MW Require MixFrag MixFragProofs.
Theorem C04_mixed_fragment_streams_agree : forall names s, ~ In 0%N s ->
  MixFrag.mfrag_tokens py_markers names (N.to_nat c_max_entity_size) (N.to_nat py_max_depth) s =
  MixFrag.mfrag_tokens c_markers names (N.to_nat c_max_entity_size) (N.to_nat c_max_depth) s.
Proof.
  intros names s H0. rewrite (proj1 C04_limits_agree). apply MixFragProofs.mfrag_tokens_ext. intros c Hc.
  assert (Hne : c <> 0%N) by (intros ->; contradiction).
  change c_markers with (0%N :: py_markers). unfold EntityFrag.is_marker. cbn [existsb].
  destruct (N.eqb_spec c 0); [contradiction|reflexivity].
Qed.

Print Assumptions C04_mixed_fragment_streams_agree.
