(* C05 - Bounded work and bounded nesting.  PARTIAL; the deciding evidence is measurement.
   No complexity bound and nothing about the native stack is proved.  What is proved, on call lists
   regenerated from tokenizer.py and tok_parse.c on every run: outside a fixed list of recursions that
   a context flag bounds (a heading cannot contain a heading, a link cannot contain a link, single-only
   tags have no body), NO cycle of calls between tokenizer functions avoids the depth-limit test -
   every unbounded recursion passes _can_recurse() / Tokenizer_CAN_RECURSE.  (The pinned tree's
   heading-end look-ahead violated exactly this: finding F7.) *)
From Coq Require Import String List Bool.
From MW Require Import Recursion.
From MW.gen Require Import RecursionGen.
Import ListNotations.
Local Open Scope string_scope.

Definition py_bounded : list (string * string) :=
  [("_parse", "_parse_heading"); ("_parse", "_parse_external_link"); ("_parse", "_handle_invalid_tag_start");
   ("_parse_wikilink", "_really_parse_external_link")].
Definition c_bounded : list (string * string) :=
  [("Tokenizer_parse", "Tokenizer_parse_heading"); ("Tokenizer_parse", "Tokenizer_parse_external_link");
   ("Tokenizer_parse", "Tokenizer_handle_invalid_tag_start"); ("Tokenizer_parse_wikilink", "Tokenizer_really_parse_external_link")].

Theorem C05_python_recursion_guarded_partial : forall f, ~ path py_ranks py_bounded py_unguarded_calls f f.
Proof. intros f. apply no_unguarded_cycle. vm_compute. reflexivity. Qed.

Theorem C05_c_recursion_guarded_partial : forall f, ~ path c_ranks c_bounded c_unguarded_calls f f.
Proof. intros f. apply no_unguarded_cycle. vm_compute. reflexivity. Qed.

(* Call-stack depth: a stack of tokenizer functions in which at most D calls pass the depth-limit test or are one
   of the exempt calls has at most (D + 1) * (R + 1) entries, R the largest rank (at most 13 functions deep
   between two depth-limited calls).  D itself is bounded by the depth counter (MAX_DEPTH open stacks; each
   exempt call is possible once per depth-limited level) - that part is the model assumption, measured by
   tools/props/c05.py (constant Python frame depth over doubling sizes). *)
Theorem C05_python_call_stack_bound_partial :
  forall fs, length fs <= (counted py_bounded py_unguarded_calls fs + 1) * (12 + 1).
Proof. intros fs. apply call_stack_bound with (ranks := py_ranks); vm_compute; reflexivity. Qed.

Theorem C05_c_call_stack_bound_partial :
  forall fs, length fs <= (counted c_bounded c_unguarded_calls fs + 1) * (12 + 1).
Proof. intros fs. apply call_stack_bound with (ranks := c_ranks); vm_compute; reflexivity. Qed.

Print Assumptions C05_python_recursion_guarded_partial.
Print Assumptions C05_c_recursion_guarded_partial.
Print Assumptions C05_python_call_stack_bound_partial.
Print Assumptions C05_c_call_stack_bound_partial.

(* the certificate checker rejects a graph with an unguarded cycle *)
Example C05_checker_discriminates :
  ranks_decrease [("a", 1); ("b", 0)] [] [("a", "b"); ("b", "a")] = false /\
  ranks_decrease [("a", 1); ("b", 0)] [("b", "a")] [("a", "b"); ("b", "a")] = true.
Proof. vm_compute. split; reflexivity. Qed.
