(* C19 - Independent parsers can run concurrently in threads without interference.  PARTIAL.
   Proved: (1) machines whose steps touch only their own instance state give, under EVERY
   interleaving, exactly the result of their solo runs; (2) on the current source, module-level
   state of the C extension is written only by module initialisation (and the idempotent lazy load of
   ParserError), the Python package has no `global` statement and creates no Tokenizer / Builder / Parser instance at import time or on a class, a Parser's parts are fresh instances made in its __init__, and each tokenizer call depends only
   on its own instance (C06).  NOT modelled: the GIL, CPython's own thread safety, the memory model;
   validated by a thread stress run against sequential results. *)
From Coq Require Import String List Bool Arith.
From MW Require Import State.
From MW.gen Require Import StateGen.
Import ListNotations.
Local Open Scope string_scope.

Theorem C19_interleave_independent :
  forall (S : Type) (step : nat -> S -> S) (sched : list nat) (init : list S) (i : nat) (d : S),
    i < length init ->
    nth i (run_schedule S step init sched) d
    = iter S (count_occ Nat.eq_dec sched i) (step i) (nth i init d).
Proof. exact interleave_independent. Qed.

Definition module_init_functions : list string :=
  ["PyInit__tokenizer"; "load_tokens_from_module"; "load_defs"; "load_entities"; "load_exceptions"].

Theorem C19_no_shared_mutable_state :
  writers_allowed module_init_functions c_globals = true /\ python_global_statements = [] /\
  python_shared_instances = [] /\ python_shared_writes = [].
Proof. vm_compute. repeat split; reflexivity. Qed.

(* every part a Parser stores is a fresh instance (or a constant) made in its own __init__ *)
Theorem C19_parser_parts_are_fresh :
  forallb (fun p => orb (String.eqb (snd p) "new") (String.eqb (snd p) "const")) parser_part_sources = true /\
  existsb (fun p => String.eqb (fst p) "_builder") parser_part_sources = true /\
  existsb (fun p => String.eqb (fst p) "_tokenizer") parser_part_sources = true.
Proof. vm_compute. repeat split; reflexivity. Qed.

Theorem C19_instances_own_their_state :
  subset tokenizer_fields tokenizer_reset = true /\ subset ctokenizer_fields ctokenizer_reset = true /\
  subset builder_fields builder_reset = true.
Proof. vm_compute. repeat split; reflexivity. Qed.

Print Assumptions C19_interleave_independent.
Print Assumptions C19_no_shared_mutable_state.
Print Assumptions C19_instances_own_their_state.
Print Assumptions C19_parser_parts_are_fresh.
