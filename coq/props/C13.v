(* C13 - SmartList and its sub-lists behave like lists and keep views consistent.
   Statements only; proofs are in SmartListProofs.v (model: SmartList.v, list spec: PyList.v). *)
From MW Require Import PyBase SliceLemmas PyList SmartList SmartListProofs.
Local Open Scope Z_scope.

Section C13.
Context {A : Type} (eqb : A -> A -> bool) (sortf : list A -> list A).
Hypothesis sortf_length : forall l, length (sortf l) = length l.

(* Every state reachable from a fresh SmartList by ANY sequence of list operations and
   slicings, on the parent or on any sub-list, keeps every sub-list inside its parent:
   0 <= start <= stop <= len(parent). *)
Theorem C13_reachable_invariant : forall items acts,
  views_inv (run eqb sortf (init items) acts).
Proof. exact (inv_reachable eqb sortf sortf_length). Qed.

(* ... hence every live sub-list can be read without error, and reading gives its slice. *)
Theorem C13_read_total : forall (st : @sl A) v, view_ok st v -> V_read st v = Ok (V_render st v).
Proof. exact read_valid. Qed.

(* A sub-list gives the same result / exception as a plain list for every operation, its new
   content is the list's new content, and the parent reflects the edit at the sub-list's offset. *)
Theorem C13_proxy_op_is_list_op : forall st k v o,
  views_inv st -> nth_error (views st) k = Some v ->
  match list_step eqb sortf (V_render st v) o with
  | Exn e => sl_step eqb sortf st (View k) o = Exn e
  | Resource => False
  | Ok (L', r) =>
      exists st', sl_step eqb sortf st (View k) o = Ok (st', r) /\
        (exists v', nth_error (views st') k = Some v' /\ v_store v' = v_store v /\
                    v_start v' = v_start v /\ V_read st' v' = Ok L') /\
        store st' (v_store v)
          = firstn (Z.to_nat (v_start v)) (store st (v_store v)) ++ L'
            ++ skipn (Z.to_nat (V_stop st v)) (store st (v_store v))
  end.
Proof. exact (proxy_op_is_list_op_lemma eqb sortf). Qed.

(* The parent itself is a plain list (its methods are compositions of __setitem__/__delitem__). *)
Theorem C13_parent_is_list : forall st p o, parent_step eqb sortf st p o = parent_outcome eqb sortf st p o.
Proof. exact (parent_step_spec eqb sortf). Qed.

(* After any operation on the parent or on any sub-list, every OTHER sub-list is still valid and
   its content is  pre ++ ins ++ post  where its old content was  pre ++ del ++ post :
   it keeps exactly its surviving elements (pre, post), in order, loses only deleted ones (del),
   and gains at most the operation's own new elements (ins = [] or ins = new). *)
Theorem C13_others_keep_survivors : forall st t o st' r j w,
  views_inv st -> sl_step eqb sortf st t o = Ok (st', r) -> t <> View j ->
  nth_error (views st) j = Some w ->
  (t = Parent -> reorders o = false) ->
  exists w', nth_error (views st') j = Some w' /\ view_ok st' w' /\
    exists pre del post ins,
      V_render st w = pre ++ del ++ post /\
      V_render st' w' = pre ++ ins ++ post /\
      (ins = [] \/ exists a b new r',
          list_splice eqb sortf (target_list st t) o = Ok (a, b, new, r') /\ ins = new).
Proof. exact (others_keep_survivors_lemma eqb sortf). Qed.

(* reverse()/sort() on the parent detach the sub-lists: each keeps all its elements. *)
Theorem C13_detached_keep_all : forall st o st' r j w,
  views_inv st -> sl_step eqb sortf st Parent o = Ok (st', r) -> reorders o = true ->
  nth_error (views st) j = Some w ->
  exists w', nth_error (views st') j = Some w' /\ view_ok st' w' /\ V_render st' w' = V_render st w.
Proof. exact (detached_keep_all_lemma eqb sortf sortf_length). Qed.

End C13.

(* The index arithmetic underneath: how a view [s,e) moves when l[a:b] := new. *)
Theorem C13_view_after_splice : forall (A : Type) (l : list A) a b new s e,
  (a <= b -> b <= length l -> s <= e -> e <= length l ->
  let l' := splice l a b new in
  let s' := f_start s a b (length new) in
  let e' := f_stop e a b (length new) in
  s' <= e' /\ e' <= length l' /\
  exists pre del post ins,
    slice l s e = pre ++ del ++ post /\
    slice l' s' e' = pre ++ ins ++ post /\
    (ins = [] \/ ins = new) /\
    (exists u w, slice l a b = u ++ del ++ w) /\
    pre = slice (firstn a l) s e /\ post = slice (skipn b l) (s - b) (e - b))%nat.
Proof. exact @view_after_splice. Qed.

Print Assumptions C13_reachable_invariant.
Print Assumptions C13_read_total.
Print Assumptions C13_proxy_op_is_list_op.
Print Assumptions C13_parent_is_list.
Print Assumptions C13_others_keep_survivors.
Print Assumptions C13_detached_keep_all.
Print Assumptions C13_view_after_splice.

(* Non-vacuity: a concrete reachable state with nested and adjacent views, computed in Coq. *)
Definition ex_sort (l : list Z) : list Z := l.
Definition ex_state :=
  run Z.eqb ex_sort (init [10; 11; 12; 13; 14])
      [AGet Parent (Some 1) (Some 4); AGet Parent (Some 2) None; AGet (View 0) (Some (-1)) None;
       AOp (View 0) (LInsert (-1) 99); AOp Parent (LDelSlice (Some 0) (Some 2));
       AOp (View 1) (LPop None)].
Example C13_example :
  stores ex_state = [[12; 99; 13]] /\
  map (fun v => (v_start v, v_stop v)) (views ex_state) = [(0, Some 3); (0, None); (1, Some 3)].
Proof. vm_compute. split; reflexivity. Qed.

(* The pinned tree's rule (SmartList.__delitem__ before the repair: subtract the deleted length
   from a start that lies beyond the deletion's start, from a stop beyond its end) breaks the
   invariant: finding F10. *)
Definition pinned_del_shift (a b s e : Z) : Z * Z :=
  let diff := b - a in ((if s >? a then s - diff else s), (if e >=? b then e - diff else e)).
Example C13_pinned_rule_refuted :
  exists a b s e len, 0 <= a <= b /\ b <= len /\ 0 <= s <= e /\ e <= len /\
    let '(s', e') := pinned_del_shift a b s e in ~ (0 <= s' <= e').
Proof. exists 0, 3, 1, 2, 4. vm_compute. intuition discriminate. Qed.
