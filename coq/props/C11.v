(* C11 - Section views are live and stay coherent with the page under edits.
   A page is a SmartList of node identities, sections are registered views (C12 says where
   get_sections puts them, C13 how views behave); every Wikicode edit call is a finite
   sequence of list operations (WikiEdit.v).  Statements only. *)
From MW Require Import PyBase PyList SmartList SmartListProofs WikiEdit WikiEditProofs SmartListEnd.
Local Open Scope Z_scope.

Section C11.
Context {A : Type} (eqb : A -> A -> bool) (sortf : list A -> list A).
Hypothesis sortf_length : forall l, length (sortf l) = length l.

(* An edit made through a section behaves like the same edit on a plain node list and appears
   in the page at the section's place: page' = page[:start] ++ section' ++ page[stop:]. *)
Theorem C11_edit_through_section : forall (st : @sl A) k v w,
  views_inv st -> nth_error (views st) k = Some v ->
  match wc_list eqb sortf (V_render st v) w with
  | Exn e => wc_step eqb sortf st (View k) w = Exn e
  | Resource => False
  | Ok L' =>
      exists st', wc_step eqb sortf st (View k) w = Ok st' /\ views_inv st' /\
        (exists v', nth_error (views st') k = Some v' /\ V_render st' v' = L') /\
        store st' (v_store v)
          = firstn (Z.to_nat (v_start v)) (store st (v_store v)) ++ L'
            ++ skipn (Z.to_nat (V_stop st v)) (store st (v_store v))
  end.
Proof. exact (edit_through_section_lemma eqb sortf sortf_length). Qed.

(* An edit made through the page is the plain-list edit of the page's node list. *)
Theorem C11_edit_through_page : forall (st : @sl A) w,
  views_inv st ->
  match wc_list eqb sortf (store st 0%nat) w with
  | Exn e => wc_step eqb sortf st Parent w = Exn e
  | Resource => False
  | Ok L' => exists st', wc_step eqb sortf st Parent w = Ok st' /\ views_inv st' /\ store st' 0%nat = L'
  end.
Proof. exact (edit_through_page_lemma eqb sortf). Qed.

(* Whatever object the edit goes through, every OTHER section stays a valid view, can be read,
   is related to its old content by a chain of splices that only delete elements or insert the
   edit's own new nodes, and therefore gains no node that was outside it. *)
Theorem C11_other_sections : forall (st st' : @sl A) t w j sec,
  views_inv st -> wc_step eqb sortf st t w = Ok st' -> t <> View j ->
  nth_error (views st) j = Some sec ->
  exists sec', nth_error (views st') j = Some sec' /\ view_ok st' sec' /\
    V_read st' sec' = Ok (V_render st' sec') /\
    chain (wop_new w) (V_render st sec) (V_render st' sec') /\
    (forall x, In x (V_render st' sec') -> In x (V_render st sec) \/ In x (wop_new w)).
Proof. exact (other_sections_lemma eqb sortf sortf_length). Qed.

(* After ANY sequence of edits through the page and its sections, all sections are valid views. *)
Theorem C11_sections_remain_views : forall (st : @sl A) edits,
  views_inv st -> views_inv (wc_run eqb sortf st edits).
Proof. exact (sections_remain_views_lemma eqb sortf sortf_length). Qed.

End C11.

(* page.append / extend: the end of the page is a place that every section running to the end of the page contains - such a
   section (open-ended, or with an explicit stop equal to the page's length) ends at the end of the page afterwards as well, so
   it shows the appended nodes; a non-empty section keeps its start *)
Theorem C11_append_reaches_sections_at_the_end : forall (A : Type) (st : @sl A) p xs k v,
  (p < length (stores st))%nat -> nth_error (views st) k = Some v -> v_store v = p ->
  V_stop st v = zlen (store st p) ->
  let st' := P_extend st p xs in
  exists v', nth_error (views st') k = Some v' /\ v_store v' = p /\
             V_stop st' v' = zlen (store st' p) /\ zlen (store st' p) = zlen (store st p) + zlen xs /\
             (v_start v < zlen (store st p) -> v_start v' = v_start v).
Proof. exact (@extend_reaches_views_at_the_end). Qed.

Print Assumptions C11_append_reaches_sections_at_the_end.
Print Assumptions C11_edit_through_section.
Print Assumptions C11_edit_through_page.
Print Assumptions C11_other_sections.
Print Assumptions C11_sections_remain_views.

(* Non-vacuity: a page with two sections, edited through one section, the page and by view. *)
Definition ex11 :=
  let st0 := run Z.eqb (fun l => l) (init [1; 2; 3; 4; 5; 6])
               [AGet Parent (Some 1) (Some 4); AGet Parent (Some 3) None] in
  wc_run Z.eqb (fun l => l) st0
    [(View 0, WBeforeNode 3 [70; 71]); (Parent, WSet (-1) []); (View 1, WRemoveSelf); (Parent, WAppend [80])].
Example C11_example :
  stores ex11 = [[1; 2; 70; 71; 3; 80]] /\
  map (fun v => (v_start v, v_stop v)) (views ex11) = [(1, Some 6); (5, None)].
Proof. vm_compute. split; reflexivity. Qed.
