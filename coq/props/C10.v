(* C10 - Template parameter edits keep the template well-formed and names stable.
   FULL at the parameter-list level, for any name type with a decidable equality, any numbering
   of hideable names and any value type; the re-parse clause (render, parse again, compare) is
   validated by the oracle, not proved.  Model: coq/Template.v (has / remove with keep_field,
   _should_remove, _fix_dependendent_params / add with the library's own key-visibility choice). *)
From MW Require Import PyBase Template TemplateProofs.

Section C10.
Variables (name value : Type) (eqb : name -> name -> bool) (num : name -> option nat) (blank : value -> value)
          (unescapable : value -> bool).
Hypothesis eqb_spec : forall a b, eqb a b = true <-> a = b.

(* Hidden keys are positional: the i-th hidden parameter is named i.  This holds after ANY
   sequence of add / remove calls (the Builder establishes it for parsed templates: C03). *)
Theorem C10_hidden_inv_reachable : forall ops ps,
  Hidden name value num ps -> Hidden name value num (run name value eqb num blank unescapable ps ops).
Proof. exact (hidden_inv_reachable_lemma name value eqb num blank unescapable). Qed.

Theorem C10_has_after_add : forall n v ps, has name value eqb n (add name value eqb num blank unescapable n v ps) = true.
Proof. exact (has_after_add_lemma name value eqb num blank unescapable eqb_spec). Qed.

Theorem C10_not_has_after_remove : forall n ps, has name value eqb n (rem name value eqb blank n false false ps) = false.
Proof. exact (not_has_after_remove_lemma name value eqb blank). Qed.

(* remove() never renames anybody: the stored names of all other parameters are unchanged, in order;
   together with the invariant (hidden names ARE the positions) so are the names the parser sees *)
Theorem C10_remove_renames_nobody : forall n ps,
  map (pn name value) (rem name value eqb blank n false false ps)
  = filter (fun m => negb (eqb n m)) (map (pn name value) ps).
Proof. exact (remove_renames_nobody_lemma name value eqb blank). Qed.

Theorem C10_keep_field_keeps_name : forall n ps,
  has name value eqb n ps = true -> has name value eqb n (rem name value eqb blank n true false ps) = true.
Proof. exact (keep_field_keeps_name_lemma name value eqb num blank). Qed.
End C10.

Print Assumptions C10_hidden_inv_reachable.
Print Assumptions C10_has_after_add.
Print Assumptions C10_not_has_after_remove.
Print Assumptions C10_remove_renames_nobody.
Print Assumptions C10_keep_field_keeps_name.

(* Non-vacuity: {{t|a|b|c}}; remove the first positional parameter: the others become explicit *)
Definition znum (z : Z) : option nat := if Z.ltb 0 z then Some (Z.to_nat z) else None.
Example C10_example :
  let ps := [{| pn := 1%Z; shown := false; pv := 10%Z |}; {| pn := 2%Z; shown := false; pv := 11%Z |};
             {| pn := 3%Z; shown := false; pv := 12%Z |}] in
  Hidden Z Z znum ps /\
  map (fun p => (pn Z Z p, shown Z Z p)) (run Z Z Z.eqb znum (fun _ => 0%Z) (fun v => Z.ltb v 0) ps [ORemove Z Z 1%Z false; OAdd Z Z 1%Z 13%Z; ORemove Z Z 2%Z false; OAdd Z Z 2%Z (-5)%Z])
  = [(3%Z, true); (1%Z, false); (2%Z, true)].
Proof. vm_compute. split; reflexivity. Qed.

(* ---- values: what add() escapes (Template._surface_escape; coq/Escape.v) ---- *)
From MW Require Import Escape EscapeProofs.

(* after escaping, the character occurs nowhere outside the brackets of a nested node: not in the value's own text and
   not inside a heading or an external link, which have no brackets of their own (F37) *)
Theorem C10_escape_leaves_no_bare_separator : forall c ent, ~ In c ent -> forall v, ~ In c (bare (escape c ent v)).
Proof. exact escape_protects. Qed.

(* a value without such an occurrence is stored as it was given *)
Theorem C10_escape_changes_nothing_else : forall c ent v, ~ In c (bare v) -> escape c ent v = v.
Proof. exact escape_id. Qed.

Example C10_escape_example :
  let pipe := 124%N in let ent := [38; 35; 49; 50; 52; 59]%N in
  str_value (escape pipe ent [IText [97; 124]%N; IClosed [123; 124; 125]%N; IOpen [61]%N [([IText [124]%N], [61]%N)]])
  = ([97] ++ ent ++ [123; 124; 125] ++ [61] ++ ent ++ [61])%N.
Proof. vm_compute. reflexivity. Qed.

Print Assumptions C10_escape_leaves_no_bare_separator.
Print Assumptions C10_escape_changes_nothing_else.

(* hidden keys: when none of the value's own headings / external links renders an '=' (Template._has_unescapable_equals is false -
   otherwise add() writes the key out), escaping leaves no '=' anywhere outside the brackets of a nested node: not in the text, not in
   the markers of a heading, not inside a link - so the rendered value cannot be taken for "name=value" *)
Theorem C10_hidden_key_value_has_no_exposed_equals : forall c ent, ~ In c ent ->
  forall v, open_renders c v = false -> ~ In c (exposed (escape c ent v)).
Proof. exact escape_hides_everywhere. Qed.

Example C10_hidden_key_example :
  let eq := 61%N in
  open_renders eq [IText [97; 61]%N; IOpen [61; 61]%N [([IText [104]%N], [61; 61]%N)]] = true /\
  open_renders eq [IText [97; 61]%N; IClosed [123; 61; 125]%N] = false.
Proof. vm_compute. split; reflexivity. Qed.

Print Assumptions C10_hidden_key_value_has_no_exposed_equals.
