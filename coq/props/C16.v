(* C16 - Nodes and Wikicode behave exactly like their string rendering (model of attribute lookup).
   Tables (dir(str), dir(object), StringMixIn's definitions and bodies, names defined by every node
   class) are regenerated from the running CPython and /repo's source: coq/gen/MixinGen.v. *)
From Coq Require Import String List Bool.
From MW Require Import Mixin.
From MW.gen Require Import MixinGen.
Import ListNotations.
Local Open Scope string_scope.

(* a str name that no class in the MRO defines is served by str(x) *)
Theorem C16_delegated_equals_str : forall cd md od sd name,
  ~ In name cd -> ~ In name md -> ~ In name od -> In name sd -> lookup cd md od sd name = Delegated.
Proof. exact delegated_lemma. Qed.

(* a name str does not have is never delegated; if nobody defines it, AttributeError *)
Theorem C16_unknown_raises : forall cd md od sd name,
  ~ In name sd -> lookup cd md od sd name <> Delegated /\
  (~ In name cd -> ~ In name md -> ~ In name od -> lookup cd md od sd name = AttrError).
Proof. exact unknown_lemma. Qed.

(* on the current source: every explicit magic method of the mixin delegates to str(self) *)
Theorem C16_magic_bodies_delegate : bodies_ok mixin_defined mixin_bodies str_dir = true.
Proof. vm_compute. reflexivity. Qed.

(* on the current source, for every node class and every name of dir(str): the name is defined by
   the class on purpose, defined by the mixin, delegated, or - if it is found on object - one of
   the 13 names that describe the object rather than its text *)
Theorem C16_no_text_behaviour_shadowed : no_shadow class_table mixin_defined object_dir str_dir = true.
Proof. vm_compute. reflexivity. Qed.

(* __getattr__ itself: test hasattr(str, attr) first, raise without rendering, else delegate *)
Theorem C16_getattr_shape :
  In ("__getattr__", "(self, attr): if not hasattr(str, attr):
    raise AttributeError('{!r} object has no attribute {!r}'.format(type(self).__name__, attr)) ;; return getattr(self.__str__(), attr)")
     mixin_bodies.
Proof. vm_compute. tauto. Qed.

(* on the current source: a class redefines a name of dir(str) only where that is documented (its own __str__, __init__,
   Wikicode.index / .replace, the title attributes, Template.__getitem__); a new __bool__, __eq__ ... on a class would
   take a str behaviour away from the mixin *)
Theorem C16_classes_redefine_only_documented_names : only_documented_redefinitions class_table str_dir = true.
Proof. vm_compute. reflexivity. Qed.

Print Assumptions C16_classes_redefine_only_documented_names.
Print Assumptions C16_delegated_equals_str.
Print Assumptions C16_unknown_raises.
Print Assumptions C16_magic_bodies_delegate.
Print Assumptions C16_no_text_behaviour_shadowed.
Print Assumptions C16_getattr_shape.

(* Non-vacuity: "strip" on a Template is delegated, "index" on Wikicode is the class's own,
   "__sizeof__" is object's, "frobnicate" raises. *)
Example C16_example :
  let cd c := match find (fun p => String.eqb (fst p) c) class_table with Some p => snd p | None => [] end in
  lookup (cd "Template") mixin_defined object_dir str_dir "strip" = Delegated /\
  lookup (cd "Wikicode") mixin_defined object_dir str_dir "index" = FoundClass /\
  lookup (cd "Text") mixin_defined object_dir str_dir "__sizeof__" = FoundObject /\
  lookup (cd "Text") mixin_defined object_dir str_dir "__format__" = FoundMixin /\
  lookup (cd "Text") mixin_defined object_dir str_dir "frobnicate" = AttrError.
Proof. vm_compute. repeat split; reflexivity. Qed.
