(* C15 - strip_code is total and never invents text.
   Model: coq/Strip.v (Wikicode.strip_code and every node's __strip__), over the tree of Nodes.v.
   Proved for every well-formed tree (the normal forms of the Builder's output), any visibility
   table and any entity normaliser: with normalize off and template parameters not kept,
   strip_code returns a string that is a SUBSEQUENCE of the source text, with and without collapse.
   Totality is structural: the model is a total function; it returns an exception only if the entity
   normaliser does (C15_entities_total covers every named entity of the generated table).
   The normalize=True variant (subsequence after entities are replaced by their characters) is
   validated by the oracle, not proved. *)
From Coq Require Import String.
From MW Require Import PyBase Nodes Builder Flatten Strip StripProofs StripInst.
From MW.gen Require Import Tables.

Theorem C15_strip_only_removes : forall invisible entity_char o c,
  plain o -> wf_code c ->
  exists s, strip_code invisible entity_char o c = Ok s /\ subseq s (str_code c).
Proof. exact strip_code_subseq_lemma. Qed.

Theorem C15_collapse_only_removes : forall s, subseq (collapse_str s) s.
Proof. exact collapse_subseq. Qed.

(* every named entity the parser recognises normalises to one character *)
Theorem C15_entities_total :
  forallb (fun p => match py_entity_char (str_of_string (fst p)) true false with Ok [_] => true | _ => false end)
          entity_codepoints = true.
Proof. vm_compute. reflexivity. Qed.

(* numeric entities: every code point up to 0x10FFFF is accepted, anything above rejected (boundaries) *)
Theorem C15_numeric_boundaries :
  py_entity_char [49%N] false false = Ok [1%N] /\
  py_entity_char [49; 49; 49; 52; 49; 49; 49]%N false false = Ok [1114111%N] /\
  py_entity_char [49; 49; 49; 52; 49; 49; 50]%N false false = Exn ValueError /\
  py_entity_char [49; 48; 70; 70; 70; 70]%N false true = Ok [1114111%N] /\
  py_entity_char [49; 49; 48; 48; 48; 48]%N false true = Exn ValueError.
Proof. vm_compute. repeat split; reflexivity. Qed.

Print Assumptions C15_strip_only_removes.
Print Assumptions C15_collapse_only_removes.
Print Assumptions C15_entities_total.
Print Assumptions C15_numeric_boundaries.

Example C15_example :
  py_strip_code {| normalize := false; collapse := true; keep_params := false |}
    [NText [97; 10; 10; 10; 98]%N; NTemplate [NText [116%N]] []; NWikilink [NText [80%N]] (Some [NText [120%N]])]
  = Ok [97; 10; 10; 98; 120]%N.
Proof. vm_compute. reflexivity. Qed.
