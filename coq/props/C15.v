(* C15 - strip_code is total and never invents text.
   Model: coq/Strip.v (Wikicode.strip_code and every node's __strip__), over the tree of Nodes.v.
   Proved for every well-formed tree (the normal forms of the Builder's output), any visibility
   table and any entity normaliser: with normalize off and template parameters not kept,
   strip_code returns a string that is a SUBSEQUENCE of the source text, with and without collapse.
   Totality is structural: the model is a total function; it returns an exception only if the entity
   normaliser does (C15_entities_total covers every named entity of the generated table).
   With normalize on the same holds after each entity is replaced by the character it denotes
   (C15_strip_after_normalising_entities, coq/StripNorm.v: [ntext_code o c] is the text of the tree in which every
   entity that normalises is replaced by its character - the identity replacement when normalize is off); an
   entity that does not normalise makes strip_code raise, in the model as in the code. *)
From Coq Require Import String.
From MW Require Import PyBase Nodes Builder Flatten Strip StripProofs StripInst StripNorm.
From MW.gen Require Import Tables.

Theorem C15_strip_only_removes : forall invisible entity_char o c,
  plain o -> wf_code c ->
  exists s, strip_code invisible entity_char o c = Ok s /\ subseq s (str_code c).
Proof. exact strip_code_subseq_lemma. Qed.

Theorem C15_strip_after_normalising_entities : forall invisible entity_char o c,
  keep_params o = false -> wf_code c ->
  match strip_code invisible entity_char o c with
  | Ok s => subseq s (ntext_code entity_char o c)
  | _ => True
  end.
Proof. exact strip_code_subseqn_lemma. Qed.

Theorem C15_collapse_only_removes : forall s, subseq (collapse_str s) s.
Proof. exact collapse_subseq. Qed.

(* every named entity the parser recognises normalises to one character *)
Theorem C15_entities_total :
  forallb (fun p => match py_entity_char (str_of_string (fst p)) true false with Ok [_] => true | _ => false end)
          entity_codepoints = true.
Proof. vm_compute. reflexivity. Qed.

(* numeric entities: every code point up to 0x10FFFF is accepted, anything above rejected (boundaries) *)
Theorem C15_numeric_boundaries :
  py_entity_char [49%N] false false = Ok [1%N] /\
  py_entity_char [49; 49; 49; 52; 49; 49; 49]%N false false = Ok [1114111%N] /\
  py_entity_char [49; 49; 49; 52; 49; 49; 50]%N false false = Exn ValueError /\
  py_entity_char [49; 48; 70; 70; 70; 70]%N false true = Ok [1114111%N] /\
  py_entity_char [49; 49; 48; 48; 48; 48]%N false true = Exn ValueError.
Proof. vm_compute. repeat split; reflexivity. Qed.

Print Assumptions C15_strip_only_removes.
Print Assumptions C15_strip_after_normalising_entities.
Print Assumptions C15_collapse_only_removes.
Print Assumptions C15_entities_total.
Print Assumptions C15_numeric_boundaries.

Example C15_example :
  py_strip_code {| normalize := false; collapse := true; keep_params := false |}
    [NText [97; 10; 10; 10; 98]%N; NTemplate [NText [116%N]] []; NWikilink [NText [80%N]] (Some [NText [120%N]])]
  = Ok [97; 10; 10; 98; 120]%N.
Proof. vm_compute. reflexivity. Qed.

(* normalize on: "a&amp;b" strips to "a&b", a subsequence of the normalised source and NOT of the source *)
Example C15_normalised_example :
  let o := {| normalize := true; collapse := false; keep_params := false |} in
  let c := [NText [97%N]; NEntity [97; 109; 112]%N true false [120%N]; NText [98%N]] in
  py_strip_code o c = Ok [97; 38; 98]%N /\ ntext_code py_entity_char o c = [97; 38; 98]%N.
Proof. vm_compute. split; reflexivity. Qed.
