(* C18 - Setters coerce by parsing, validate, and are atomic on rejection.
   FULL for atomicity and the quoting invariant; the clause "renders the assigned text exactly"
   is C01's round trip through parse_anything (validated there and by this check's oracle).
   Every property setter of every node class is regenerated from /repo's source on every run as an
   effect program (coq/gen/SettersGen.v); [atomic_prog] enumerates all its execution paths, where any
   call may raise, and demands that no store to the object precedes a possible raise. *)
From Coq Require Import String List Bool.
From MW Require Import Nodes Context.
From MW Require Import Setters.
From MW.gen Require Import SettersGen.
Import ListNotations.
Local Open Scope string_scope.

Theorem C18_setters_atomic : forallb (fun s => atomic_prog (snd s)) setters = true.
Proof. vm_compute. reflexivity. Qed.

(* the setters the property names are all present (a renamed or removed setter is noticed) *)
Theorem C18_setters_present :
  forallb (fun n => existsb (fun s => String.eqb (fst s) n) setters)
    ["Heading.level"; "Heading.title"; "HTMLEntity.value"; "HTMLEntity.named"; "HTMLEntity.hexadecimal"; "HTMLEntity.hex_char";
     "Parameter.showkey"; "Parameter.name"; "Parameter.value"; "Attribute.value"; "Attribute.quotes"; "Attribute.pad_first";
     "Attribute.pad_before_eq"; "Attribute.pad_after_eq"; "Attribute.name"; "Tag.padding"; "Tag.tag"; "Tag.contents";
     "Tag.closing_tag"; "Tag.wiki_markup"; "Template.name"; "Wikilink.title"; "Wikilink.text"; "ExternalLink.url";
     "ExternalLink.title"; "Argument.name"; "Argument.default"; "Comment.contents"; "Text.value"; "Wikicode.nodes"] = true.
Proof. vm_compute. reflexivity. Qed.

(* over every sequence of value / quotes assignments: an attribute whose value has whitespace has quotes *)
Theorem C18_attr_ws_quoted : forall ops s, attr_inv s -> attr_inv (attr_run s ops).
Proof. exact attr_ws_quoted_lemma. Qed.

(* a key may be hidden exactly when the stripped name is a positive decimal integer without leading zeros: the
   pattern Parameter.can_hide_key uses (the numbering of hidden keys in C10's model rests on the same definition) *)
Theorem C18_hideable_keys_are_positive_integers :
  can_hide_key_pattern = "match:[1-9][0-9]*$" /\ can_hide_key_strips = true.
Proof. vm_compute. split; reflexivity. Qed.

(* an accepted assignment to a Wikicode-valued attribute puts the (parsed) value in one of the node's places:
   the node then renders as  pre ++ text(value) ++ post  with pre, post independent of the value, i.e. the
   assigned text appears exactly, in place, and the rest of the node's text is what it was *)
Theorem C18_assigned_child_renders_in_place : forall F, node_hole F ->
  exists pre post, forall v, str_node (F v) = (pre ++ str_code v ++ post)%list.
Proof. exact node_hole_span. Qed.

Print Assumptions C18_setters_atomic.
Print Assumptions C18_setters_present.
Print Assumptions C18_attr_ws_quoted.

(* the checker rejects a store-then-raise setter and accepts validate-then-store *)
Example C18_checker_discriminates :
  atomic_prog [Store "_x"; MayRaise "int(v)"; Store "_y"] = false /\
  atomic_prog [MayRaise "int(v)"; If [Raise] []; Store "_x"] = true /\
  atomic_prog [Try [Store "_x"; MayRaise "f()"] [Return] []] = false.
Proof. vm_compute. repeat split; reflexivity. Qed.
Print Assumptions C18_assigned_child_renders_in_place.
Print Assumptions C18_hideable_keys_are_positive_integers.
