(* C06 - Parsing is a pure function of its input, even after failed or interrupted calls.
   Model: coq/State.v.  Field lists are regenerated from /repo's source on every run
   (coq/gen/StateGen.v): every self.<field> of Tokenizer / Builder / Parser, the fields assigned at
   the start of tokenize()/build() before parsing begins, the members of the C Tokenizer struct and
   what Tokenizer_tokenize resets before calling Tokenizer_parse. *)
From Coq Require Import String List Bool.
From MW Require Import State.
From MW.gen Require Import StateGen.
Import ListNotations.
Local Open Scope string_scope.

(* for ALL prior states st, st' - i.e. every history of earlier calls, completed or aborted at any
   point - a call whose reset covers every field its body reads returns the same result *)
Theorem C06_call_independent_of_history :
  forall (value args result : Type) (fields_all reset_fields : list string)
         (reset_val : args -> string -> value) (body : (string -> value) -> args -> result),
    (forall st st' a, (forall f, In f fields_all -> st f = st' f) -> body st a = body st' a) ->
    subset fields_all reset_fields = true ->
    forall st st' a, call value args result reset_fields reset_val body st a
                   = call value args result reset_fields reset_val body st' a.
Proof. exact call_independent_of_history. Qed.

(* on the current source the premise holds for the Python tokenizer, the Builder and the C tokenizer,
   and no field is read before it is reset *)
Theorem C06_python_tokenizer_resets_everything :
  subset tokenizer_fields tokenizer_reset = true /\ tokenizer_read_before_reset = [].
Proof. vm_compute. split; reflexivity. Qed.

Theorem C06_builder_resets_everything :
  subset builder_fields builder_reset = true /\ builder_read_before_reset = [].
Proof. vm_compute. split; reflexivity. Qed.

Theorem C06_c_tokenizer_resets_everything : subset ctokenizer_fields ctokenizer_reset = true.
Proof. vm_compute. reflexivity. Qed.

(* the Parser only holds its tokenizer and builder, bound once in __init__ *)
Theorem C06_parser_holds_only_its_parts :
  subset parser_fields parser_init_fields = true /\ parser_fields_stored_outside_init = [].
Proof. vm_compute. split; reflexivity. Qed.

Print Assumptions C06_call_independent_of_history.
Print Assumptions C06_python_tokenizer_resets_everything.
Print Assumptions C06_builder_resets_everything.
Print Assumptions C06_c_tokenizer_resets_everything.
Print Assumptions C06_parser_holds_only_its_parts.

(* the pinned tree's tokenize() did not reset _stacks: finding F8 *)
Example C06_pinned_tree_refuted :
  subset tokenizer_fields ["_text"; "_depth"; "_global"; "_head"; "_bad_routes"; "_skip_style_tags"] = false.
Proof. vm_compute. reflexivity. Qed.
