(* C20 - Name matching is a normalising equivalence (over the strip_code()'d strings).
   Statements hold for ANY isspace/upper functions with isspace(' ') = true; the generated
   CPython tables are one instance (C20_python_instance). *)
From MW Require Import PyBase Matches MatchesProofs.
From MW.gen Require Import UnicodeTables.

Section C20.
Variable isspace : cp -> bool.
Variable upper : cp -> list cp.
Hypothesis space_is_space : isspace space = true.
Notation matches := (matches isspace upper).

Theorem C20_reflexive : forall a, matches a a = true.
Proof. exact (matches_refl isspace upper). Qed.

Theorem C20_symmetric : forall a b, matches a b = matches b a.
Proof. exact (matches_sym isspace upper). Qed.

Theorem C20_transitive : forall a b c, matches a b = true -> matches b c = true -> matches a c = true.
Proof. exact (matches_trans isspace upper). Qed.

Theorem C20_surrounding_whitespace : forall w1 s w2 b,
  all_space isspace w1 -> all_space isspace w2 -> matches (w1 ++ s ++ w2) b = matches s b.
Proof. exact (ws_insensitive_lemma isspace upper space_is_space). Qed.

Theorem C20_underscores_are_spaces : forall s b,
  matches (us2sp s) b = matches s b /\ matches (sp2us s) b = matches s b.
Proof. exact (underscore_space_lemma isspace upper). Qed.

Theorem C20_first_character_case : forall c c' t b,
  upper c = upper c' -> isspace c = false -> isspace c' = false ->
  c <> underscore -> c' <> underscore ->
  matches (c :: t) b = matches (c' :: t) b.
Proof. exact (first_case_lemma isspace upper). Qed.

(* nothing else is ignored: two names match iff their trimmed, underscore-free forms are equal
   after upper-casing the first character *)
Theorem C20_otherwise_sensitive : forall a b,
  matches a b = true <->
  normalize upper (strip isspace (us2sp a)) = normalize upper (strip isspace (us2sp b)).
Proof. exact (otherwise_sensitive_lemma isspace upper). Qed.

Theorem C20_iterable_is_exists : forall a bs,
  matches_any isspace upper a bs = true <-> exists b, In b bs /\ matches a b = true.
Proof. exact (iterable_is_exists_lemma isspace upper). Qed.
End C20.

(* the running CPython's tables satisfy the hypothesis *)
Theorem C20_python_instance : py_isspace space = true.
Proof. vm_compute. reflexivity. Qed.

Print Assumptions C20_reflexive.
Print Assumptions C20_symmetric.
Print Assumptions C20_transitive.
Print Assumptions C20_surrounding_whitespace.
Print Assumptions C20_underscores_are_spaces.
Print Assumptions C20_first_character_case.
Print Assumptions C20_otherwise_sensitive.
Print Assumptions C20_iterable_is_exists.
Print Assumptions C20_python_instance.

(* Non-vacuity with the CPython tables: " foo_bar" matches "Foo bar\n"; "fooBar" does not match "foobar" *)
Example C20_example :
  Matches.matches py_isspace py_upper [32; 102; 111; 111; 95; 98; 97; 114]%N [70; 111; 111; 32; 98; 97; 114; 10]%N = true /\
  Matches.matches py_isspace py_upper [102; 111; 111; 66; 97; 114]%N [102; 111; 111; 98; 97; 114]%N = false.
Proof. vm_compute. split; reflexivity. Qed.
