From MW Require Import ListAux PyBase Nodes Builder Flatten.

(* ---------- unfolding equations (the nested fixes are the top-level functions) ---------- *)
Lemma fl_code_cons x t : fl_code (x :: t) = fl_node x ++ fl_code t.
Proof. reflexivity. Qed.
Lemma fl_code_app a b : fl_code (a ++ b) = fl_code a ++ fl_code b.
Proof. induction a as [|x a IH]; cbn [app fl_code]; [reflexivity|]. now rewrite IH, app_assoc. Qed.
Lemma str_code_app a b : str_code (a ++ b) = str_code a ++ str_code b.
Proof. induction a as [|x a IH]; cbn [app str_code]; [reflexivity|]. now rewrite IH, app_assoc. Qed.

Definition is_opener (t : token) : bool :=
  match t with
  | TText _ | TTemplateOpen | TArgumentOpen | TWikilinkOpen | TExternalLinkOpen _ | THTMLEntityStart
  | THeadingStart _ | TCommentStart | TTagOpenOpen _ _ => true
  | _ => false
  end.

Lemma fl_node_cons n : exists tok tl, fl_node n = tok :: tl /\ is_opener tok = true.
Proof.
  destruct n as [v|c|t l|t [x|]|nm [d|]|u [t|] br sp|v nmd hx hc|nm ps|tg ct ats wm sc inv imp pad clt sep cwm];
    try (eexists; eexists; split; [reflexivity|reflexivity]).
  cbn [fl_node]. destruct nmd; [|destruct hx]; eexists; eexists; split; reflexivity.
Qed.

Lemma fl_node_length n : 1 <= length (fl_node n).
Proof. destruct (fl_node_cons n) as (tok & tl & -> & _). cbn. lia. Qed.

(* a node is rebuilt from its tokens, whatever follows, given enough fuel *)
Definition ok_node (n : node) : Prop :=
  forall f rest tok tl, fl_node n = tok :: tl -> 2 * length (fl_node n) <= f ->
    handle f tok (tl ++ rest) = Ok (n, rest).

(* ---------- every loop swallows a code ---------- *)
(* one iteration on an opener token *)
Ltac opener_step := intros tok; intros; destruct tok; try discriminate; reflexivity.

Lemma template_name_step : forall tok f cur ts', is_opener tok = true ->
  template_name (S f) cur (tok :: ts') =
  match handle f tok ts' with Ok (n, ts'') => template_name f (cur ++ [n]) ts'' | Exn e => Exn e | Resource => Resource end.
Proof. opener_step. Qed.
Lemma parameter_step : forall tok f d key sk cur ts', is_opener tok = true ->
  parameter (S f) d key sk cur (tok :: ts') =
  match handle f tok ts' with Ok (n, ts'') => parameter f d key sk (cur ++ [n]) ts'' | Exn e => Exn e | Resource => Resource end.
Proof. opener_step. Qed.
Lemma argument_step : forall tok f cur nm ts', is_opener tok = true ->
  argument (S f) cur nm (tok :: ts') =
  match handle f tok ts' with Ok (n, ts'') => argument f (cur ++ [n]) nm ts'' | Exn e => Exn e | Resource => Resource end.
Proof. opener_step. Qed.
Lemma wikilink_step : forall tok f cur t ts', is_opener tok = true ->
  wikilink (S f) cur t (tok :: ts') =
  match handle f tok ts' with Ok (n, ts'') => wikilink f (cur ++ [n]) t ts'' | Exn e => Exn e | Resource => Resource end.
Proof. opener_step. Qed.
Lemma extlink_step : forall tok f br cur u sp ts', is_opener tok = true ->
  extlink (S f) br cur u sp (tok :: ts') =
  match handle f tok ts' with Ok (n, ts'') => extlink f br (cur ++ [n]) u sp ts'' | Exn e => Exn e | Resource => Resource end.
Proof. opener_step. Qed.
Lemma heading_step : forall tok f l cur ts', is_opener tok = true ->
  heading (S f) l cur (tok :: ts') =
  match handle f tok ts' with Ok (n, ts'') => heading f l (cur ++ [n]) ts'' | Exn e => Exn e | Resource => Resource end.
Proof. opener_step. Qed.
Lemma comment_step : forall tok f cur ts', is_opener tok = true ->
  comment (S f) cur (tok :: ts') =
  match handle f tok ts' with Ok (n, ts'') => comment f (cur ++ [n]) ts'' | Exn e => Exn e | Resource => Resource end.
Proof. opener_step. Qed.
Lemma attribute_step : forall tok f pads nm q cur ts', is_opener tok = true ->
  attribute (S f) pads nm q cur (tok :: ts') =
  match handle f tok ts' with Ok (n, ts'') => attribute f pads nm q (cur ++ [n]) ts'' | Exn e => Exn e | Resource => Resource end.
Proof. opener_step. Qed.
Lemma tag_step : forall tok f wm inv cur tn ct ats pad sep clt sc imp soc cwm ts', is_opener tok = true ->
  tag (S f) wm inv cur tn ct ats pad sep clt sc imp soc cwm (tok :: ts') =
  match handle f tok ts' with
  | Ok (n, ts'') => tag f wm inv (cur ++ [n]) tn ct ats pad sep clt sc imp soc cwm ts''
  | Exn e => Exn e | Resource => Resource end.
Proof. opener_step. Qed.
Lemma build_loop_step : forall tok f cur ts',
  build_loop (S f) cur (tok :: ts') =
  match handle f tok ts' with Ok (n, ts'') => build_loop f (cur ++ [n]) ts'' | Exn e => Exn e | Resource => Resource end.
Proof. reflexivity. Qed.

(* the generic induction: L (fl_code c ++ ts) = L' (cur ++ c) ts, fuel decreasing by |c| *)
Ltac code_loop STEP :=
  let Hall := fresh "Hall" in
  intros Hall; induction Hall as [|x c Hok Hall IH]; intros;
  [ cbn [fl_code app length]; rewrite Nat.sub_0_r, app_nil_r; reflexivity
  | destruct (fl_node_cons x) as (tok & tl & E & Hop);
    pose proof (fl_node_length x) as Hlen1;
    cbn [fl_code length]; rewrite <- app_assoc; rewrite E; cbn [app];
    match goal with H : 2 * _ + 1 <= ?f |- _ => destruct f as [|f']; [cbn [fl_code] in H; rewrite E in H; rewrite ?app_length in H; cbn [length] in H; lia|] end;
    rewrite STEP by exact Hop;
    match goal with H : 2 * _ + 1 <= S ?f' |- _ =>
      cbn [fl_code] in H; rewrite E in H; rewrite ?app_length in H; cbn [length app] in H;
      rewrite (Hok f' _ tok tl E) by (rewrite E; cbn [length]; lia);
      rewrite IH by lia end;
    rewrite <- app_assoc; cbn [app]; f_equal; lia ].



Lemma heading_code c : Forall ok_node c -> forall f l cur ts,
  2 * length (fl_code c) + 1 <= f -> heading f l cur (fl_code c ++ ts) = heading (f - length c) l (cur ++ c) ts.
Proof. code_loop heading_step. Qed.

Lemma template_name_code c : Forall ok_node c -> forall f cur ts,
  2 * length (fl_code c) + 1 <= f -> template_name f cur (fl_code c ++ ts) = template_name (f - length c) (cur ++ c) ts.
Proof. code_loop template_name_step. Qed.
Lemma parameter_code c : Forall ok_node c -> forall f d key sk cur ts,
  2 * length (fl_code c) + 1 <= f -> parameter f d key sk cur (fl_code c ++ ts) = parameter (f - length c) d key sk (cur ++ c) ts.
Proof. code_loop parameter_step. Qed.
Lemma argument_code c : Forall ok_node c -> forall f cur nm ts,
  2 * length (fl_code c) + 1 <= f -> argument f cur nm (fl_code c ++ ts) = argument (f - length c) (cur ++ c) nm ts.
Proof. code_loop argument_step. Qed.
Lemma wikilink_code c : Forall ok_node c -> forall f cur t ts,
  2 * length (fl_code c) + 1 <= f -> wikilink f cur t (fl_code c ++ ts) = wikilink (f - length c) (cur ++ c) t ts.
Proof. code_loop wikilink_step. Qed.
Lemma extlink_code c : Forall ok_node c -> forall f br cur u sp ts,
  2 * length (fl_code c) + 1 <= f -> extlink f br cur u sp (fl_code c ++ ts) = extlink (f - length c) br (cur ++ c) u sp ts.
Proof. code_loop extlink_step. Qed.
Lemma comment_code c : Forall ok_node c -> forall f cur ts,
  2 * length (fl_code c) + 1 <= f -> comment f cur (fl_code c ++ ts) = comment (f - length c) (cur ++ c) ts.
Proof. code_loop comment_step. Qed.
Lemma attribute_code c : Forall ok_node c -> forall f pads nm q cur ts,
  2 * length (fl_code c) + 1 <= f -> attribute f pads nm q cur (fl_code c ++ ts) = attribute (f - length c) pads nm q (cur ++ c) ts.
Proof. code_loop attribute_step. Qed.
Lemma tag_code c : Forall ok_node c -> forall f wm inv cur tn ct ats pad sep clt sc imp soc cwm ts,
  2 * length (fl_code c) + 1 <= f ->
  tag f wm inv cur tn ct ats pad sep clt sc imp soc cwm (fl_code c ++ ts)
  = tag (f - length c) wm inv (cur ++ c) tn ct ats pad sep clt sc imp soc cwm ts.
Proof. code_loop tag_step. Qed.
Lemma build_loop_code c : Forall ok_node c -> forall f cur,
  2 * length (fl_code c) + 1 <= f -> build_loop f cur (fl_code c) = Ok (cur ++ c).
Proof.
  intros Hall; induction Hall as [|x c Hok Hall IH]; intros f cur Hf.
  - destruct f; [lia|]. cbn. now rewrite app_nil_r.
  - destruct (fl_node_cons x) as (tok & tl & E & Hop). pose proof (fl_node_length x) as Hl.
    cbn [fl_code] in *. rewrite E in *. rewrite app_length in Hf. cbn [length app] in *.
    destruct f as [|f']; [lia|]. rewrite build_loop_step.
    rewrite (Hok f' (fl_code c) tok tl E) by (rewrite E; cbn [length]; lia).
    rewrite IH by lia. now rewrite <- app_assoc.
Qed.

Lemma length_code_le c : length c <= length (fl_code c).
Proof.
  induction c as [|x c IH]; cbn [length fl_code]; [lia|].
  rewrite app_length. pose proof (fl_node_length x). lia.
Qed.

(* ---------- wf unfolding (the nested fixes are the top-level functions) ---------- *)
Lemma wf_code_cons x t : wf_code (x :: t) = (wf_node x /\ wf_code t).
Proof. reflexivity. Qed.

Lemma codes_ok k c :
  (forall x, length (fl_node x) < k -> wf_node x -> ok_node x) ->
  length (fl_code c) < k -> wf_code c -> Forall ok_node c.
Proof.
  intros IH. induction c as [|x c IHc]; intros Hl Hwf; [constructor|].
  cbn [fl_code] in Hl. rewrite app_length in Hl. destruct Hwf as [Hx Hc].
  constructor; [apply IH; [lia|exact Hx]|apply IHc; [lia|exact Hc]].
Qed.

(* equations of fl_node / wf_node in terms of the top-level fl_code / wf_code *)
Lemma fl_heading t l : fl_node (NHeading t l) = THeadingStart l :: fl_code t ++ [THeadingEnd].
Proof. reflexivity. Qed.
Lemma fl_wikilink1 t : fl_node (NWikilink t None) = TWikilinkOpen :: fl_code t ++ [TWikilinkClose].
Proof. reflexivity. Qed.
Lemma fl_wikilink2 t x : fl_node (NWikilink t (Some x)) = TWikilinkOpen :: fl_code t ++ TWikilinkSeparator :: fl_code x ++ [TWikilinkClose].
Proof. reflexivity. Qed.
Lemma fl_argument1 t : fl_node (NArgument t None) = TArgumentOpen :: fl_code t ++ [TArgumentClose].
Proof. reflexivity. Qed.
Lemma fl_argument2 t x : fl_node (NArgument t (Some x)) = TArgumentOpen :: fl_code t ++ TArgumentSeparator :: fl_code x ++ [TArgumentClose].
Proof. reflexivity. Qed.
Lemma fl_extlink1 u br sp : fl_node (NExtLink u None br sp) = TExternalLinkOpen br :: fl_code u ++ [TExternalLinkClose].
Proof. reflexivity. Qed.
Lemma fl_extlink2 u t br sp : fl_node (NExtLink u (Some t) br sp) = TExternalLinkOpen br :: fl_code u ++ TExternalLinkSeparator sp :: fl_code t ++ [TExternalLinkClose].
Proof. reflexivity. Qed.
Lemma fl_template nm ps : fl_node (NTemplate nm ps) = TTemplateOpen :: fl_code nm ++ flat_map fl_param ps ++ [TTemplateClose].
Proof. reflexivity. Qed.
Lemma fl_tag tg ct ats wm sc inv imp pad clt sep cwm :
  fl_node (NTag tg ct ats wm sc inv imp pad clt sep cwm) =
  TTagOpenOpen wm inv :: fl_code tg ++ flat_map fl_attr ats ++
  (if sc then [TTagCloseSelfclose pad imp (cwm_token wm cwm)]
   else TTagCloseOpen pad sep :: fl_code ct ++ TTagOpenClose (cwm_token wm cwm) :: fl_code clt ++ [TTagCloseClose]).
Proof. reflexivity. Qed.

Fixpoint wf_params (ps : list param) : Prop :=
  match ps with [] => True | (k, v, _) :: t => wf_code k /\ wf_code v /\ wf_params t end.
Definition wf_ocode (o : option code) : Prop := match o with Some c => wf_code c | None => True end.
Fixpoint wf_attrs (l : list attr) : Prop :=
  match l with
  | [] => True
  | (nm, value, quotes, _) :: t =>
      wf_code nm /\ wf_ocode value /\
      (match value with Some _ => str_code nm <> [] | None => quotes = None end) /\ wf_attrs t
  end.

Lemma wf_heading t l : wf_node (NHeading t l) = wf_code t.
Proof. reflexivity. Qed.
Lemma wf_wikilink t x : wf_node (NWikilink t x) = (wf_code t /\ wf_ocode x).
Proof. reflexivity. Qed.
Lemma wf_argument t x : wf_node (NArgument t x) = (wf_code t /\ wf_ocode x).
Proof. reflexivity. Qed.
Lemma wf_extlink u t br sp : wf_node (NExtLink u t br sp) = (wf_code u /\ wf_ocode t /\ (t = None -> sp = false)).
Proof. reflexivity. Qed.
Lemma wf_template nm ps : wf_node (NTemplate nm ps) = (wf_code nm /\ hidden_names_ok ps 1%N /\ wf_params ps).
Proof. reflexivity. Qed.
Lemma wf_tag tg ct ats wm sc inv imp pad clt sep cwm :
  wf_node (NTag tg ct ats wm sc inv imp pad clt sep cwm) =
  (wf_code tg /\ wf_code ct /\ wf_code clt /\ nonempty_opt wm /\ nonempty_opt cwm /\
   (if sc then ct = [] /\ clt = tg /\ sep = None else imp = false /\ nonempty_opt sep) /\ wf_attrs ats).
Proof. reflexivity. Qed.

Ltac lens := repeat (rewrite app_length || (progress cbn [length])).
Ltac fuel_S f := destruct f as [|f]; [exfalso; lia|].
Ltac norm_len H := cbn [fl_node fl_code length] in H; rewrite ?app_length in H; cbn [length] in H; rewrite ?app_length in H; cbn [length] in H.

(* ---------- parameters ---------- *)
Definition pbody (p : param) : list token :=
  let '(k, v, sk) := p in (if sk then fl_code k ++ [TTemplateParamEquals] else []) ++ fl_code v.
Lemma fl_param_eq p : fl_param p = TTemplateParamSeparator :: pbody p.
Proof. destruct p as [[k v] sk]. reflexivity. Qed.

Definition param_codes_ok (p : param) : Prop :=
  (if snd p then Forall ok_node (fst (fst p)) else True) /\ Forall ok_node (snd (fst p)).
Definition is_param_stop (ts : list token) : Prop :=
  exists t, (ts = TTemplateParamSeparator :: t) \/ (ts = TTemplateClose :: t).

Lemma parameter_ok p f d R :
  param_codes_ok p -> is_param_stop R ->
  (snd p = false -> fst (fst p) = [NText (str_of_N d)]) ->
  2 * length (pbody p) + 3 <= f ->
  parameter f d None false [] (pbody p ++ R) = Ok (p, R).
Proof.
  destruct p as [[k v] sk]. cbn [fst snd]. intros [Hk Hv] (t & HR) Hname Hf. unfold pbody in *.
  pose proof (length_code_le k). pose proof (length_code_le v).
  destruct sk.
  - rewrite !app_length in Hf. cbn [length] in Hf. rewrite <- !app_assoc.
    rewrite parameter_code by (try exact Hk; lia). cbn [app].
    remember (f - length k) as f2 eqn:E2. fuel_S f2. cbn [parameter].
    rewrite parameter_code by (try exact Hv; lia). cbn [app].
    remember (f2 - length v) as f3 eqn:E3. fuel_S f3.
    destruct HR as [-> | ->]; reflexivity.
  - cbn [app] in *. rewrite parameter_code by (try exact Hv; lia). cbn [app].
    remember (f - length v) as f3 eqn:E3. fuel_S f3. rewrite (Hname eq_refl).
    destruct HR as [-> | ->]; reflexivity.
Qed.

Lemma params_ok : forall ps p f name acc d rest,
  Forall param_codes_ok (p :: ps) -> hidden_names_ok (p :: ps) d ->
  2 * length (flat_map fl_param (p :: ps)) + 2 <= f ->
  template_params f name acc d (pbody p ++ flat_map fl_param ps ++ TTemplateClose :: rest)
  = Ok (NTemplate name (acc ++ p :: ps), rest).
Proof.
  induction ps as [|p2 ps IH]; intros p f name acc d rest Hall Hhid Hf.
  - inversion Hall as [|? ? Hp _]; subst. cbn [flat_map app] in *. rewrite app_nil_r in Hf.
    rewrite fl_param_eq in Hf. cbn [length] in Hf.
    fuel_S f. cbn [template_params].
    rewrite (parameter_ok p f d (TTemplateClose :: rest)); try assumption; try lia.
    + reflexivity.
    + exists rest. now right.
    + destruct p as [[k v] sk]. cbn [snd fst hidden_names_ok] in *. intros ->. tauto.
  - inversion Hall as [|? ? Hp Hrest]; subst.
    cbn [flat_map] in Hf. rewrite fl_param_eq in Hf. rewrite (fl_param_eq p2) in Hf.
    rewrite !app_length in Hf. cbn [length] in Hf. rewrite ?app_length in Hf.
    cbn [flat_map]. rewrite (fl_param_eq p2). cbn [app].
    fuel_S f. cbn [template_params].
    rewrite (parameter_ok p f d); try assumption; try lia.
    + cbn [app]. replace (acc ++ p :: p2 :: ps) with ((acc ++ [p]) ++ p2 :: ps) by (now rewrite <- app_assoc).
      rewrite <- app_assoc. apply IH; [exact Hrest| |].
      * destruct p as [[k v] sk]. cbn [snd hidden_names_ok] in *. destruct sk; tauto.
      * cbn [flat_map]. rewrite fl_param_eq. rewrite app_length. cbn [length]. lia.
    + eexists. left. reflexivity.
    + destruct p as [[k v] sk]. cbn [snd fst hidden_names_ok] in *. intros ->. tauto.
Qed.

(* ---------- attributes ---------- *)
Definition abody (a : attr) : list token :=
  let '(nm, value, quotes, _) := a in
  match value with
  | Some v => fl_code nm ++ TTagAttrEquals :: (match quotes with Some q => [TTagAttrQuote q] | None => [] end) ++ fl_code v
  | None => fl_code nm
  end.
Lemma fl_attr_eq a : fl_attr a = TTagAttrStart (fst (fst (snd a))) (snd (fst (snd a))) (snd (snd a)) :: abody a.
Proof. destruct a as [[[nm v] q] [[pf pb] pa]]. reflexivity. Qed.

Definition attr_codes_ok (a : attr) : Prop :=
  let '(nm, value, _, _) := a in
  Forall ok_node nm /\ match value with Some v => Forall ok_node v | None => True end.
Definition attr_wf1 (a : attr) : Prop :=
  let '(nm, value, quotes, _) := a in
  match value with Some _ => str_code nm <> [] | None => quotes = None end.
Definition is_attr_stop (ts : list token) : Prop :=
  exists t, (exists a b c, ts = TTagAttrStart a b c :: t) \/ (exists a b, ts = TTagCloseOpen a b :: t)
            \/ (exists a b c, ts = TTagCloseSelfclose a b c :: t).

Lemma attribute_ok a f R :
  attr_codes_ok a -> attr_wf1 a -> is_attr_stop R ->
  2 * length (abody a) + 2 <= f ->
  attribute f (snd a) None None [] (abody a ++ R) = Ok (a, R).
Proof.
  destruct a as [[[nm value] q] pads]. cbn [snd attr_codes_ok attr_wf1 abody].
  intros [Hn Hv] Hwf (t & HR) Hf. pose proof (length_code_le nm).
  assert (Hstop : forall f2 name quotes cur, 1 <= f2 ->
            attribute f2 pads name quotes cur R =
            match name with
            | Some n0 => match str_code n0 with [] => Ok ((cur, None, quotes, pads), R) | _ => Ok ((n0, Some cur, quotes, pads), R) end
            | None => Ok ((cur, None, quotes, pads), R)
            end).
  { intros f2 name quotes cur H1. fuel_S f2.
    destruct HR as [(a & b & c & ->)|[(a & b & ->)|(a & b & c & ->)]]; reflexivity. }
  destruct value as [v|].
  - pose proof (length_code_le v). rewrite !app_length in Hf. cbn [length] in Hf. rewrite app_length in Hf.
    rewrite <- app_assoc. rewrite attribute_code by (try exact Hn; lia). cbn [app].
    remember (f - length nm) as f2 eqn:E2. fuel_S f2. cbn [attribute]. rewrite <- app_assoc.
    destruct q as [q|]; cbn [app length] in *.
    + fuel_S f2. cbn [attribute]. rewrite attribute_code by (try exact Hv; lia). cbn [app].
      rewrite Hstop by lia. destruct (str_code nm); [contradiction|reflexivity].
    + rewrite attribute_code by (try exact Hv; lia). cbn [app].
      rewrite Hstop by lia. destruct (str_code nm); [contradiction|reflexivity].
  - subst q. rewrite attribute_code by (try exact Hn; lia). cbn [app].
    rewrite Hstop by lia. reflexivity.
Qed.

Lemma attrs_ok : forall ats f wm inv cur acc cwm R,
  Forall attr_codes_ok ats -> Forall attr_wf1 ats ->
  (exists t, (exists a b, R = TTagCloseOpen a b :: t) \/ (exists a b c, R = TTagCloseSelfclose a b c :: t)) ->
  2 * length (flat_map fl_attr ats) + 1 <= f ->
  tag f wm inv cur None None acc None None None false false false cwm (flat_map fl_attr ats ++ R)
  = tag (f - length ats) wm inv cur None None (acc ++ ats) None None None false false false cwm R.
Proof.
  induction ats as [|a ats IH]; intros f wm inv cur acc cwm R Hc Hw HR Hf.
  - cbn [flat_map app length]. now rewrite Nat.sub_0_r, app_nil_r.
  - inversion Hc as [|? ? Hca Hcr]; subst. inversion Hw as [|? ? Hwa Hwr]; subst.
    cbn [flat_map] in *. rewrite fl_attr_eq in *. rewrite app_length in Hf. cbn [length app] in *.
    fuel_S f. cbn [tag]. rewrite <- app_assoc.
    assert (Hstop : is_attr_stop (flat_map fl_attr ats ++ R)).
    { destruct ats as [|a2 ats2].
      - cbn [flat_map app]. destruct HR as (t & [(x & y & ->)|(x & y & z & ->)]); exists t; eauto 8.
      - cbn [flat_map]. rewrite (fl_attr_eq a2). cbn [app]. eexists. left. eauto. }
    destruct a as [[[nm v] q] [[pf pb] pa]]. cbn [fst snd].
    pose proof (attribute_ok (nm, v, q, (pf, pb, pa)) f _ Hca Hwa Hstop ltac:(lia)) as Ha. cbn [snd] in Ha. rewrite Ha.
    rewrite IH by (try assumption; lia).
    rewrite <- app_assoc. cbn [app]. f_equal.
Qed.

Lemma length_attrs_le (l : list attr) : length l <= length (flat_map fl_attr l).
Proof. induction l as [|a l IHl]; cbn [flat_map length]; [lia|]. rewrite fl_attr_eq, app_length. cbn [length]. lia. Qed.

Lemma norm_opt_id o : nonempty_opt o -> norm_opt o = o.
Proof. destruct o as [[|? ?]|]; intros H; [now elim H|reflexivity|reflexivity]. Qed.
Lemma cwm_id wm cwm : nonempty_opt wm -> nonempty_opt cwm ->
  match cwm_token wm cwm with Some _ => norm_opt (cwm_token wm cwm) | None => norm_opt wm end = cwm.
Proof.
  intros H1 H2. unfold cwm_token. destruct cwm as [s|]; [now apply norm_opt_id|].
  destruct wm as [w|]; reflexivity.
Qed.

Lemma all_ok : forall m n, length (fl_node n) <= m -> wf_node n -> ok_node n.
Proof.
  induction m as [m IHm] using lt_wf_ind. intros n Hm Hwf.
  assert (IH : forall x, length (fl_node x) < length (fl_node n) -> wf_node x -> ok_node x)
    by (intros x Hx Hw; eapply IHm; [|reflexivity|exact Hw]; lia).
  clear IHm. intros f rest tok tl E Hf.
  destruct n as [v|c|title l|title [x|]|nm [d|]|u [t|] br sp|v nmd hx hc|nm ps|tg ct ats wm sc inv imp pad clt sep cwm].
  - (* Text *) cbn [fl_node] in E. injection E as <- <-. norm_len Hf. fuel_S f. reflexivity.
  - (* Comment *) cbn [fl_node] in E. injection E as <- <-. norm_len Hf.
    fuel_S f. cbn [handle]. destruct c as [|c0 c]; cbn [fl_comment_body app] in *.
    + fuel_S f. reflexivity.
    + cbn [length] in Hf. fuel_S f. cbn [comment]. fuel_S f. cbn [handle]. fuel_S f. cbn [comment app str_code str_node].
      now rewrite app_nil_r.
  - (* Heading *) rewrite fl_heading in *. rewrite wf_heading in Hwf. injection E as <- <-.
    assert (Hc : Forall ok_node title)
      by (apply (codes_ok _ _ IH); [cbn [length]; rewrite app_length; cbn [length]; lia|exact Hwf]).
    pose proof (length_code_le title). norm_len Hf.
    fuel_S f. cbn [handle]. rewrite <- app_assoc. rewrite heading_code by (try exact Hc; lia).
    remember (f - length title) as f2 eqn:Ef2. fuel_S f2. reflexivity.
  - (* Wikilink with text *) rewrite fl_wikilink2 in *. rewrite wf_wikilink in Hwf. destruct Hwf as [Hw1 Hw2].
    injection E as <- <-. norm_len Hf.
    assert (Hc1 : Forall ok_node title)
      by (apply (codes_ok _ _ IH); [cbn [length]; rewrite !app_length; cbn [length]; lia|exact Hw1]).
    assert (Hc2 : Forall ok_node x)
      by (apply (codes_ok _ _ IH); [cbn [length]; rewrite !app_length; cbn [length]; rewrite app_length; lia|exact Hw2]).
    pose proof (length_code_le title). pose proof (length_code_le x).
    fuel_S f. cbn [handle]. rewrite <- app_assoc. rewrite wikilink_code by (try exact Hc1; lia).
    remember (f - length title) as f2 eqn:Ef2. fuel_S f2. cbn [app wikilink].
    rewrite <- app_assoc. rewrite wikilink_code by (try exact Hc2; lia).
    remember (f2 - length x) as f3 eqn:Ef3. fuel_S f3. reflexivity.
  - (* Wikilink *) rewrite fl_wikilink1 in *. rewrite wf_wikilink in Hwf. destruct Hwf as [Hw1 _].
    injection E as <- <-. norm_len Hf.
    assert (Hc1 : Forall ok_node title)
      by (apply (codes_ok _ _ IH); [cbn [length]; rewrite !app_length; cbn [length]; lia|exact Hw1]).
    pose proof (length_code_le title).
    fuel_S f. cbn [handle]. rewrite <- app_assoc. rewrite wikilink_code by (try exact Hc1; lia).
    remember (f - length title) as f2 eqn:Ef2. fuel_S f2. reflexivity.
  - (* Argument with default *) rewrite fl_argument2 in *. rewrite wf_argument in Hwf. destruct Hwf as [Hw1 Hw2].
    injection E as <- <-. norm_len Hf.
    assert (Hc1 : Forall ok_node nm)
      by (apply (codes_ok _ _ IH); [cbn [length]; rewrite !app_length; cbn [length]; lia|exact Hw1]).
    assert (Hc2 : Forall ok_node d)
      by (apply (codes_ok _ _ IH); [cbn [length]; rewrite !app_length; cbn [length]; rewrite app_length; lia|exact Hw2]).
    pose proof (length_code_le nm). pose proof (length_code_le d).
    fuel_S f. cbn [handle]. rewrite <- app_assoc. rewrite argument_code by (try exact Hc1; lia).
    remember (f - length nm) as f2 eqn:Ef2. fuel_S f2. cbn [app argument].
    rewrite <- app_assoc. rewrite argument_code by (try exact Hc2; lia).
    remember (f2 - length d) as f3 eqn:Ef3. fuel_S f3. reflexivity.
  - (* Argument *) rewrite fl_argument1 in *. rewrite wf_argument in Hwf. destruct Hwf as [Hw1 _].
    injection E as <- <-. norm_len Hf.
    assert (Hc1 : Forall ok_node nm)
      by (apply (codes_ok _ _ IH); [cbn [length]; rewrite !app_length; cbn [length]; lia|exact Hw1]).
    pose proof (length_code_le nm).
    fuel_S f. cbn [handle]. rewrite <- app_assoc. rewrite argument_code by (try exact Hc1; lia).
    remember (f - length nm) as f2 eqn:Ef2. fuel_S f2. reflexivity.
  - (* ExtLink with title *) rewrite fl_extlink2 in *. rewrite wf_extlink in Hwf. destruct Hwf as (Hw1 & Hw2 & _).
    injection E as <- <-. norm_len Hf.
    assert (Hc1 : Forall ok_node u)
      by (apply (codes_ok _ _ IH); [cbn [length]; rewrite !app_length; cbn [length]; lia|exact Hw1]).
    assert (Hc2 : Forall ok_node t)
      by (apply (codes_ok _ _ IH); [cbn [length]; rewrite !app_length; cbn [length]; rewrite app_length; lia|exact Hw2]).
    pose proof (length_code_le u). pose proof (length_code_le t).
    fuel_S f. cbn [handle]. rewrite <- app_assoc. rewrite extlink_code by (try exact Hc1; lia).
    remember (f - length u) as f2 eqn:Ef2. fuel_S f2. cbn [app extlink].
    rewrite <- app_assoc. rewrite extlink_code by (try exact Hc2; lia).
    remember (f2 - length t) as f3 eqn:Ef3. fuel_S f3. reflexivity.
  - (* ExtLink *) rewrite fl_extlink1 in *. rewrite wf_extlink in Hwf. destruct Hwf as (Hw1 & _ & Hsp).
    injection E as <- <-. norm_len Hf. rewrite (Hsp eq_refl).
    assert (Hc1 : Forall ok_node u)
      by (apply (codes_ok _ _ IH); [cbn [length]; rewrite !app_length; cbn [length]; lia|exact Hw1]).
    pose proof (length_code_le u).
    fuel_S f. cbn [handle]. rewrite <- app_assoc. rewrite extlink_code by (try exact Hc1; lia).
    remember (f - length u) as f2 eqn:Ef2. fuel_S f2. reflexivity.
  - (* Entity *) cbn [wf_node] in Hwf. destruct Hwf as [Hn Hh]. cbn [fl_node] in *.
    destruct nmd.
    + rewrite (Hn eq_refl) in *. rewrite (Hh eq_refl). injection E as <- <-. cbn [length] in Hf. fuel_S f. reflexivity.
    + destruct hx.
      * injection E as <- <-. cbn [length] in Hf. fuel_S f. reflexivity.
      * rewrite (Hh eq_refl). injection E as <- <-. cbn [length] in Hf. fuel_S f. reflexivity.
  - (* Template *) rewrite fl_template in *. rewrite wf_template in Hwf. destruct Hwf as (Hw1 & Hhid & Hwp).
    injection E as <- <-.
    assert (Hc1 : Forall ok_node nm).
    { apply (codes_ok _ _ IH); [cbn [length]; rewrite !app_length; cbn [length]; lia|exact Hw1]. }
    assert (Hps : Forall param_codes_ok ps).
    { assert (Hgen : forall l, (forall x, length (fl_node x) <= length (flat_map fl_param l) -> wf_node x -> ok_node x) ->
                wf_params l -> Forall param_codes_ok l).
      { induction l as [|[[k v] sk] l IHl]; intros Hx Hw; [constructor|].
        destruct Hw as (Hk & Hv & Hl). cbn [flat_map] in Hx. rewrite fl_param_eq in Hx. unfold pbody in Hx.
        cbn [length] in Hx. rewrite !app_length in Hx.
        constructor.
        - split; cbn [fst snd].
          + destruct sk; [|exact I].
            apply (codes_ok (S (length (fl_code k)))); [|lia|exact Hk].
            intros x Hxl Hxw. apply Hx; [|exact Hxw]. cbn [length]. rewrite !app_length. lia.
          + apply (codes_ok (S (length (fl_code v)))); [|lia|exact Hv].
            intros x Hxl Hxw. apply Hx; [|exact Hxw]. cbn [length]. rewrite !app_length. lia.
        - apply IHl; [|exact Hl]. intros x Hxl Hxw. apply Hx; [|exact Hxw]. cbn [length]. lia. }
      apply Hgen; [|exact Hwp]. intros x Hxl Hxw. apply IH; [|exact Hxw].
      cbn [length]. rewrite !app_length. lia. }
    pose proof (length_code_le nm). norm_len Hf.
    fuel_S f. cbn [handle]. rewrite <- app_assoc. rewrite template_name_code by (try exact Hc1; lia).
    remember (f - length nm) as f2 eqn:Ef2.
    destruct ps as [|p ps].
    + cbn [flat_map app]. fuel_S f2. reflexivity.
    + cbn [flat_map] in *. rewrite fl_param_eq in *. cbn [app length] in *. rewrite app_length in Hf.
      fuel_S f2. cbn [template_name]. rewrite <- !app_assoc. cbn [app].
      rewrite (params_ok ps p f2 nm [] 1%N rest Hps Hhid).
      * reflexivity.
      * cbn [flat_map]. rewrite fl_param_eq. cbn [length app]. rewrite app_length. lia.
  - (* Tag *) rewrite fl_tag in *. rewrite wf_tag in Hwf.
    destruct Hwf as (Hwt & Hwc & Hwl & Hnwm & Hncwm & Hsc & Hwa).
    injection E as <- <-.
    assert (Hlen_tail : 1 <= length (if sc then [TTagCloseSelfclose pad imp (cwm_token wm cwm)]
              else TTagCloseOpen pad sep :: fl_code ct ++ TTagOpenClose (cwm_token wm cwm) :: fl_code clt ++ [TTagCloseClose]))
      by (destruct sc; cbn [length]; lia).
    assert (Hc1 : Forall ok_node tg).
    { apply (codes_ok _ _ IH); [cbn [length]; rewrite !app_length; cbn [length]; lia|exact Hwt]. }
    assert (Hats : Forall attr_codes_ok ats /\ Forall attr_wf1 ats).
    { assert (Hgen : forall l, (forall x, length (fl_node x) <= length (flat_map fl_attr l) -> wf_node x -> ok_node x) ->
                wf_attrs l -> Forall attr_codes_ok l /\ Forall attr_wf1 l).
      { induction l as [|[[[n0 v] q] pads] l IHl]; intros Hx Hw; [split; constructor|].
        destruct Hw as (Hn0 & Hv & Hq & Hl). cbn [flat_map] in Hx. rewrite fl_attr_eq in Hx.
        destruct IHl as [I1 I2]; [|exact Hl|].
        { intros x Hxl Hxw. apply Hx; [|exact Hxw]. rewrite app_length. lia. }
        assert (Hlen_q : length (match q with Some q0 => [TTagAttrQuote q0] | None => [] end) <= 1)
          by (destruct q; cbn; lia).
        split; [constructor; [|exact I1]|constructor; [exact Hq|exact I2]].
        cbn [attr_codes_ok]. destruct v as [v|]; cbn [abody] in Hx; split; try exact I.
        - apply (codes_ok (S (length (fl_code n0)))); [|lia|exact Hn0].
          intros x Hxl Hxw. apply Hx; [|exact Hxw]. lens. lia.
        - apply (codes_ok (S (length (fl_code v)))); [|lia|exact Hv].
          intros x Hxl Hxw. apply Hx; [|exact Hxw]. lens. lia.
        - apply (codes_ok (S (length (fl_code n0)))); [|lia|exact Hn0].
          intros x Hxl Hxw. apply Hx; [|exact Hxw]. lens. lia. }
      apply Hgen; [|exact Hwa]. intros x Hxl Hxw. apply IH; [|exact Hxw].
      cbn [length]. rewrite !app_length. lia. }
    destruct Hats as [Hac Haw].
    pose proof (length_code_le tg).
    assert (Hlen_ats : length ats <= length (flat_map fl_attr ats)).
    { clear. induction ats as [|a l IHl]; cbn [flat_map length]; [lia|]. rewrite fl_attr_eq, app_length. cbn [length]. lia. }
    cbn [length] in Hf. rewrite !app_length in Hf.
    fuel_S f. cbn [handle]. rewrite <- !app_assoc. rewrite tag_code by (try exact Hc1; lia). cbn [app].
    remember (f - length tg) as f2 eqn:Ef2.
    destruct sc.
    + destruct Hsc as (-> & -> & ->). cbn [app length] in *.
      rewrite attrs_ok; try assumption; try lia; [|eexists; right; eauto].
      match goal with |- tag ?k _ _ _ _ _ _ _ _ _ _ _ _ _ _ = _ => remember k as f3 eqn:Ef3 end.
      match type of Ef3 with _ = _ - ?L => assert (L <= length (flat_map fl_attr ats)) by apply length_attrs_le end.
      fuel_S f3. cbn [tag]. unfold mk_tag. cbn [app].
      rewrite (cwm_id wm cwm Hnwm Hncwm), (norm_opt_id wm Hnwm). reflexivity.
    + destruct Hsc as (-> & Hnsep).
      assert (Hc2 : Forall ok_node ct).
      { apply (codes_ok _ _ IH); [cbn [length]; rewrite !app_length; cbn [length]; rewrite app_length; cbn [length]; lia|exact Hwc]. }
      assert (Hc3 : Forall ok_node clt).
      { apply (codes_ok _ _ IH); [cbn [length]; rewrite !app_length; cbn [length]; rewrite !app_length; cbn [length]; rewrite app_length; lia|exact Hwl]. }
      pose proof (length_code_le ct). pose proof (length_code_le clt).
      cbn [length] in Hf. rewrite !app_length in Hf. cbn [length] in Hf. rewrite app_length in Hf. cbn [length] in Hf.
      rewrite attrs_ok; try assumption; try lia;
        [|exists ((fl_code ct ++ TTagOpenClose (cwm_token wm cwm) :: fl_code clt ++ [TTagCloseClose]) ++ rest); left; exists pad, sep; reflexivity].
      match goal with |- tag ?k _ _ _ _ _ _ _ _ _ _ _ _ _ _ = _ => remember k as f3 eqn:Ef3 end.
      match type of Ef3 with _ = _ - ?L => assert (L <= length (flat_map fl_attr ats)) by apply length_attrs_le end.
      fuel_S f3. cbn [tag app].
      rewrite <- app_assoc. rewrite tag_code by (try exact Hc2; lia). cbn [app].
      remember (f3 - length ct) as f4 eqn:Ef4. fuel_S f4. cbn [tag].
      rewrite <- app_assoc. rewrite tag_code by (try exact Hc3; lia). cbn [app].
      remember (f4 - length clt) as f5 eqn:Ef5. fuel_S f5. cbn [tag]. unfold mk_tag. cbn [app].
      rewrite (cwm_id wm cwm Hnwm Hncwm), (norm_opt_id wm Hnwm), (norm_opt_id sep Hnsep). reflexivity.
Qed.

Lemma all_ok_code c : wf_code c -> Forall ok_node c.
Proof.
  induction c as [|x c IH]; intros Hw; [constructor|]. destruct Hw as [Hx Hc].
  constructor; [apply (all_ok (length (fl_node x))); [lia|exact Hx]|now apply IH].
Qed.

(* ================================================================ main theorems *)

(* The Builder rebuilds every well-formed tree from its token stream: same kinds, nesting,
   names, values, levels, attributes, flags; positional parameters named 1, 2, 3 ... *)
Theorem build_flatten_lemma c : wf_code c -> build (fl_code c) = Ok c.
Proof.
  intros Hw. unfold build. rewrite (build_loop_code c (all_ok_code c Hw)) by lia. reflexivity.
Qed.

(* ... hence never raises on such a stream, and the tree renders what the original renders *)
Theorem build_total_lemma c : wf_code c -> exists t, build (fl_code c) = Ok t.
Proof. intros Hw. exists c. now apply build_flatten_lemma. Qed.

Theorem build_render_lemma c t : wf_code c -> build (fl_code c) = Ok t -> str_code t = str_code c.
Proof. intros Hw Hb. rewrite build_flatten_lemma in Hb by assumption. now injection Hb as <-. Qed.

(* hidden keys of the rebuilt template are 1, 2, 3, ... in order *)
Fixpoint hidden_keys (ps : list param) : list code :=
  match ps with [] => [] | (k, _, sk) :: t => if sk then hidden_keys t else k :: hidden_keys t end.
Fixpoint count_from (d : N) (n : nat) : list code :=
  match n with O => [] | S k => [NText (str_of_N d)] :: count_from (d + 1)%N k end.

Theorem positional_names_lemma ps d :
  hidden_names_ok ps d -> hidden_keys ps = count_from d (length (hidden_keys ps)).
Proof.
  revert d. induction ps as [|[[k v] sk] ps IH]; intros d H; [reflexivity|].
  cbn [hidden_names_ok hidden_keys] in *. destruct sk.
  - now apply IH.
  - destruct H as [-> H]. cbn [length count_from]. f_equal. now apply IH.
Qed.
