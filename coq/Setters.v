(* C18: setters are atomic on rejection; attribute values with whitespace stay quoted.
   A setter body is translated (tools/gen_defs.py, gen_setters) into a small effect program:
   Store f      assignment to self.<f> (or setattr(self, ...))
   MayRaise w   evaluation of an expression containing a call that can raise (int, str, parse_anything, ...)
   Raise        a raise statement
   If a b       two-way branch;   Try body handlers orelse;   Return. *)
From Coq Require Import String List Bool.
Import ListNotations.
Local Open Scope string_scope.

Inductive stmt :=
| Store (f : string)
| MayRaise (what : string)
| Raise
| Return
| If (a b : list stmt)
| Try (body handlers orelse : list stmt).

(* events of one execution path *)
Inductive event := EStore | ERaise.

(* all event traces of a program (over-approximation: a MayRaise may or may not raise; in a Try,
   the body may stop at any MayRaise/Raise and continue in the handlers) *)
Fixpoint traces_fuel (fuel : nat) (p : list stmt) (k : list (list event)) : list (list event) :=
  (* k: traces of the continuation; result: traces of p followed by the continuation.
     a trace ending in ERaise has left the program *)
  match fuel with
  | O => [[ERaise]]       (* out of fuel: treated as a raising path, never as a quiet one *)
  | S f =>
    match p with
    | [] => k
    | Store _ :: r => map (cons EStore) (traces_fuel f r k)
    | MayRaise _ :: r => [ERaise] :: traces_fuel f r k
    | Raise :: _ => [[ERaise]]
    | Return :: _ => [[]]
    | If a b :: r => let kr := traces_fuel f r k in traces_fuel f a kr ++ traces_fuel f b kr
    | Try body handlers orelse :: r =>
        let kr := traces_fuel f r k in
        (* body completes, then orelse; or body raises at some point: its trace up to the raise,
           continued by the handlers *)
        let tb := traces_fuel f body (traces_fuel f orelse kr) in
        let th := traces_fuel f handlers kr in
        tb ++ flat_map (fun t => match rev t with
                                 | ERaise :: pre => map (app (rev pre)) th
                                 | _ => []
                                 end) tb
    end
  end.

(* a trace is atomic if no store precedes a raise *)
Fixpoint atomic_trace (seen_store : bool) (t : list event) : bool :=
  match t with
  | [] => true
  | EStore :: r => atomic_trace true r
  | ERaise :: r => negb seen_store && atomic_trace seen_store r
  end.

(* fuel: the depth of a setter body is far below this; running out of fuel counts as a raise *)
Definition atomic_prog (p : list stmt) : bool :=
  forallb (atomic_trace false) (traces_fuel 400 p [[]]).

(* ---- tag attribute quoting: Attribute.value / Attribute.quotes setters as a state machine ---- *)
Record attr_state := { has_ws : bool;            (* the value's top-level text contains whitespace *)
                       needs : list string;      (* acceptable quote characters when has_ws *)
                       quotes : option string }.

Inductive attr_op :=
| SetValue (ws : bool) (acceptable : list string)   (* value := v  where _value_needs_quotes(v) = acceptable if ws *)
| SetValueNone
| SetQuotes (q : option string).

Definition smem (x : string) (l : list string) : bool := existsb (String.eqb x) l.

Definition attr_step (s : attr_state) (o : attr_op) : option attr_state :=   (* None = ValueError, state unchanged *)
  match o with
  | SetValueNone => Some {| has_ws := false; needs := []; quotes := quotes s |}
  | SetValue ws acc =>
      let q' := if ws then
                  match quotes s with
                  | Some q => if smem q acc then Some q else Some (hd "" acc)
                  | None => Some (hd "" acc)
                  end
                else quotes s in
      Some {| has_ws := ws; needs := acc; quotes := q' |}
  | SetQuotes q =>
      match q with
      | None => if has_ws s then None else Some {| has_ws := has_ws s; needs := needs s; quotes := None |}
      | Some _ => Some {| has_ws := has_ws s; needs := needs s; quotes := q |}
      end
  end.

Definition attr_inv (s : attr_state) : Prop := has_ws s = true -> quotes s <> None.

Lemma attr_step_inv s o s' : attr_inv s -> attr_step s o = Some s' -> attr_inv s'.
Proof.
  unfold attr_inv. destruct o as [ws acc| |[q|]]; cbn; intros H E.
  - injection E as <-. cbn. intros ->. destruct (quotes s) as [q|]; [destruct (smem q acc)|]; discriminate.
  - injection E as <-. cbn. discriminate.
  - injection E as <-. cbn. discriminate.
  - destruct (has_ws s) eqn:W; [discriminate|]. injection E as <-. cbn. congruence.
Qed.

Definition attr_run (s : attr_state) (ops : list attr_op) : attr_state :=
  fold_left (fun st o => match attr_step st o with Some st' => st' | None => st end) ops s.

Theorem attr_ws_quoted_lemma ops s : attr_inv s -> attr_inv (attr_run s ops).
Proof.
  revert s. induction ops as [|o ops IH]; intros s H; cbn [attr_run fold_left]; [exact H|].
  apply IH. destruct (attr_step s o) as [s'|] eqn:E; [eapply attr_step_inv; eauto|exact H].
Qed.
