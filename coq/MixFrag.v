(* The two tokenizer fragments combined: documents over '=', '\n', '&', '#', ';' and non-markers in which no line
   begins with '#' or ';' - plain text, HTML entities, and section headings whose titles may contain entities.

   HTML comments (which may span lines and contain '=') are covered too: the WHOLE document is scanned into atoms first and
   lines are cut at the newline ATOMS, so a newline inside a comment does not end a line ('<' as in EntityFrag.v; no line
   begins with '-').

   Entities are recognised first (EntityFrag.scan: the recognition does not depend on the context - inside a heading
   _parse_entity runs in the same way, and a position that is parsed twice because a heading route failed gives the
   same result from the bad-route memo); the heading logic of HeadingFrag.v then runs over the resulting atoms
   (a character or an entity): a line is examined for a heading when its FIRST ATOM is '=' (an '=' after an entity
   is not at a line start, the previous chunk being ';'), and '=' runs are cut between atoms.                     *)
From Coq Require Import List NArith ZArith Arith Bool.
From MW Require Import PyBase Nodes Flatten HeadingFrag EntityFrag.
Import ListNotations.

Definition atom := epiece.
Definition a_is_eq (a : atom) : bool := match a with ET c => is_eq c | EE _ => false end.
Fixpoint eqsA (n : nat) : list atom := match n with O => [] | S k => ET 61%N :: eqsA k end.

Fixpoint span_eqA (l : list atom) : nat * list atom :=
  match l with
  | a :: t => if a_is_eq a then (let '(n, r) := span_eqA t in (S n, r)) else (O, l)
  | [] => (O, [])
  end.

Definition segA := (list atom * nat)%type.

Fixpoint segsA (r : list atom) : list segA * list atom :=
  match r with
  | [] => ([], [])
  | c :: r' =>
      let '(ss, tl) := segsA r' in
      if a_is_eq c then
        match ss with
        | ([], b) :: ss' => (([], S b) :: ss', tl)
        | _ => (([], 1) :: ss, tl)
        end
      else
        match ss with
        | (t, b) :: ss' => ((c :: t, b) :: ss', tl)
        | [] => ([], c :: tl)
        end
  end.

Fixpoint unsegsA (ss : list segA) (tl : list atom) : list atom :=
  match ss with
  | [] => tl
  | (t, b) :: ss' => t ++ eqsA b ++ unsegsA ss' tl
  end.

Fixpoint hbA (md depth cur : nat) (ss : list segA) : option (list atom * nat * list segA) :=
  match ss with
  | [] => None
  | (t, b) :: ss' =>
      let level := Nat.min cur (Nat.min b 6) in
      match (if depth <? md then hbA md (S depth) cur ss' else None) with
      | None => Some (t ++ eqsA (b - level), level, ss')
      | Some (after, al, rest) => Some (t ++ eqsA b ++ after, al, rest)
      end
  end.

Inductive item := IT (a : atom) | IH (title : list atom) (level : nat).

Definition a_is_nl (a : atom) : bool := match a with ET c => is_nl c | EE _ => false end.

Fixpoint linesA (s : list atom) : list (list atom) :=
  match s with
  | [] => [[]]
  | c :: t =>
      if a_is_nl c then [] :: linesA t
      else match linesA t with l :: ls => (c :: l) :: ls | [] => [[c]] end
  end.

Section WithDepth.
Variable md : nat.

Definition tok_lineA (atoms : list atom) : list item :=
  let '(a, r) := span_eqA atoms in
  match a with
  | O => map IT atoms
  | S _ =>
      let '(ss, tl) := segsA r in
      match hbA md 2 (Nat.min a 6) ss with
      | None => map IT atoms
      | Some (title, l, rest) => IH (eqsA (a - l) ++ title) l :: map IT (unsegsA rest tl)
      end
  end.

Fixpoint join_linesA (ls : list (list atom)) : list item :=
  match ls with
  | [] => []
  | [l] => tok_lineA l
  | l :: rest => tok_lineA l ++ IT (ET 10%N) :: join_linesA rest
  end.
End WithDepth.

Fixpoint mmerge (acc : str) (is : list item) : code :=
  match is with
  | [] => eflush acc
  | IT (ET c) :: t => mmerge (acc ++ [c]) t
  | IT (EE e) :: t => eflush acc ++ e :: mmerge [] t
  | IH title l :: t => eflush acc ++ NHeading (emerge [] title) (Z.of_nat l) :: mmerge [] t
  end.

Definition mfrag_nodes (markers : list N) (names : list str) (max_size md : nat) (s : str) : code :=
  mmerge [] (join_linesA md (linesA (scan markers names max_size 0 s))).
Definition mfrag_tokens (markers : list N) (names : list str) (max_size md : nat) (s : str) : list token :=
  fl_code (mfrag_nodes markers names max_size md s).
