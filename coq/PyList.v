(* CPython list semantics for the operations of property C13, with Z indices.
   Every mutating operation is an exception or ONE splice  l[a:b] := new. *)
From MW Require Import PyBase.
Local Open Scope Z_scope.

Definition zlen {A} (l : list A) : Z := Z.of_nat (length l).

(* PySlice_AdjustIndices for one bound, step 1 *)
Definition adj (len i : Z) : Z := if i <? 0 then Z.max (i + len) 0 else Z.min i len.
Definition adj_opt (len : Z) (o : option Z) (dflt : Z) : Z :=
  match o with None => dflt | Some i => adj len i end.
(* slice(lo, hi).indices(len), then stop := max(start, stop) (what list slicing does) *)
Definition slice_indices (len : Z) (lo hi : option Z) : Z * Z :=
  let a := adj_opt len lo 0 in
  let b := adj_opt len hi len in
  (a, Z.max a b).

(* l[i] with Python's negative indices; None = IndexError *)
Definition norm_index (len i : Z) : option Z :=
  let j := if i <? 0 then i + len else i in
  if (0 <=? j) && (j <? len) then Some j else None.

Definition zsplice {A} (l : list A) (a b : Z) (new : list A) : list A :=
  splice l (Z.to_nat a) (Z.to_nat b) new.
Definition zslice {A} (l : list A) (a b : Z) : list A :=
  slice l (Z.to_nat a) (Z.to_nat b).
Definition znth {A} (l : list A) (i : Z) : option A := nth_error l (Z.to_nat i).

Section Ops.
Context {A : Type}.
Variable eqb : A -> A -> bool.
Variable sortf : list A -> list A.

Inductive lop :=
| LAppend (x : A) | LExtend (xs : list A) | LIAdd (xs : list A)
| LInsert (i : Z) (x : A) | LPop (i : option Z) | LRemove (x : A)
| LGetItem (i : Z) | LSetItem (i : Z) (x : A) | LDelItem (i : Z)
| LSetSlice (lo hi : option Z) (xs : list A) | LDelSlice (lo hi : option Z)
| LReverse | LSort | LIndex (x : A) | LLen.

Inductive rv := RNone | RVal (x : A) | RInt (n : Z).

Fixpoint find_index (x : A) (l : list A) (i : Z) : option Z :=
  match l with
  | [] => None
  | y :: t => if eqb y x then Some i else find_index x t (i + 1)
  end.

(* What one operation does to a list: exception, or (a, b, new, result), meaning
   l[a:b] := new.  Non-mutating operations use the empty splice (0,0,[]). *)
Definition list_splice (l : list A) (o : lop) : res (Z * Z * list A * rv) :=
  let len := zlen l in
  match o with
  | LAppend x => Ok (len, len, [x], RNone)
  | LExtend xs | LIAdd xs => Ok (len, len, xs, RNone)
  | LInsert i x => let a := adj len i in Ok (a, a, [x], RNone)
  | LPop i =>
      match norm_index len (match i with None => -1 | Some i => i end) with
      | None => Exn IndexError
      | Some j => match znth l j with
                  | Some v => Ok (j, j + 1, [], RVal v)
                  | None => Exn IndexError
                  end
      end
  | LRemove x =>
      match find_index x l 0 with
      | None => Exn ValueError
      | Some j => Ok (j, j + 1, [], RNone)
      end
  | LGetItem i =>
      match norm_index len i with
      | None => Exn IndexError
      | Some j => match znth l j with Some v => Ok (0, 0, [], RVal v) | None => Exn IndexError end
      end
  | LSetItem i x =>
      match norm_index len i with
      | None => Exn IndexError
      | Some j => Ok (j, j + 1, [x], RNone)
      end
  | LDelItem i =>
      match norm_index len i with
      | None => Exn IndexError
      | Some j => Ok (j, j + 1, [], RNone)
      end
  | LSetSlice lo hi xs => let '(a, b) := slice_indices len lo hi in Ok (a, b, xs, RNone)
  | LDelSlice lo hi => let '(a, b) := slice_indices len lo hi in Ok (a, b, [], RNone)
  | LReverse => Ok (0, len, rev l, RNone)
  | LSort => Ok (0, len, sortf l, RNone)
  | LIndex x => match find_index x l 0 with None => Exn ValueError | Some j => Ok (0, 0, [], RInt j) end
  | LLen => Ok (0, 0, [], RInt len)
  end.

Definition list_step (l : list A) (o : lop) : res (list A * rv) :=
  match list_splice l o with
  | Ok (a, b, new, r) => Ok (zsplice l a b new, r)
  | Exn e => Exn e
  | Resource => Resource
  end.

(* l[lo:hi] as a new list *)
Definition list_getslice (l : list A) (lo hi : option Z) : list A :=
  let '(a, b) := slice_indices (zlen l) lo hi in zslice l a b.

Definition reorders (o : lop) : bool := match o with LReverse | LSort => true | _ => false end.

End Ops.
Arguments RNone {A}.
Arguments RVal {A} x.
Arguments RInt {A} n.
