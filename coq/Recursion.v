(* C05 (supporting obligation): the calls between tokenizer functions that are not dominated by a
   depth-limit test form an acyclic graph, apart from a fixed list of edges whose recursion is
   bounded by a context flag.  Acyclicity is checked with a rank certificate: every unguarded edge
   goes from a higher to a strictly lower rank. *)
From Coq Require Import String List Bool Arith.
Import ListNotations.
Local Open Scope string_scope.

Definition lookup (r : list (string * nat)) (x : string) : option nat :=
  match find (fun p => String.eqb (fst p) x) r with Some p => Some (snd p) | None => None end.

Definition pair_in (e : string * string) (l : list (string * string)) : bool :=
  existsb (fun q => String.eqb (fst e) (fst q) && String.eqb (snd e) (snd q)) l.

Definition ranks_decrease (ranks : list (string * nat)) (bounded edges : list (string * string)) : bool :=
  forallb (fun e => pair_in e bounded ||
                    match lookup ranks (fst e), lookup ranks (snd e) with
                    | Some a, Some b => Nat.ltb b a
                    | _, _ => false
                    end) edges.

(* a path along non-exempt edges strictly decreases the rank, so it cannot return to its start *)
Inductive path (ranks : list (string * nat)) (bounded edges : list (string * string)) : string -> string -> Prop :=
| path_one a b : In (a, b) edges -> pair_in (a, b) bounded = false -> path ranks bounded edges a b
| path_step a b c : In (a, b) edges -> pair_in (a, b) bounded = false -> path ranks bounded edges b c -> path ranks bounded edges a c.

Lemma path_rank ranks bounded edges a b :
  ranks_decrease ranks bounded edges = true -> path ranks bounded edges a b ->
  exists ra rb, lookup ranks a = Some ra /\ lookup ranks b = Some rb /\ rb < ra.
Proof.
  intros H P. unfold ranks_decrease in H. rewrite forallb_forall in H.
  induction P as [a b Hin Hb|a b c Hin Hb P IH].
  - specialize (H _ Hin). cbn [fst snd] in H. rewrite Hb in H. cbn [orb] in H.
    destruct (lookup ranks a) as [ra|], (lookup ranks b) as [rb|]; try discriminate.
    apply Nat.ltb_lt in H. eauto.
  - specialize (H _ Hin). cbn [fst snd] in H. rewrite Hb in H. cbn [orb] in H.
    destruct IH as (rb & rc & Eb & Ec & Hlt).
    destruct (lookup ranks a) as [ra|]; [|discriminate]. rewrite Eb in H. apply Nat.ltb_lt in H.
    exists ra, rc. repeat split; auto. eapply Nat.lt_trans; eauto.
Qed.

Theorem no_unguarded_cycle ranks bounded edges a :
  ranks_decrease ranks bounded edges = true -> ~ path ranks bounded edges a a.
Proof.
  intros H P. destruct (path_rank _ _ _ _ _ H P) as (ra & rb & Ea & Eb & Hlt).
  rewrite Ea in Eb. injection Eb as <-. exact (Nat.lt_irrefl _ Hlt).
Qed.

(* ---- a bound on the call-stack depth.  A call stack is a list of function names (outermost first).
   A step between neighbours is "free" when it is an unguarded, non-exempt call; every other step is
   "counted" (it passes the depth-limit test, or is one of the exempt context-bounded calls).  Free steps
   strictly decrease the rank, so between two counted steps there are at most R free ones. *)
From Coq Require Import Lia.

Definition rk (ranks : list (string * nat)) (f : string) : nat :=
  match lookup ranks f with Some r => r | None => 0 end.

Definition free_step (bounded edges : list (string * string)) (a b : string) : bool :=
  pair_in (a, b) edges && negb (pair_in (a, b) bounded).

Fixpoint counted (bounded edges : list (string * string)) (fs : list string) : nat :=
  match fs with
  | a :: ((b :: _) as t) => (if free_step bounded edges a b then 0 else 1) + counted bounded edges t
  | _ => 0
  end.

Definition ranks_le (ranks : list (string * nat)) (R : nat) : bool :=
  forallb (fun p => Nat.leb (snd p) R) ranks.

Lemma rk_le ranks R f : ranks_le ranks R = true -> rk ranks f <= R.
Proof.
  intros H. unfold rk, lookup. destruct (find _ ranks) as [p|] eqn:E; [|lia].
  apply find_some in E. destruct E as [Hin _]. unfold ranks_le in H. rewrite forallb_forall in H.
  apply Nat.leb_le. exact (H _ Hin).
Qed.

Lemma pair_in_In e l : pair_in e l = true -> In e l.
Proof.
  unfold pair_in. rewrite existsb_exists. intros (q & Hq & Heq).
  apply andb_prop in Heq. destruct Heq as [E1 E2]. apply String.eqb_eq in E1, E2.
  destruct e as [e1 e2], q as [q1 q2]. cbn [fst snd] in *. subst. exact Hq.
Qed.

Lemma free_step_rank ranks bounded edges a b :
  ranks_decrease ranks bounded edges = true -> free_step bounded edges a b = true -> rk ranks b < rk ranks a.
Proof.
  intros H F. unfold free_step in F. apply andb_prop in F. destruct F as [Hin Hb].
  apply pair_in_In in Hin. apply negb_true_iff in Hb.
  unfold ranks_decrease in H. rewrite forallb_forall in H. specialize (H _ Hin). cbn [fst snd] in H.
  rewrite Hb in H. cbn [orb] in H. unfold rk.
  destruct (lookup ranks a) as [ra|], (lookup ranks b) as [rb|]; try discriminate.
  apply Nat.ltb_lt in H. exact H.
Qed.

Lemma stack_bound_aux ranks bounded edges R :
  ranks_decrease ranks bounded edges = true -> ranks_le ranks R = true ->
  forall fs a, length (a :: fs) <= counted bounded edges (a :: fs) * (R + 1) + rk ranks a + 1.
Proof.
  intros H HR fs. induction fs as [|b t IH]; intros a.
  - cbn [length counted]. lia.
  - specialize (IH b). change (length (a :: b :: t)) with (1 + length (b :: t)).
    change (counted bounded edges (a :: b :: t))
      with ((if free_step bounded edges a b then 0 else 1) + counted bounded edges (b :: t)).
    destruct (free_step bounded edges a b) eqn:F.
    + pose proof (free_step_rank _ _ _ _ _ H F). lia.
    + pose proof (rk_le ranks R b HR). nia.
Qed.

Theorem call_stack_bound ranks bounded edges R fs :
  ranks_decrease ranks bounded edges = true -> ranks_le ranks R = true ->
  length fs <= (counted bounded edges fs + 1) * (R + 1).
Proof.
  intros H HR. destruct fs as [|a t]; [cbn; lia|].
  pose proof (stack_bound_aux _ _ _ R H HR t a). pose proof (rk_le ranks R a HR). nia.
Qed.
