(* C15, normalize=True: strip_code only removes characters from the source text AFTER every entity has been
   replaced by the character it denotes.  [norm_node o] is that replacement on the tree (the identity when
   normalize is off), so the theorem below contains StripProofs.strip_code_subseq_lemma as the case
   normalize = false.  When an entity cannot be normalised the model's strip_code returns the exception (as
   the code does); the statement is about every call that returns a string. *)
From MW Require Import ListAux PyBase Nodes Strip StripProofs Builder Flatten BuilderProofs Context.

Section N.
Variable invisible : str -> bool.
Variable entity_char : str -> bool -> bool -> res str.
Notation strip_node := (strip_node invisible entity_char).
Notation strip_nodes := (strip_nodes invisible entity_char).

Definition norm_codes (o : sopts) (norm_node : node -> node) : list node -> list node :=
  fix nc (c : list node) : list node := match c with [] => [] | x :: t => norm_node x :: nc t end.

Fixpoint norm_node (o : sopts) (n : node) : node :=
  let nc := fix nc (c : list node) : list node := match c with [] => [] | x :: t => norm_node o x :: nc t end in
  let noc := fun (x : option (list node)) => match x with Some c => Some (nc c) | None => None end in
  match n with
  | NText _ | NComment _ => n
  | NEntity v nm hx hc =>
      if normalize o then match entity_char v nm hx with Ok s => NText s | _ => n end else n
  | NHeading t l => NHeading (nc t) l
  | NWikilink t x => NWikilink (nc t) (noc x)
  | NArgument nm d => NArgument (nc nm) (noc d)
  | NExtLink u t b s => NExtLink (nc u) (noc t) b s
  | NTemplate nm ps =>
      NTemplate (nc nm) ((fix go (l : list (list node * list node * bool)) : list (list node * list node * bool) :=
                            match l with [] => [] | (k, v, sk) :: r => (nc k, nc v, sk) :: go r end) ps)
  | NTag tg ct ats wm sc inv imp pad clt sep cwm =>
      NTag (nc tg) (nc ct)
           ((fix go (l : list (list node * option (list node) * option str * (str * str * str)))
               : list (list node * option (list node) * option str * (str * str * str)) :=
               match l with [] => [] | (nm, v, q, pads) :: r => (nc nm, noc v, q, pads) :: go r end) ats)
           wm sc inv imp pad (nc clt) sep cwm
  end.

Definition norm_code (o : sopts) : code -> code :=
  fix nc (c : list node) : list node := match c with [] => [] | x :: t => norm_node o x :: nc t end.

Lemma norm_code_cons o x t : norm_code o (x :: t) = norm_node o x :: norm_code o t.
Proof. reflexivity. Qed.

(* the source text with every (normalisable) entity replaced by its character *)
Definition ntext (o : sopts) (n : node) : str := str_node (norm_node o n).
Definition ntext_code (o : sopts) (c : code) : str := str_code (norm_code o c).

Lemma ntext_code_cons o x t : ntext_code o (x :: t) = ntext o x ++ ntext_code o t.
Proof. reflexivity. Qed.

Definition node_okn (o : sopts) (n : node) : Prop :=
  match strip_node o n with
  | Ok (Some s) => subseq s (ntext o n)
  | _ => True
  end.

Lemma strip_nodes_okn o c : Forall (node_okn o) c ->
  match strip_nodes o c with Ok s => subseq s (ntext_code o c) | _ => True end.
Proof.
  induction 1 as [|x c Hx _ IH]; cbn [Strip.strip_nodes]; [constructor|].
  unfold node_okn in Hx. rewrite ntext_code_cons.
  destruct (strip_node o x) as [[a|]|e|]; destruct (strip_nodes o c) as [b|e'|]; try exact I.
  - apply subseq_app; [|exact IH]. apply (nonempty_subseq (Some a)). exact Hx.
  - cbn [nonempty concat app]. now apply subseq_app_r.
Qed.

Lemma fin_subseqn o c pre post :
  Forall (node_okn o) c ->
  match fin o (strip_nodes o c) with
  | Ok (Some s) => subseq s (pre ++ ntext_code o c ++ post)
  | _ => True
  end.
Proof.
  intros H. pose proof (strip_nodes_okn o c H) as Hs. unfold fin.
  destruct (strip_nodes o c) as [s|e|]; try exact I.
  apply subseq_app_r. apply subseq_app_l.
  destruct (collapse o); [eapply subseq_trans; [apply collapse_subseq|exact Hs]|exact Hs].
Qed.

Lemma codes_node_okn o k c :
  (forall x, length (fl_node x) < k -> wf_node x -> node_okn o x) ->
  length (fl_code c) < k -> wf_code c -> Forall (node_okn o) c.
Proof.
  intros IH. induction c as [|x c IHc]; intros Hl Hwf; [constructor|].
  cbn [fl_code] in Hl. rewrite app_length in Hl. destruct Hwf as [Hx Hc].
  constructor; [apply IH; [lia|exact Hx]|apply IHc; [lia|exact Hc]].
Qed.

Theorem strip_node_subseqn o : keep_params o = false ->
  forall m n, length (fl_node n) <= m -> wf_node n -> node_okn o n.
Proof.
  intros Hkeep. induction m as [m IHm] using lt_wf_ind. intros n Hm Hwf.
  assert (IH : forall x, length (fl_node x) < length (fl_node n) -> wf_node x -> node_okn o x)
    by (intros x Hx Hw; eapply IHm; [|reflexivity|exact Hw]; lia).
  clear IHm. unfold node_okn, ntext.
  destruct n as [v|c|title l|title [x|]|nm [d|]|u [t|] br sp|v nmd hx hc|nm ps|tg ct ats wm sc inv imp pad clt sep cwm].
  - cbn. apply subseq_refl.
  - cbn. exact I.
  - rewrite (sn_heading invisible entity_char). rewrite wf_heading in Hwf. rewrite fl_heading in IH.
    change (str_node (norm_node o (NHeading title l)))
      with (repeat_str s_eq (Z.to_nat l) ++ ntext_code o title ++ repeat_str s_eq (Z.to_nat l)).
    apply fin_subseqn. apply (codes_node_okn o _ _ IH); [lens; lia|exact Hwf].
  - rewrite (sn_wikilink invisible entity_char). rewrite wf_wikilink in Hwf. destruct Hwf as [_ Hw2]. rewrite fl_wikilink2 in IH.
    change (str_node (norm_node o (NWikilink title (Some x))))
      with (s_lbrack2 ++ ntext_code o title ++ s_pipe ++ ntext_code o x ++ s_rbrack2).
    rewrite !app_assoc. rewrite <- (app_assoc _ (ntext_code o x)).
    apply fin_subseqn. apply (codes_node_okn o _ _ IH); [lens; lia|exact Hw2].
  - rewrite (sn_wikilink invisible entity_char). rewrite wf_wikilink in Hwf. destruct Hwf as [Hw1 _]. rewrite fl_wikilink1 in IH.
    change (str_node (norm_node o (NWikilink title None))) with (s_lbrack2 ++ ntext_code o title ++ s_rbrack2).
    apply fin_subseqn. apply (codes_node_okn o _ _ IH); [lens; lia|exact Hw1].
  - rewrite (sn_argument invisible entity_char). rewrite wf_argument in Hwf. destruct Hwf as [_ Hw2]. rewrite fl_argument2 in IH.
    change (str_node (norm_node o (NArgument nm (Some d))))
      with (s_lbrace3 ++ ntext_code o nm ++ s_pipe ++ ntext_code o d ++ s_rbrace3).
    rewrite !app_assoc. rewrite <- (app_assoc _ (ntext_code o d)).
    apply fin_subseqn. apply (codes_node_okn o _ _ IH); [lens; lia|exact Hw2].
  - cbn. exact I.
  - rewrite wf_extlink in Hwf. destruct Hwf as (Hw1 & Hw2 & _). rewrite fl_extlink2 in IH. destruct br.
    + rewrite (sn_extlink_t invisible entity_char). destruct (str_code t) eqn:Et; [exact I|].
      assert (Hc : Forall (node_okn o) t) by (apply (codes_node_okn o _ _ IH); [lens; lia|exact Hw2]).
      destruct sp.
      * change (str_node (norm_node o (NExtLink u (Some t) true true)))
          with (s_lbrack ++ ntext_code o u ++ ntext_code o t ++ s_rbrack).
        rewrite !app_assoc. rewrite <- (app_assoc _ (ntext_code o t)). now apply fin_subseqn.
      * change (str_node (norm_node o (NExtLink u (Some t) true false)))
          with (s_lbrack ++ ntext_code o u ++ s_space ++ ntext_code o t ++ s_rbrack).
        rewrite !app_assoc. rewrite <- (app_assoc _ (ntext_code o t)). now apply fin_subseqn.
    + rewrite (sn_extlink_free invisible entity_char).
      change (str_node (norm_node o (NExtLink u (Some t) false sp))) with (ntext_code o u).
      rewrite <- (app_nil_r (ntext_code o u)). change (ntext_code o u ++ []) with ([] ++ ntext_code o u ++ []).
      apply fin_subseqn. apply (codes_node_okn o _ _ IH); [lens; lia|exact Hw1].
  - rewrite wf_extlink in Hwf. destruct Hwf as (Hw1 & _ & _). rewrite fl_extlink1 in IH. destruct br.
    + cbn. exact I.
    + rewrite (sn_extlink_free invisible entity_char).
      change (str_node (norm_node o (NExtLink u None false sp))) with (ntext_code o u).
      rewrite <- (app_nil_r (ntext_code o u)). change (ntext_code o u ++ []) with ([] ++ ntext_code o u ++ []).
      apply fin_subseqn. apply (codes_node_okn o _ _ IH); [lens; lia|exact Hw1].
  - (* entity *)
    cbn [Strip.strip_node norm_node]. destruct (normalize o).
    + destruct (entity_char v nmd hx) as [s|e|]; try exact I. cbn. apply subseq_refl.
    + apply subseq_refl.
  - cbn [Strip.strip_node]. rewrite Hkeep. exact I.
  - rewrite (sn_tag invisible entity_char). rewrite wf_tag in Hwf. destruct Hwf as (_ & Hwc & _ & _ & _ & Hsc & _). rewrite fl_tag in IH.
    destruct (str_code ct) eqn:Ect; [exact I|]. destruct (invisible (str_code tg)); [exact I|].
    destruct sc; [destruct Hsc as (-> & _); discriminate Ect|].
    assert (Hc : Forall (node_okn o) ct) by (apply (codes_node_okn o _ _ IH); [lens; lia|exact Hwc]).
    assert (Hstr : exists pre post, str_node (norm_node o (NTag tg ct ats wm false inv imp pad clt sep cwm)) = pre ++ ntext_code o ct ++ post).
    { cbn [norm_node]. rewrite str_tag_eq. fold (norm_code o ct). unfold ntext_code.
      destruct (norm_opt wm).
      - match goal with |- exists pre post, ?a ++ ?b ++ ?c ++ ?d ++ ?m ++ ?e = _ => exists (a ++ b ++ c ++ d), e end.
        rewrite <- !app_assoc. reflexivity.
      - cbn zeta.
        match goal with |- exists pre post, (?a ++ ?b ++ ?c) ++ ?d ++ ?g ++ ?m ++ ?e = _ => exists (a ++ b ++ c ++ d ++ g), e end.
        rewrite <- !app_assoc. reflexivity. }
    destruct Hstr as (pre & post & ->). now apply fin_subseqn.
Qed.

Theorem strip_code_subseqn_lemma o c :
  keep_params o = false -> wf_code c ->
  match strip_code invisible entity_char o c with
  | Ok s => subseq s (ntext_code o c)
  | _ => True
  end.
Proof.
  intros Hk Hw. unfold strip_code.
  assert (Hall : Forall (node_okn o) c).
  { induction c as [|x c IH]; [constructor|]. destruct Hw as [Hx Hc].
    constructor; [apply (strip_node_subseqn o Hk (length (fl_node x))); [lia|exact Hx]|now apply IH]. }
  pose proof (strip_nodes_okn o c Hall) as Hs.
  destruct (strip_nodes o c) as [s|e|]; try exact I.
  destruct (collapse o); [eapply subseq_trans; [apply collapse_subseq|exact Hs]|exact Hs].
Qed.

End N.
