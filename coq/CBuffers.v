(* C07 (logic part): the hand-managed buffers of the C tokenizer over a bounds-checked memory.
   A buffer cell array is a list; every read / write / memcpy of the C code is an operation that
   returns None when it would leave the allocated object (or, for reads, the initialised part).
   "Memory-safe" = no operation of any sequence returns None; the contents refine a plain list.
   The comparison operators, constants and growth expressions are PARAMETERS here; coq/gen/CBufGen.v
   regenerates their values from textbuffer.c / tok_parse.c on every run and props/C07.v instantiates. *)
From Coq Require Import List Arith Bool Lia NArith.
Import ListNotations.
From MW Require Import ListAux.

(* ---- bounds-checked memory *)
Definition mread (m : list N) (limit i : nat) : option N :=
  if (i <? limit) && (i <? length m) then nth_error m i else None.
Definition mwrite (m : list N) (i : nat) (v : N) : option (list N) :=
  if i <? length m then Some (firstn i m ++ v :: skipn (S i) m) else None.

Record tb := { cap : nat; len : nat; data : list N }.
Definition contents (b : tb) : list N := firstn (len b) (data b).
Definition tb_inv (b : tb) : Prop := cap b = length (data b) /\ len b <= cap b /\ 0 < cap b.

Lemma mwrite_ok m i v : i < length m ->
  exists d, mwrite m i v = Some d /\ length d = length m /\ firstn i d = firstn i m /\ nth_error d i = Some v
            /\ skipn (S i) d = skipn (S i) m.
Proof.
  intros H. unfold mwrite. assert (E : (i <? length m) = true) by (apply Nat.ltb_lt; exact H). rewrite E.
  assert (Lf : length (firstn i m) = i) by (rewrite firstn_length; lia).
  eexists. split; [reflexivity|]. repeat split.
  - rewrite app_length. cbn [length]. rewrite Lf, skipn_length. lia.
  - rewrite firstn_app, Lf, Nat.sub_diag. cbn [firstn]. rewrite app_nil_r. rewrite firstn_firstn. f_equal. lia.
  - rewrite nth_error_app2; rewrite Lf; [|lia]. rewrite Nat.sub_diag. reflexivity.
  - replace (S i) with (length (firstn i m) + 1) at 1 by lia.
    rewrite <- skipn_skipn. rewrite skipn_app_exact by reflexivity. reflexivity.
Qed.

Lemma firstn_S_nth {A} (l : list A) i v : nth_error l i = Some v -> firstn (S i) l = firstn i l ++ [v].
Proof.
  revert i. induction l as [|x t IH]; intros [|i] H; cbn in H; try discriminate.
  - injection H as ->. reflexivity.
  - change (x :: firstn (S i) t = x :: (firstn i t ++ [v])). rewrite (IH i H). reflexivity.
Qed.

(* Textbuffer_reverse: for (i = 0; i < length / 2; i++) swap(data[i], data[end - i]), end = length - 1 *)
Fixpoint rev_loop (n i endi limit : nat) (d : list N) : option (list N) :=
  match n with
  | O => Some d
  | S n' =>
      match mread d limit i, mread d limit (endi - i) with
      | Some x, Some y =>
          match mwrite d i y with
          | Some d1 => match mwrite d1 (endi - i) x with
                       | Some d2 => rev_loop n' (S i) endi limit d2
                       | None => None
                       end
          | None => None
          end
      | _, _ => None
      end
  end.
Lemma mwrite_nth m i v d j : mwrite m i v = Some d ->
  length d = length m /\ nth_error d j = if j =? i then Some v else nth_error m j.
Proof.
  unfold mwrite. destruct (i <? length m) eqn:E; [|discriminate]. apply Nat.ltb_lt in E. intros H.
  assert (d = firstn i m ++ v :: skipn (S i) m) as -> by congruence. clear H.
  assert (Lf : length (firstn i m) = i) by (rewrite firstn_length; lia).
  split.
  - rewrite app_length. cbn [length]. rewrite Lf, skipn_length. lia.
  - destruct (Nat.eqb_spec j i) as [->|Hne].
    + rewrite nth_error_app2; rewrite Lf; [|lia]. rewrite Nat.sub_diag. reflexivity.
    + destruct (Nat.lt_ge_cases j i) as [Hlt|Hge].
      * rewrite nth_error_app1 by lia. apply nth_error_firstn. exact Hlt.
      * rewrite nth_error_app2; rewrite Lf; [|lia].
        destruct (j - i) as [|k] eqn:Ek; [lia|]. cbn [nth_error]. rewrite nth_error_skipn. f_equal. lia.
Qed.

Lemma nth_error_ext_eq {A} (l1 l2 : list A) : (forall j, nth_error l1 j = nth_error l2 j) -> l1 = l2.
Proof.
  revert l2. induction l1 as [|x t IH]; intros [|y u] H.
  - reflexivity.
  - specialize (H 0). discriminate.
  - specialize (H 0). discriminate.
  - pose proof (H 0) as H0. cbn in H0. injection H0 as ->. f_equal. apply IH. intros j. exact (H (S j)).
Qed.

Lemma nth_error_rev {A} (l : list A) j : j < length l -> nth_error (rev l) j = nth_error l (length l - 1 - j).
Proof.
  intros H. destruct l as [|x0 t0] eqn:El; [cbn in H; lia|]. rewrite <- El in *. clear El t0.
  rewrite (nth_error_nth' (rev l) x0) by (rewrite rev_length; exact H).
  rewrite (nth_error_nth' l x0) by lia. f_equal. rewrite rev_nth by exact H. f_equal. lia.
Qed.

(* the state of the reversal loop after k swaps *)
Definition swapped (d : list N) (L k j : nat) : option N :=
  if (j <? k) || ((L - k <=? j) && (j <? L)) then nth_error d (L - 1 - j) else nth_error d j.

Lemma rev_loop_spec d L : L <= length d ->
  forall n k dk, k + n = L / 2 -> length dk = length d -> (forall j, nth_error dk j = swapped d L k j) ->
  exists df, rev_loop n k (L - 1) L dk = Some df /\ length df = length d /\ forall j, nth_error df j = swapped d L (L / 2) j.
Proof.
  intros HL. induction n as [|n IH]; intros k dk Hk Hlen Hs.
  - exists dk. replace (L / 2) with k by lia. auto.
  - assert (H2 : 2 * (L / 2) <= L) by (apply Nat.mul_div_le; lia).
    assert (Hk1 : 2 * k + 2 <= L) by lia.
    cbn [rev_loop]. unfold mread.
    assert (E1 : (k <? L) = true) by (apply Nat.ltb_lt; lia).
    assert (E2 : (k <? length dk) = true) by (apply Nat.ltb_lt; lia).
    assert (E3 : (L - 1 - k <? L) = true) by (apply Nat.ltb_lt; lia).
    assert (E4 : (L - 1 - k <? length dk) = true) by (apply Nat.ltb_lt; lia).
    rewrite E1, E2, E3, E4. cbn [andb].
    destruct (nth_error dk k) as [x|] eqn:Ex; [|apply nth_error_None in Ex; lia].
    destruct (nth_error dk (L - 1 - k)) as [y|] eqn:Ey; [|apply nth_error_None in Ey; lia].
    destruct (mwrite dk k y) as [d1|] eqn:W1; [|unfold mwrite in W1; rewrite E2 in W1; discriminate].
    pose proof (fun j => mwrite_nth _ _ _ _ j W1) as N1. destruct (N1 0) as [L1 _].
    destruct (mwrite d1 (L - 1 - k) x) as [d2|] eqn:W2;
      [|unfold mwrite in W2; rewrite L1, E4 in W2; discriminate].
    pose proof (fun j => mwrite_nth _ _ _ _ j W2) as N2. destruct (N2 0) as [L2 _].
    apply IH; [lia|lia|].
    intros j. destruct (N2 j) as [_ ->]. destruct (N1 j) as [_ N1j].
    rewrite Hs in Ex, Ey. unfold swapped in Ex, Ey.
    assert (Fx : (k <? k) || ((L - k <=? k) && (k <? L)) = false).
    { rewrite Nat.ltb_irrefl. cbn [orb]. assert ((L - k <=? k) = false) as -> by (apply Nat.leb_gt; lia). reflexivity. }
    assert (Fy : (L - 1 - k <? k) || ((L - k <=? L - 1 - k) && (L - 1 - k <? L)) = false).
    { assert ((L - 1 - k <? k) = false) as -> by (apply Nat.ltb_ge; lia).
      assert ((L - k <=? L - 1 - k) = false) as -> by (apply Nat.leb_gt; lia). reflexivity. }
    rewrite Fx in Ex. rewrite Fy in Ey.
    unfold swapped.
    destruct (Nat.eqb_spec j (L - 1 - k)) as [->|Hn1].
    + assert ((L - 1 - k <? S k) || ((L - S k <=? L - 1 - k) && (L - 1 - k <? L)) = true) as ->.
      { assert ((L - S k <=? L - 1 - k) = true) as -> by (apply Nat.leb_le; lia). rewrite E3. apply orb_true_r. }
      rewrite <- Ex. f_equal. lia.
    + rewrite N1j. destruct (Nat.eqb_spec j k) as [Hj|Hn2].
      * subst j. assert ((k <? S k) = true) as -> by (apply Nat.ltb_lt; lia). cbn [orb]. symmetry. exact Ey.
      * rewrite Hs. unfold swapped.
        assert ((j <? S k) = (j <? k)) as ->.
        { destruct (Nat.ltb_spec j k), (Nat.ltb_spec j (S k)); try reflexivity; lia. }
        assert ((L - S k <=? j) && (j <? L) = (L - k <=? j) && (j <? L)) as ->; [|reflexivity].
        destruct (Nat.leb_spec (L - S k) j), (Nat.leb_spec (L - k) j), (Nat.ltb_spec j L); try reflexivity; lia.
Qed.

Section Model.
Variable initial_capacity resize_factor concat_extra : nat.
Variable write_needs_resize concat_needs_resize : nat -> nat -> bool.

Definition tb_new : tb := {| cap := initial_capacity; len := 0; data := repeat 0%N initial_capacity |}.

(* internal_resize: a new object of new_cap cells, memcpy of `length` cells *)
Definition tb_resize (b : tb) (new_cap : nat) : option tb :=
  if (len b <=? new_cap) && (len b <=? length (data b))
  then Some {| cap := new_cap; len := len b; data := firstn (len b) (data b) ++ repeat 0%N (new_cap - len b) |}
  else None.

Definition tb_write (b : tb) (c : N) : option tb :=
  match (if write_needs_resize (len b) (cap b) then tb_resize b (cap b * resize_factor) else Some b) with
  | Some b1 =>
      match mwrite (data b1) (len b1) c with
      | Some d => Some {| cap := cap b1; len := S (len b1); data := d |}
      | None => None
      end
  | None => None
  end.

Definition tb_render (b : tb) : option (list N) :=
  if len b <=? length (data b) then Some (firstn (len b) (data b)) else None.

Definition tb_concat (a o : tb) : option tb :=
  let newlen := len a + len o in
  match (if concat_needs_resize newlen (cap a) then tb_resize a (newlen + concat_extra) else Some a) with
  | Some a1 =>
      if (len a1 + len o <=? length (data a1)) && (len o <=? length (data o))
      then Some {| cap := cap a1; len := newlen;
                   data := firstn (len a1) (data a1) ++ firstn (len o) (data o) ++ skipn (len a1 + len o) (data a1) |}
      else None
  | None => None
  end.

Definition tb_reverse (b : tb) : option tb :=
  match rev_loop (len b / 2) 0 (len b - 1) (len b) (data b) with
  | Some d => Some {| cap := cap b; len := len b; data := d |}
  | None => None
  end.

(* `textbuffer->length -= n` (Tokenizer_remove_uri_scheme_from_textbuffer); a negative length is fatal *)
Definition tb_truncate (b : tb) (n : nat) : option tb :=
  if n <=? len b then Some {| cap := cap b; len := len b - n; data := data b |} else None.

(* the backwards scan of Tokenizer_parse_free_uri_scheme: for (i = length - 1; i >= 0; i--) read(i); stop at
   the first cell that is not a word character; returns the cells read (None = out-of-bounds read) *)
Fixpoint scan_back (word : N -> bool) (i : nat) (b : tb) : option (list N) :=
  match i with
  | O => Some []
  | S j => match mread (data b) (len b) j with
           | Some c => if word c then match scan_back word j b with Some l => Some (c :: l) | None => None end else Some []
           | None => None
           end
  end.
Definition scheme_scan (word : N -> bool) (b : tb) : option (list N) := scan_back word (len b) b.

(* ---- hypotheses about the generated parameters *)
Hypothesis Hinit : 0 < initial_capacity.
Hypothesis Hfactor : 2 <= resize_factor.
Hypothesis Hwrite : forall l c, l <= c -> write_needs_resize l c = false -> l < c.
Hypothesis Hwrite_t : forall l c, write_needs_resize l c = true -> l <= c -> 0 < c -> l < c * resize_factor.
Hypothesis Hconcat : forall n c, concat_needs_resize n c = false -> n <= c.
Hypothesis Hconcat_t : forall n c, concat_needs_resize n c = true -> 0 < c -> 0 < n + concat_extra.

Lemma new_inv : tb_inv tb_new /\ contents tb_new = [].
Proof. unfold tb_inv, tb_new, contents; cbn [cap len data]. rewrite repeat_length. repeat split; try lia; auto. Qed.

Lemma resize_ok b n : tb_inv b -> len b <= n -> 0 < n ->
  exists b', tb_resize b n = Some b' /\ tb_inv b' /\ contents b' = contents b /\ cap b' = n /\ len b' = len b.
Proof.
  intros (Hc & Hl & Hp) Hn Hn0. unfold tb_resize.
  assert (E1 : (len b <=? n) = true) by (apply Nat.leb_le; lia).
  assert (E2 : (len b <=? length (data b)) = true) by (apply Nat.leb_le; lia).
  rewrite E1, E2. cbn [andb]. eexists. split; [reflexivity|].
  unfold tb_inv, contents; cbn [cap len data].
  assert (Lf : length (firstn (len b) (data b)) = len b) by (rewrite firstn_length; lia).
  repeat split.
  - rewrite app_length, repeat_length, Lf. lia.
  - exact Hn.
  - exact Hn0.
  - rewrite firstn_app, Lf, Nat.sub_diag. cbn [firstn]. rewrite app_nil_r.
    rewrite firstn_firstn. f_equal. lia.
Qed.

Theorem write_ok b c : tb_inv b ->
  exists b', tb_write b c = Some b' /\ tb_inv b' /\ contents b' = contents b ++ [c].
Proof.
  intros Hi. unfold tb_write.
  assert (exists b1, (if write_needs_resize (len b) (cap b) then tb_resize b (cap b * resize_factor) else Some b) = Some b1
                     /\ tb_inv b1 /\ contents b1 = contents b /\ len b1 < cap b1 /\ len b1 = len b) as (b1 & E & Hi1 & Hc1 & Hlt & Hl1).
  { destruct Hi as (Hc & Hl & Hp).
    destruct (write_needs_resize (len b) (cap b)) eqn:W.
    - pose proof (Hwrite_t _ _ W Hl Hp) as Hlt.
      destruct (resize_ok b (cap b * resize_factor)) as (b' & E & Hi' & Hc' & Hcap & Hlen); [repeat split; auto|lia|nia|].
      exists b'. split; [exact E|]. split; [exact Hi'|]. split; [exact Hc'|]. split; [rewrite Hcap, Hlen; exact Hlt|exact Hlen].
    - exists b. split; [reflexivity|]. split; [repeat split; auto|]. split; [reflexivity|]. split; [exact (Hwrite _ _ Hl W)|reflexivity]. }
  rewrite E. destruct Hi1 as (Hc & Hl & Hp).
  destruct (mwrite_ok (data b1) (len b1) c) as (d & Ew & Ld & Fd & Nd & _); [lia|].
  rewrite Ew. eexists. split; [reflexivity|]. unfold tb_inv, contents; cbn [cap len data]. repeat split; try lia.
  rewrite (firstn_S_nth _ _ _ Nd), Fd. unfold contents in Hc1. rewrite Hc1. reflexivity.
Qed.

Theorem render_ok b : tb_inv b -> tb_render b = Some (contents b).
Proof.
  intros (Hc & Hl & _). unfold tb_render. assert (E : (len b <=? length (data b)) = true) by (apply Nat.leb_le; lia).
  rewrite E. reflexivity.
Qed.

Theorem concat_ok a o : tb_inv a -> tb_inv o ->
  exists a', tb_concat a o = Some a' /\ tb_inv a' /\ contents a' = contents a ++ contents o.
Proof.
  intros Ha Ho. unfold tb_concat.
  assert (exists a1, (if concat_needs_resize (len a + len o) (cap a) then tb_resize a (len a + len o + concat_extra) else Some a) = Some a1
                     /\ tb_inv a1 /\ contents a1 = contents a /\ len a + len o <= cap a1 /\ len a1 = len a) as (a1 & E & Hi1 & Hc1 & Hle & Hl1).
  { destruct (concat_needs_resize (len a + len o) (cap a)) eqn:W.
    - destruct Ha as (Hc & Hl & Hp).
      destruct (resize_ok a (len a + len o + concat_extra)) as (b' & E & Hi' & Hc' & Hcap & Hlen); [repeat split; auto|lia|exact (Hconcat_t _ _ W Hp)|].
      exists b'. split; [exact E|]. split; [exact Hi'|]. split; [exact Hc'|]. split; [rewrite Hcap; lia|exact Hlen].
    - exists a. split; [reflexivity|]. split; [exact Ha|]. split; [reflexivity|]. split; [exact (Hconcat _ _ W)|reflexivity]. }
  rewrite E. destruct Hi1 as (Hc & Hl & Hp). destruct Ho as (Hoc & Hol & Hop).
  assert (E1 : (len a1 + len o <=? length (data a1)) = true) by (apply Nat.leb_le; lia).
  assert (E2 : (len o <=? length (data o)) = true) by (apply Nat.leb_le; lia).
  rewrite E1, E2. cbn [andb]. eexists. split; [reflexivity|].
  assert (L1 : length (firstn (len a1) (data a1)) = len a1) by (rewrite firstn_length; lia).
  assert (L2 : length (firstn (len o) (data o)) = len o) by (rewrite firstn_length; lia).
  unfold tb_inv, contents; cbn [cap len data]. repeat split; try lia.
  - rewrite !app_length, L1, L2, skipn_length. lia.
  - rewrite app_assoc. rewrite firstn_app.
    rewrite app_length, L1, L2. replace (len a + len o - (len a1 + len o)) with 0 by lia. cbn [firstn]. rewrite app_nil_r.
    rewrite firstn_all2 by (rewrite app_length, L1, L2; lia).
    unfold contents in Hc1. rewrite Hc1. reflexivity.
Qed.

Theorem reverse_ok b : tb_inv b ->
  exists b', tb_reverse b = Some b' /\ tb_inv b' /\ contents b' = rev (contents b).
Proof.
  intros (Hc & Hl & Hp). unfold tb_reverse.
  destruct (rev_loop_spec (data b) (len b) ltac:(lia) (len b / 2) 0 (data b) ltac:(lia) eq_refl) as (df & E & Ldf & Hs).
  { intros j. unfold swapped. assert ((j <? 0) = false) as -> by reflexivity. cbn [orb].
    rewrite Nat.sub_0_r. destruct (Nat.leb_spec (len b) j); [|reflexivity].
    destruct (Nat.ltb_spec j (len b)); [lia|reflexivity]. }
  rewrite E. eexists. split; [reflexivity|]. unfold tb_inv, contents; cbn [cap len data]. repeat split; try lia.
  apply nth_error_ext_eq. intros j.
  assert (Lc : length (firstn (len b) (data b)) = len b) by (rewrite firstn_length; lia).
  destruct (Nat.lt_ge_cases j (len b)) as [Hj|Hj].
  - rewrite nth_error_firstn by exact Hj. rewrite nth_error_rev by (rewrite Lc; exact Hj). rewrite Lc.
    rewrite nth_error_firstn by lia. rewrite Hs. unfold swapped.
    assert (H2 : 2 * (len b / 2) <= len b) by (apply Nat.mul_div_le; lia).
    assert (H3 : len b < 2 * (len b / 2) + 2).
    { pose proof (Nat.div_mod (len b) 2 ltac:(lia)). pose proof (Nat.mod_upper_bound (len b) 2 ltac:(lia)). lia. }
    destruct (Nat.ltb_spec j (len b / 2)); cbn [orb]; [reflexivity|].
    destruct (Nat.leb_spec (len b - len b / 2) j); cbn [andb].
    + destruct (Nat.ltb_spec j (len b)); [reflexivity|lia].
    + f_equal. lia.
  - transitivity (@None N).
    + apply nth_error_None. rewrite firstn_length. lia.
    + symmetry. apply nth_error_None. rewrite rev_length, Lc. exact Hj.
Qed.

Theorem truncate_ok b n : tb_inv b -> n <= len b ->
  exists b', tb_truncate b n = Some b' /\ tb_inv b' /\ contents b' = firstn (len b - n) (contents b).
Proof.
  intros (Hc & Hl & Hp) Hn. unfold tb_truncate. assert (E : (n <=? len b) = true) by (apply Nat.leb_le; exact Hn).
  rewrite E. eexists. split; [reflexivity|]. unfold tb_inv, contents; cbn [cap len data]. repeat split; try lia.
  rewrite firstn_firstn. f_equal. lia.
Qed.

(* the scan reads only initialised cells, and the scheme it returns is never longer than the buffer:
   the later `length -= len(scheme)` cannot make the length negative *)
Lemma scan_back_ok word b i : tb_inv b -> i <= len b ->
  exists l, scan_back word i b = Some l /\ length l <= i.
Proof.
  intros (Hc & Hl & Hp) Hi. induction i as [|j IH].
  - exists []. split; [reflexivity|cbn; lia].
  - cbn [scan_back]. unfold mread.
    assert (E1 : (j <? len b) = true) by (apply Nat.ltb_lt; lia).
    assert (E2 : (j <? length (data b)) = true) by (apply Nat.ltb_lt; lia).
    rewrite E1, E2. cbn [andb].
    destruct (nth_error (data b) j) as [c|] eqn:En.
    + destruct (word c).
      * destruct IH as (l & El & Ll); [lia|]. rewrite El. exists (c :: l). split; [reflexivity|cbn [length]; lia].
      * exists []. split; [reflexivity|cbn; lia].
    + apply nth_error_None in En. lia.
Qed.

Theorem scheme_scan_then_truncate_ok word b : tb_inv b ->
  exists l b', scheme_scan word b = Some l /\ tb_truncate b (length l) = Some b' /\ tb_inv b'.
Proof.
  intros Hi. destruct (scan_back_ok word b (len b) Hi (le_n _)) as (l & El & Ll).
  destruct (truncate_ok b (length l) Hi Ll) as (b' & Et & Hi' & _).
  exists l, b'. unfold scheme_scan. auto.
Qed.

(* ---- operation sequences on two buffers (the stack's text buffer and a scratch buffer) *)
Inductive op := OWrite (which : bool) (c : N) | OConcat | OReverse | OReset (which : bool) | OTruncate (n : nat) | ORender (which : bool).

Definition step (s : tb * tb) (o : op) : option (tb * tb) :=
  let '(a, b) := s in
  match o with
  | OWrite false c => match tb_write a c with Some a' => Some (a', b) | None => None end
  | OWrite true c => match tb_write b c with Some b' => Some (a, b') | None => None end
  | OConcat => match tb_concat a b with Some a' => Some (a', b) | None => None end
  | OReverse => match tb_reverse b with Some b' => Some (a, b') | None => None end
  | OReset false => Some (tb_new, b)
  | OReset true => Some (a, tb_new)
  | OTruncate n => match tb_truncate a (Nat.min n (len a)) with Some a' => Some (a', b) | None => None end
  | ORender false => match tb_render a with Some _ => Some s | None => None end
  | ORender true => match tb_render b with Some _ => Some s | None => None end
  end.

Definition spec_step (s : list N * list N) (o : op) : list N * list N :=
  let '(a, b) := s in
  match o with
  | OWrite false c => (a ++ [c], b)
  | OWrite true c => (a, b ++ [c])
  | OConcat => (a ++ b, b)
  | OReverse => (a, rev b)
  | OReset false => ([], b)
  | OReset true => (a, [])
  | OTruncate n => (firstn (length a - Nat.min n (length a)) a, b)
  | ORender _ => s
  end.

Fixpoint run (s : tb * tb) (ops : list op) : option (tb * tb) :=
  match ops with [] => Some s | o :: t => match step s o with Some s' => run s' t | None => None end end.

Lemma contents_length b : tb_inv b -> length (contents b) = len b.
Proof. intros (Hc & Hl & _). unfold contents. rewrite firstn_length. lia. Qed.

Lemma step_ok a b o : tb_inv a -> tb_inv b ->
  exists a' b', step (a, b) o = Some (a', b') /\ tb_inv a' /\ tb_inv b' /\
                (contents a', contents b') = spec_step (contents a, contents b) o.
Proof.
  intros Ha Hb. destruct o as [[|] c| | |[|]|n|[|]]; cbn [step spec_step].
  - destruct (write_ok b c Hb) as (b' & E & Hi & Hc). rewrite E. exists a, b'. rewrite Hc. auto.
  - destruct (write_ok a c Ha) as (a' & E & Hi & Hc). rewrite E. exists a', b. rewrite Hc. auto.
  - destruct (concat_ok a b Ha Hb) as (a' & E & Hi & Hc). rewrite E. exists a', b. rewrite Hc. auto.
  - destruct (reverse_ok b Hb) as (b' & E & Hi & Hc). rewrite E. exists a, b'. rewrite Hc. auto.
  - destruct new_inv as (Hn & Hcn). exists a, tb_new. rewrite Hcn. auto.
  - destruct new_inv as (Hn & Hcn). exists tb_new, b. rewrite Hcn. auto.
  - destruct (truncate_ok a (Nat.min n (len a)) Ha (Nat.le_min_r _ _)) as (a' & E & Hi & Hc). rewrite E.
    exists a', b. rewrite Hc, (contents_length a Ha). auto.
  - rewrite (render_ok b Hb). exists a, b. auto.
  - rewrite (render_ok a Ha). exists a, b. auto.
Qed.

Theorem run_ok ops : forall a b, tb_inv a -> tb_inv b ->
  exists a' b', run (a, b) ops = Some (a', b') /\ tb_inv a' /\ tb_inv b' /\
                (contents a', contents b') = fold_left spec_step ops (contents a, contents b).
Proof.
  induction ops as [|o t IH]; intros a b Ha Hb.
  - exists a, b. cbn. auto.
  - destruct (step_ok a b o Ha Hb) as (a1 & b1 & E & Ha1 & Hb1 & Hs).
    cbn [run fold_left]. rewrite E. destruct (IH a1 b1 Ha1 Hb1) as (a2 & b2 & E2 & Ha2 & Hb2 & Hs2).
    exists a2, b2. rewrite <- Hs. auto.
Qed.

End Model.

(* ---- the entity text buffer: calloc(alloc) zeroes, text[i] = c only after the guard let i through *)
Section Entity.
Variable alloc : nat.
Variable guard : nat -> bool.     (* true = fail the route before writing text[i] *)

Fixpoint entity_loop (cs : list N) (i : nat) (text : list N) : option (list N) :=
  match cs with
  | [] => Some text
  | c :: t => if guard i then Some text
              else match mwrite text i c with Some text' => entity_loop t (S i) text' | None => None end
  end.

Hypothesis Hguard : forall i, guard i = false -> S i < alloc.

(* every write is inside the allocation and the last cell stays 0: strcmp / sscanf / strlen stop inside it *)
Theorem entity_loop_ok cs : forall i text, length text = alloc -> nth_error text (alloc - 1) = Some 0%N ->
  exists text', entity_loop cs i text = Some text' /\ length text' = alloc /\ nth_error text' (alloc - 1) = Some 0%N.
Proof.
  induction cs as [|c t IH]; intros i text Hl Hz.
  - exists text. auto.
  - cbn [entity_loop]. destruct (guard i) eqn:G.
    + exists text. auto.
    + pose proof (Hguard i G) as Hi.
      destruct (mwrite_ok text i c) as (d & Ew & Ld & Fd & Nd & Sd); [lia|]. rewrite Ew.
      apply IH; [lia|].
      assert (nth_error d (alloc - 1) = nth_error text (alloc - 1)) as ->; [|exact Hz].
      replace (alloc - 1) with (S i + (alloc - 1 - S i)) by lia.
      rewrite <- !nth_error_skipn. rewrite Sd. reflexivity.
Qed.
End Entity.
