(* Shared vocabulary for all models: code points, strings, Python-style results. *)
From Coq Require Export List ZArith Bool Lia.
Export ListNotations.

Definition cp := N.
Definition str := list cp.

Inductive exn := IndexError | ValueError | TypeError | ParserError | AttributeError.

(* Resource = fuel / recursion / memory exhaustion: never a normal-looking value. *)
Inductive res (A : Type) := Ok (a : A) | Exn (e : exn) | Resource.
Arguments Ok {A} a.
Arguments Exn {A} e.
Arguments Resource {A}.

Definition exn_eqb (a b : exn) : bool :=
  match a, b with
  | IndexError, IndexError | ValueError, ValueError | TypeError, TypeError
  | ParserError, ParserError | AttributeError, AttributeError => true
  | _, _ => false
  end.

Definition bind {A B} (r : res A) (f : A -> res B) : res B :=
  match r with Ok a => f a | Exn e => Exn e | Resource => Resource end.

(* Python slice of a list for 0 <= s, e given as nat (already adjusted). *)
Definition slice {A} (l : list A) (s e : nat) : list A := firstn (e - s) (skipn s l).
(* Replace l[a:b] by new (a <= b <= length l expected). *)
Definition splice {A} (l : list A) (a b : nat) (new : list A) : list A :=
  firstn a l ++ new ++ skipn b l.
