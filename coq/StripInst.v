(* Concrete instance of the strip_code parameters: HTMLEntity.normalize() and is_visible(),
   over the generated tables (html.entities.name2codepoint, definitions.INVISIBLE_TAGS). *)
From Coq Require Import String Ascii.
From MW Require Import PyBase Nodes Strip.
From MW.gen Require Import Tables.

Fixpoint str_of_string (s : string) : str :=
  match s with EmptyString => [] | String c r => N_of_ascii c :: str_of_string r end.

Definition str_eqb (a b : str) : bool :=
  Nat.eqb (length a) (length b) && forallb (fun p => N.eqb (fst p) (snd p)) (combine a b).

Definition ascii_lower (c : cp) : cp := if (N.leb 65 c && N.leb c 90)%N then (c + 32)%N else c.

Definition py_invisible (tag : str) : bool :=
  existsb (fun t => str_eqb (str_of_string t) (map ascii_lower tag)) py_invisible_tags.

Definition digit_val (hex : bool) (c : cp) : option N :=
  if (N.leb 48 c && N.leb c 57)%N then Some (c - 48)%N
  else if hex && (N.leb 97 c && N.leb c 102)%N then Some (c - 87)%N
  else if hex && (N.leb 65 c && N.leb c 70)%N then Some (c - 55)%N
  else None.

Fixpoint parse_num (hex : bool) (s : str) (acc : N) : option N :=
  match s with
  | [] => Some acc
  | c :: t => match digit_val hex c with
              | Some d => parse_num hex t (acc * (if hex then 16 else 10) + d)%N
              | None => None
              end
  end.

Definition py_entity_char (v : str) (named hexadecimal : bool) : res str :=
  if named then
    match find (fun p => str_eqb (str_of_string (fst p)) v) entity_codepoints with
    | Some p => Ok [snd p]
    | None => Exn ValueError        (* KeyError *)
    end
  else
    match v with
    | [] => Exn ValueError
    | _ => match parse_num hexadecimal v 0%N with
           | Some n => if N.leb n 1114111 then Ok [n] else Exn ValueError
           | None => Exn ValueError
           end
    end.

Definition py_strip_code := strip_code py_invisible py_entity_char.
