(* String targets (C08): Wikicode._do_weak_search on ONE node list, exact matches, and the edits
   remove / replace / insert_before / insert_after make at them.

   The code scans the node list from its END: at index i, if the pattern's last node equals node i
   and the m-1 nodes before it equal the rest of the pattern (and exist), it records slice(i-m+1, i+1)
   and goes on at i-m; otherwise at i-1.  The recorded slices are then edited in that order, i.e. from
   right to left, each edit touching only nodes at or right of its own start.  Node equality is '==' of
   StringMixIn, i.e. equality of the rendered text - an arbitrary boolean relation here.

   The model works on the reversed list (the scan order): [scan_apply] walks it once, structurally;
   [skip] counts nodes of a match that was already handled.  The k-th match found (k = 0 is the
   right-most one) is replaced by [h k segment]. *)
From MW Require Import ListAux PyBase.

Section W.
Context {A : Type}.
Variable eqb : A -> A -> bool.

(* p is, node for node, a prefix of r *)
Fixpoint prefix_eqb (p r : list A) : bool :=
  match p, r with
  | [], _ => true
  | _ :: _, [] => false
  | a :: p', b :: r' => eqb a b && prefix_eqb p' r'
  end.

(* reversed world: rp = reversed pattern, r = reversed node list, g k seg = what replaces the k-th match (reversed) *)
Fixpoint scan_apply (rp : list A) (g : nat -> list A -> list A) (r : list A) (skip k : nat) {struct r} : list A :=
  match r with
  | [] => []
  | x :: t =>
      match skip with
      | S s => scan_apply rp g t s k
      | O => if prefix_eqb rp r
             then g k (firstn (length rp) r) ++ scan_apply rp g t (length rp - 1) (S k)
             else x :: scan_apply rp g t 0 k
      end
  end.

(* number of matches the scan records *)
Fixpoint scan_count (rp : list A) (r : list A) (skip : nat) {struct r} : nat :=
  match r with
  | [] => 0
  | x :: t =>
      match skip with
      | S s => scan_count rp t s
      | O => if prefix_eqb rp r then S (scan_count rp t (length rp - 1)) else scan_count rp t 0
      end
  end.

Definition weak_edit (pat : list A) (h : nat -> list A -> list A) (l : list A) : res (list A) :=
  match pat with
  | [] => Exn ValueError                      (* "if not obj ... raise ValueError" *)
  | _ :: _ =>
      if Nat.eqb (scan_count (rev pat) (rev l) 0) 0 then Exn ValueError
      else Ok (rev (scan_apply (rev pat) (fun k seg => rev (h k (rev seg))) (rev l) 0 0))
  end.

(* the four string-target operations; new k = the nodes of the value's k-th instance *)
Definition weak_remove (pat l : list A) := weak_edit pat (fun _ _ => []) l.
Definition weak_replace (pat : list A) (new : nat -> list A) l := weak_edit pat (fun k _ => new k) l.
Definition weak_before (pat : list A) (new : nat -> list A) l := weak_edit pat (fun k seg => new k ++ seg) l.
Definition weak_after (pat : list A) (new : nat -> list A) l := weak_edit pat (fun k seg => seg ++ new k) l.
End W.
