(* C06 / C19: state ownership.
   An object is a finite map field -> value.  One call = body (reset st args): the call first
   overwrites the fields in [reset_fields] with values that depend on the arguments only, then
   runs a body that reads instance state only through [fields_all].  If fields_all is included in
   reset_fields the result does not depend on the state the object had before - whatever earlier
   calls, completed or aborted at any point, left behind.
   Interleaving: machines that only touch their own instance state give, under every schedule,
   the result of their solo runs. *)
From Coq Require Import String List Bool Arith Lia.
Import ListNotations.
Local Open Scope string_scope.

Definition smem (x : string) (l : list string) : bool := existsb (String.eqb x) l.
Definition subset (a b : list string) : bool := forallb (fun x => smem x b) a.

Lemma smem_In x l : smem x l = true <-> In x l.
Proof.
  unfold smem. rewrite existsb_exists. split.
  - intros (y & Hy & E). apply String.eqb_eq in E. now subst.
  - intros H. exists x. split; [exact H|apply String.eqb_refl].
Qed.

Section Pure.
Variables (value args result : Type).
Definition state := string -> value.
Variable fields_all : list string.
Variable reset_fields : list string.
Variable reset_val : args -> string -> value.
Variable body : state -> args -> result.

Definition reset (st : state) (a : args) : state :=
  fun f => if smem f reset_fields then reset_val a f else st f.
Definition call (st : state) (a : args) : result := body (reset st a) a.

(* Python attribute semantics: the body reaches instance state only through named attributes *)
Hypothesis body_reads_fields : forall st st' a,
  (forall f, In f fields_all -> st f = st' f) -> body st a = body st' a.

Theorem call_independent_of_history :
  subset fields_all reset_fields = true -> forall st st' a, call st a = call st' a.
Proof.
  intros Hsub st st' a. unfold call. apply body_reads_fields. intros f Hf.
  unfold subset in Hsub. rewrite forallb_forall in Hsub. specialize (Hsub f Hf).
  unfold reset. now rewrite Hsub.
Qed.
End Pure.

(* ---- interleaving of independent machines ---- *)
Section Interleave.
Variable S : Type.
Variable step : nat -> S -> S.        (* step of machine i on ITS OWN state (shared data is read-only) *)

Fixpoint upd (l : list S) (i : nat) (f : S -> S) : list S :=
  match l, i with
  | [], _ => []
  | x :: t, O => f x :: t
  | x :: t, Datatypes.S j => x :: upd t j f
  end.

Definition run_schedule (init : list S) (sched : list nat) : list S :=
  fold_left (fun st i => upd st i (step i)) sched init.

Fixpoint iter (n : nat) (f : S -> S) (x : S) : S := match n with O => x | Datatypes.S k => iter k f (f x) end.

Lemma nth_upd_same l i f d : i < length l -> nth i (upd l i f) d = f (nth i l d).
Proof. revert i. induction l as [|x t IH]; intros [|i] H; cbn in *; try lia; auto. apply IH. lia. Qed.
Lemma nth_upd_other l i j f d : i <> j -> nth j (upd l i f) d = nth j l d.
Proof. revert i j. induction l as [|x t IH]; intros [|i] [|j] H; cbn; auto; try lia. Qed.
Lemma length_upd l i f : length (upd l i f) = length l.
Proof. revert i. induction l as [|x t IH]; intros [|i]; cbn; auto. Qed.

Theorem interleave_independent : forall sched init i d,
  i < length init ->
  nth i (run_schedule init sched) d = iter (count_occ Nat.eq_dec sched i) (step i) (nth i init d).
Proof.
  unfold run_schedule. induction sched as [|j sched IH]; intros init i d Hi; cbn [fold_left count_occ]; [reflexivity|].
  rewrite IH by (now rewrite length_upd).
  destruct (Nat.eq_dec j i) as [->|Hne]; cbn [iter].
  - now rewrite nth_upd_same.
  - now rewrite nth_upd_other.
Qed.
End Interleave.

(* module-level state may only be written by module initialisation *)
Definition writers_allowed (allowed : list string) (globals : list (string * list string)) : bool :=
  forallb (fun g => subset (snd g) allowed) globals.
