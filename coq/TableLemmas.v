(* Lemmas about table lookups used by both tokenizers (C04). *)
From Coq Require Import String Ascii List Bool NArith.
Import ListNotations.
Local Open Scope string_scope.

Definition smem (x : string) (l : list string) : bool := existsb (String.eqb x) l.

Fixpoint is_ascii_nonul (s : string) : bool :=
  match s with
  | EmptyString => true
  | String c r => (let n := N_of_ascii c in (N.ltb 0 n && N.ltb n 128)%N) && is_ascii_nonul r
  end.

(* Python: name.lower() in TABLE.   C: unicode_in_string_list: lower(), then encode as ASCII
   (a non-ASCII result, or one with an embedded NUL, matches nothing), then strcmp against the table.
   Both start from the same lower-cased string [low]. *)
Definition py_in (table : list string) (low : string) : bool := smem low table.
Definition c_in (table : list string) (low : string) : bool :=
  if is_ascii_nonul low then smem low table else false.

Lemma smem_In x l : smem x l = true <-> In x l.
Proof.
  unfold smem. rewrite existsb_exists. split.
  - intros (y & Hy & E). apply String.eqb_eq in E. now subst.
  - intros H. exists x. split; [exact H|apply String.eqb_refl].
Qed.

Lemma in_table_equiv table low :
  forallb is_ascii_nonul table = true -> c_in table low = py_in table low.
Proof.
  intros Hall. unfold c_in, py_in. destruct (is_ascii_nonul low) eqn:E; [reflexivity|].
  destruct (smem low table) eqn:Hm; [|reflexivity].
  apply smem_In in Hm. rewrite forallb_forall in Hall. specialize (Hall _ Hm). congruence.
Qed.

(* sorted association lists are compared as they are: both generators sort by name *)
Definition pairs_eqb (a b : list (string * N)) : bool :=
  (Nat.eqb (length a) (length b)) &&
  forallb (fun p => String.eqb (fst (fst p)) (fst (snd p)) && N.eqb (snd (fst p)) (snd (snd p))) (combine a b).

Definition strings_eqb (a b : list string) : bool :=
  (Nat.eqb (length a) (length b)) && forallb (fun p => String.eqb (fst p) (snd p)) (combine a b).

Definition nlist_eqb (a b : list N) : bool :=
  (Nat.eqb (length a) (length b)) && forallb (fun p => N.eqb (fst p) (snd p)) (combine a b).

Fixpoint is_pow2_pos (p : positive) : bool :=
  match p with xH => true | xO q => is_pow2_pos q | xI _ => false end.
Definition is_pow2 (n : N) : bool := match n with N0 => false | Npos p => is_pow2_pos p end.

Fixpoint nodup_N (l : list N) : bool :=
  match l with [] => true | x :: t => negb (existsb (N.eqb x) t) && nodup_N t end.

(* the non-aggregate local contexts: exactly the one-bit values *)
Definition flags (ctx : list (string * N)) : list (string * N) :=
  filter (fun p => is_pow2 (snd p) && negb (String.prefix "GL_" (fst p))) ctx.
(* every aggregate is the OR of flags of the table (nothing outside the table's bits) *)
Definition all_bits (ctx : list (string * N)) : N := fold_right N.lor 0%N (map snd (flags ctx)).
Definition aggregates_within (ctx : list (string * N)) : bool :=
  forallb (fun p => N.eqb (N.land (snd p) (all_bits ctx)) (snd p) || String.prefix "GL_" (fst p)) ctx.
