From MW Require Import ListAux PyBase Escape.

Section P.
Variable c : cp.
Variable ent : str.
Hypothesis ent_clean : ~ In c ent.          (* "&#124;" has no '|', "&#61;" has no '=' *)

Lemma esc_text_clean s : ~ In c (esc_text c ent s).
Proof.
  unfold esc_text. induction s as [|x s IH]; cbn [flat_map]; [tauto|].
  intros H. apply in_app_or in H. destruct H as [H|H]; [|tauto].
  destruct (N.eqb_spec x c) as [->|Hne]; [now apply ent_clean|]. cbn in H. destruct H as [H|[]]. congruence.
Qed.

(* an induction principle that goes through the children of open nodes *)
Lemma item_ind' (P : item -> Prop) :
  (forall s, P (IText s)) -> (forall s, P (IClosed s)) ->
  (forall pre ch, Forall (fun p => Forall P (fst p)) ch -> P (IOpen pre ch)) ->
  forall i, P i.
Proof.
  intros HT HC HO. fix IH 1. intros [s|s|pre ch]; [apply HT|apply HC|]. apply HO.
  induction ch as [|[l t] ch IHch]; constructor; [|exact IHch].
  cbn [fst]. induction l as [|i l IHl]; constructor; [apply IH|exact IHl].
Qed.

Lemma bare_esc_item i : ~ In c (bare_item (esc_item c ent i)).
Proof.
  induction i as [s|s|pre ch IH] using item_ind'; cbn [esc_item bare_item]; [apply esc_text_clean|tauto|].
  intros H. apply in_flat_map in H. destruct H as (p & Hp & H). apply in_map_iff in Hp.
  destruct Hp as ((l & t) & <- & Hin). cbn [fst] in H.
  apply in_flat_map in H. destruct H as (j & Hj & H). apply in_map_iff in Hj. destruct Hj as (i & <- & Hi).
  rewrite Forall_forall in IH. specialize (IH _ Hin). cbn [fst] in IH. rewrite Forall_forall in IH. exact (IH _ Hi H).
Qed.

(* after escaping, no unprotected occurrence of the character is left *)
Theorem escape_protects v : ~ In c (bare (escape c ent v)).
Proof.
  unfold bare, escape. intros H. apply in_flat_map in H. destruct H as (j & Hj & H).
  apply in_map_iff in Hj. destruct Hj as (i & <- & _). exact (bare_esc_item i H).
Qed.

(* a value without an unprotected occurrence is left as it is *)
Lemma esc_text_id s : ~ In c s -> esc_text c ent s = s.
Proof.
  unfold esc_text. induction s as [|x s IH]; cbn [flat_map]; [reflexivity|]. intros H.
  destruct (N.eqb_spec x c) as [->|Hne]; [exfalso; apply H; now left|]. cbn. f_equal. apply IH. intros Hin. apply H. now right.
Qed.

Lemma map_esc_id (l : list item) :
  Forall (fun i => ~ In c (bare_item i) -> esc_item c ent i = i) l ->
  ~ In c (flat_map bare_item l) -> map (esc_item c ent) l = l.
Proof.
  induction l as [|i l IHl]; intros HF H; [reflexivity|]. cbn [map]. inversion HF as [|? ? Hi Hl']; subst.
  cbn [flat_map] in H. f_equal.
  - apply Hi. intros Hin. apply H. apply in_or_app. now left.
  - apply IHl; [exact Hl'|]. intros Hin. apply H. apply in_or_app. now right.
Qed.

Lemma esc_item_id i : ~ In c (bare_item i) -> esc_item c ent i = i.
Proof.
  induction i as [s|s|pre ch IH] using item_ind'; cbn [esc_item bare_item]; intros H; [f_equal; now apply esc_text_id|reflexivity|].
  f_equal. induction ch as [|[l t] ch IHch]; [reflexivity|]. cbn [map fst snd].
  inversion IH as [|? ? Hl Hch]; subst. cbn [fst] in Hl. cbn [flat_map fst] in H.
  f_equal.
  - f_equal. apply map_esc_id; [exact Hl|]. intros Hin. apply H. apply in_or_app. now left.
  - apply IHch; [exact Hch|]. intros Hin. apply H. apply in_or_app. now right.
Qed.

Theorem escape_id v : ~ In c (bare v) -> escape c ent v = v.
Proof.
  unfold escape, bare. induction v as [|i v IH]; [reflexivity|]. cbn [map flat_map]. intros H. f_equal.
  - apply esc_item_id. intros Hin. apply H. apply in_or_app. now left.
  - apply IH. intros Hin. apply H. apply in_or_app. now right.
Qed.

(* protected text is never touched: closed nodes are rendered as before *)
Theorem escape_keeps_closed v : forall s, In (IClosed s) v -> In (IClosed s) (escape c ent v).
Proof. intros s H. unfold escape. apply in_map_iff. exists (IClosed s). split; [reflexivity|exact H]. Qed.
End P.

(* ---------- hidden keys: '=' ---------- *)
Section Hidden.
Variable c : cp.
Variable ent : str.
Hypothesis ent_clean : ~ In c ent.

Lemma exposed_in_str i x : In x (exposed_item i) -> In x (str_item i).
Proof.
  induction i as [s|s|pre ch IH] using item_ind'; cbn [exposed_item str_item]; [tauto|intros []|].
  intros H. apply in_app_or in H. apply in_or_app. destruct H as [H|H]; [now left|right].
  apply in_flat_map in H. destruct H as ((l & t) & Hin & H). apply in_flat_map. exists (l, t). split; [exact Hin|].
  cbn [fst snd] in *. apply in_app_or in H. apply in_or_app. destruct H as [H|H]; [left|now right].
  apply in_flat_map in H. destruct H as (j & Hj & H). apply in_flat_map. exists j. split; [exact Hj|].
  rewrite Forall_forall in IH. specialize (IH _ Hin). cbn [fst] in IH. rewrite Forall_forall in IH. exact (IH _ Hj H).
Qed.

Lemma bare_in_str i x : In x (bare_item i) -> In x (str_item i).
Proof.
  induction i as [s|s|pre ch IH] using item_ind'; cbn [bare_item str_item]; [tauto|intros []|].
  intros H. apply in_or_app. right.
  apply in_flat_map in H. destruct H as ((l & t) & Hin & H). apply in_flat_map. exists (l, t). split; [exact Hin|].
  cbn [fst snd] in *. apply in_or_app. left.
  apply in_flat_map in H. destruct H as (j & Hj & H). apply in_flat_map. exists j. split; [exact Hj|].
  rewrite Forall_forall in IH. specialize (IH _ Hin). cbn [fst] in IH. rewrite Forall_forall in IH. exact (IH _ Hj H).
Qed.

(* when no heading / external link of the value renders the character, escaping leaves it nowhere outside closed nodes:
   this is the case in which add() keeps a positional key hidden; otherwise it writes the key out *)
Theorem escape_hides_everywhere v : open_renders c v = false -> ~ In c (exposed (escape c ent v)).
Proof.
  unfold exposed, escape. intros Hno H. apply in_flat_map in H. destruct H as (j & Hj & H).
  apply in_map_iff in Hj. destruct Hj as (i & <- & Hi).
  destruct i as [s|s|pre ch].
  - cbn in H. exact (esc_text_clean c ent ent_clean s H).
  - cbn in H. exact H.
  - assert (Hc : ~ In c (str_item (IOpen pre ch))).
    { intros Hin. unfold open_renders in Hno.
      assert (existsb (fun i => match i with IOpen _ _ => existsb (N.eqb c) (str_item i) | _ => false end) v = true); [|congruence].
      apply existsb_exists. exists (IOpen pre ch). split; [exact Hi|]. apply existsb_exists. exists c. split; [exact Hin|apply N.eqb_refl]. }
    rewrite (esc_item_id c ent (IOpen pre ch)) in H.
    + exact (Hc (exposed_in_str _ _ H)).
    + intros Hb. exact (Hc (bare_in_str _ _ Hb)).
Qed.
End Hidden.
