(* Model of the parameter-list logic of Template.add / remove / has / get (nodes/template.py).
   A parameter is (stripped name, showkey, value); values are opaque.  [num n] is the positive
   integer a name denotes when Parameter.can_hide_key accepts it ([1-9][0-9]* after strip). *)
From MW Require Import PyBase.

Section T.
Variables (name value : Type).
Variable eqb : name -> name -> bool.
Variable num : name -> option nat.
Variable blank : value -> value.                 (* _blank_param_value *)
Variable unescapable : value -> bool.            (* the value holds an '=' inside an external link or a heading *)

Record param := { pn : name; shown : bool; pv : value }.

Definition has (n : name) (ps : list param) : bool := existsb (fun p => eqb n (pn p)) ps.

Definition show (p : param) : param := {| pn := pn p; shown := true; pv := pv p |}.
Definition blanked (p : param) : param := {| pn := pn p; shown := shown p; pv := blank (pv p) |}.

(* Template.remove(name, keep_field): one pass over the parameters; [flag] = an earlier removal of a
   hidden parameter has made every later hidden parameter explicit (_fix_dependendent_params) *)
Fixpoint rem (n : name) (keep flag : bool) (ps : list param) : list param :=
  match ps with
  | [] => []
  | p :: t =>
    if eqb n (pn p) then
      if keep then
        if shown p && existsb (fun q => eqb n (pn q) && negb (shown q)) t     (* _should_remove *)
        then rem n true flag t
        else blanked (if flag then show p else p) :: rem n false flag t
      else rem n false (flag || negb (shown p)) t
    else (if flag then show p else p) :: rem n keep flag t
  end.

Definition remove (n : name) (keep_field : bool) (ps : list param) : res (list param) :=
  if has n ps then Ok (rem n keep_field false ps) else Exn ValueError.

(* the smallest positive integer that is not the number of a hidden parameter *)
Definition hidden_nums (ps : list param) : list nat :=
  flat_map (fun p => if shown p then [] else match num (pn p) with Some k => [k] | None => [] end) ps.
Fixpoint first_missing (fuel k : nat) (used : list nat) : nat :=
  match fuel with
  | O => k
  | S f => if existsb (Nat.eqb k) used then first_missing f (S k) used else k
  end.
Definition expected (ps : list param) : nat :=
  let used := hidden_nums ps in first_missing (S (length used)) 1 used.

(* set the value of the LAST parameter named n (Template.get) *)
Fixpoint set_last (n : name) (v : value) (ps : list param) : list param :=
  match ps with
  | [] => []
  | p :: t => if eqb n (pn p) && negb (has n t) then
                (* a hidden key is written out when the value has an "=" that cannot be escaped; the hidden
                   parameters after it would move up one position, so their keys are written out too
                   (_fix_dependendent_params) *)
                if negb (shown p) && unescapable v then {| pn := pn p; shown := true; pv := v |} :: map show t
                else {| pn := pn p; shown := shown p; pv := v |} :: t
              else p :: set_last n v t
  end.

(* Template.add(name, value) with showkey / before / after left to the library *)
Definition add (n : name) (v : value) (ps : list param) : list param :=
  if has n ps then set_last n v (rem n true false ps)
  else
    let showkey := match num n with
                   | Some k => if Nat.eqb (expected ps) k then unescapable v else true
                   | None => true
                   end in
    ps ++ [{| pn := n; shown := showkey; pv := v |}].

Inductive op := OAdd (n : name) (v : value) | ORemove (n : name) (keep : bool).
Definition step (ps : list param) (o : op) : list param :=
  match o with
  | OAdd n v => add n v ps
  | ORemove n keep => match remove n keep ps with Ok ps' => ps' | _ => ps end
  end.
Definition run (ps : list param) (ops : list op) : list param := fold_left step ops ps.

(* hidden parameters are positional: the i-th one must be named i *)
Definition hidden_names (ps : list param) : list name := map pn (filter (fun p => negb (shown p)) ps).
Definition Hidden (ps : list param) : Prop :=
  map num (hidden_names ps) = map Some (seq 1 (length (hidden_names ps))).

End T.
