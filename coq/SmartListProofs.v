From Coq Require Import Permutation.
From MW Require Import ListAux PyBase SliceLemmas PyList SmartList.
Local Open Scope Z_scope.

(* ------------------------------------------------------------------ arithmetic of Python indices *)

Lemma adj_bounds len i : 0 <= len -> 0 <= adj len i <= len.
Proof. intros H. unfold adj. destruct (Z.ltb_spec i 0); lia. Qed.

Lemma adj_in_range len i : 0 <= i <= len -> adj len i = i.
Proof. intros H. unfold adj. destruct (Z.ltb_spec i 0); lia. Qed.

Lemma slice_indices_bounds len lo hi a b :
  0 <= len -> slice_indices len lo hi = (a, b) -> 0 <= a <= b /\ b <= len.
Proof.
  intros H. unfold slice_indices. intros [= <- <-].
  assert (Ha : 0 <= adj_opt len lo 0 <= len)
    by (destruct lo; cbn; [apply adj_bounds; lia|lia]).
  assert (Hb : 0 <= adj_opt len hi len <= len)
    by (destruct hi; cbn; [apply adj_bounds; lia|lia]).
  lia.
Qed.

Lemma slice_indices_in_range len a b :
  0 <= a <= b -> b <= len -> slice_indices len (Some a) (Some b) = (a, b).
Proof.
  intros H1 H2. unfold slice_indices. cbn [adj_opt].
  rewrite !adj_in_range by lia. f_equal. lia.
Qed.

Lemma norm_index_some len i j : norm_index len i = Some j -> 0 <= j < len /\ j = (if i <? 0 then i + len else i).
Proof.
  unfold norm_index. destruct (Z.ltb_spec i 0);
  match goal with |- context [(0 <=? ?x) && (?x <? len)] =>
    destruct (Z.leb_spec 0 x), (Z.ltb_spec x len) end; cbn; intros [= <-]; lia.
Qed.

Lemma norm_index_in_range len j : 0 <= j < len -> norm_index len j = Some j.
Proof.
  intros H. unfold norm_index. destruct (Z.ltb_spec j 0); [lia|].
  destruct (Z.leb_spec 0 j), (Z.ltb_spec j len); cbn; try lia. reflexivity.
Qed.

Lemma norm_index_alt n i :
  norm_index n i =
  (let key := if i <? 0 then n + i else i in
   if (key <? 0) || (key >=? n) then None else Some key).
Proof.
  unfold norm_index. cbn zeta. replace (i + n) with (n + i) by lia.
  destruct (Z.ltb_spec i 0);
  match goal with |- context [(0 <=? ?x) && (?x <? n)] =>
    destruct (Z.leb_spec 0 x), (Z.ltb_spec x n), (Z.ltb_spec x 0), (Z.geb_spec x n) end;
  cbn; try lia; reflexivity.
Qed.

(* ------------------------------------------------------------------ zlen / zslice / zsplice *)

Lemma zlen_nonneg {A} (l : list A) : 0 <= zlen l.
Proof. unfold zlen. lia. Qed.

Lemma zlen_app {A} (x y : list A) : zlen (x ++ y) = zlen x + zlen y.
Proof. unfold zlen. rewrite app_length. lia. Qed.

Lemma zlen_zslice {A} (l : list A) a b : 0 <= a <= b -> b <= zlen l -> zlen (zslice l a b) = b - a.
Proof. intros H1 H2. unfold zlen, zslice in *. rewrite slice_length. lia. Qed.

Lemma zlen_zsplice {A} (l : list A) a b new :
  0 <= a <= b -> b <= zlen l -> zlen (zsplice l a b new) = zlen l + zlen new - (b - a).
Proof.
  intros H1 H2. unfold zlen, zsplice, splice in *.
  rewrite !app_length, firstn_length, skipn_length. lia.
Qed.

Lemma znth_zslice {A} (l : list A) a b j :
  0 <= a <= b -> b <= zlen l -> 0 <= j < b - a -> znth (zslice l a b) j = znth l (a + j).
Proof.
  intros H1 H2 H3. unfold znth, zslice, slice, zlen in *.
  rewrite nth_error_firstn by lia.
  rewrite nth_error_skipn. f_equal. lia.
Qed.

Lemma znth_some {A} (l : list A) j : 0 <= j < zlen l -> exists v, znth l j = Some v.
Proof.
  intros H. unfold znth, zlen in *. destruct (nth_error l (Z.to_nat j)) eqn:E; [eauto|].
  apply nth_error_None in E. lia.
Qed.

Lemma zsplice_nil_id {A} (l : list A) a : 0 <= a -> zsplice l a a [] = l.
Proof. intros H. unfold zsplice, splice. cbn [app]. apply firstn_skipn. Qed.

(* ------------------------------------------------------------------ find_index *)

Lemma find_index_bounds {A} (eqb : A -> A -> bool) x l i j :
  find_index eqb x l i = Some j -> i <= j < i + zlen l.
Proof.
  revert i. induction l as [|y t IH]; intros i; cbn [find_index]; [discriminate|].
  unfold zlen in *. cbn [length]. destruct (eqb y x).
  - intros [= <-]. lia.
  - intros H. apply IH in H. lia.
Qed.

(* ------------------------------------------------------------------ stores *)

Lemma set_nth_length {B} (l : list B) n x : length (set_nth l n x) = length l.
Proof. revert n. induction l as [|y t IH]; intros [|n]; cbn; auto. Qed.

Lemma nth_set_nth_same {B} (l : list B) n x d : (n < length l)%nat -> nth n (set_nth l n x) d = x.
Proof. revert n. induction l as [|y t IH]; intros [|n] H; cbn in *; try lia; auto. apply IH. lia. Qed.

Lemma nth_set_nth_other {B} (l : list B) n m x d : n <> m -> nth m (set_nth l n x) d = nth m l d.
Proof. revert n m. induction l as [|y t IH]; intros [|n] [|m] H; cbn; auto; try lia. Qed.

Lemma set_nth_nth {B} (l : list B) n d : set_nth l n (nth n l d) = l.
Proof. revert n. induction l as [|y t IH]; intros [|n]; cbn; auto. now rewrite IH. Qed.

Section Proofs.
Context {A : Type}.
Variable eqb : A -> A -> bool.
Variable sortf : list A -> list A.
Hypothesis sortf_length : forall l, length (sortf l) = length l.

Notation sl := (@sl A).
Notation store := (@store A).

Definition view_ok (st : sl) (v : view) : Prop :=
  (v_store v < length (stores st))%nat /\
  0 <= v_start v <= V_stop st v /\ V_stop st v <= zlen (store st (v_store v)).

Definition views_inv (st : sl) : Prop := stores st <> [] /\ Forall (view_ok st) (views st).

(* the one mutation every non-reordering operation performs *)
Definition spliced (st : sl) (p : nat) (a b : Z) (new : list A) : sl :=
  set_store st p (zsplice (store st p) a b new) (shift_children (views st) p a b (zlen new)).

Lemma store_spliced_same st p a b new :
  (p < length (stores st))%nat -> store (spliced st p a b new) p = zsplice (store st p) a b new.
Proof. intros H. unfold spliced, set_store, store. cbn. now apply nth_set_nth_same. Qed.

Lemma store_spliced_other st p q a b new :
  p <> q -> store (spliced st p a b new) q = store st q.
Proof. intros H. unfold spliced, set_store, store. cbn. now apply nth_set_nth_other. Qed.

Lemma stores_spliced_length st p a b new : length (stores (spliced st p a b new)) = length (stores st).
Proof. unfold spliced, set_store. cbn. apply set_nth_length. Qed.

(* bounds of a shifted view, in Z *)
Lemma shift_bounds a b k s e len :
  0 <= a <= b -> b <= len -> 0 <= k -> 0 <= s <= e -> e <= len ->
  let diff := k - (b - a) in
  let s' := if s >? a then (if s >=? b then s + diff else a + k) else s in
  let e' := if e >=? b then e + diff else if e >? a then a + k else e in
  0 <= s' <= e' /\ e' <= len + diff.
Proof.
  intros. cbn zeta.
  destruct (Z.gtb_spec s a), (Z.geb_spec s b), (Z.geb_spec e b), (Z.gtb_spec e a); lia.
Qed.

Lemma V_stop_shift_same st p a b new v :
  (p < length (stores st))%nat -> v_store v = p ->
  0 <= a <= b -> b <= zlen (store st p) ->
  V_stop st v <= zlen (store st p) ->
  V_stop (spliced st p a b new) (shift_view a b (zlen new) v)
  = (let e := V_stop st v in let diff := zlen new - (b - a) in
     if e >=? b then e + diff else if e >? a then a + zlen new else e).
Proof.
  intros Hp Hv Hab Hb He. unfold V_stop in *. cbn [shift_view v_stop v_store].
  destruct (v_stop v) as [ce|]; [reflexivity|].
  rewrite Hv in *. rewrite store_spliced_same by assumption.
  rewrite zlen_zsplice by lia. cbn zeta.
  destruct (Z.geb_spec (zlen (store st p)) b); lia.
Qed.

Lemma view_ok_spliced st p a b new v :
  stores st <> [] -> (p < length (stores st))%nat ->
  0 <= a <= b -> b <= zlen (store st p) ->
  view_ok st v ->
  view_ok (spliced st p a b new) (if Nat.eqb (v_store v) p then shift_view a b (zlen new) v else v).
Proof.
  intros Hne Hp Hab Hb (Hst & Hse & He).
  destruct (Nat.eqb_spec (v_store v) p) as [Heq|Hneq].
  - unfold view_ok. rewrite stores_spliced_length.
    rewrite (V_stop_shift_same st p a b new v Hp Heq Hab Hb) by (rewrite <- Heq; exact He).
    cbn [shift_view v_store v_start]. rewrite Heq in *.
    rewrite store_spliced_same by assumption. rewrite zlen_zsplice by lia.
    split; [exact Hp|].
    pose proof (shift_bounds a b (zlen new) (v_start v) (V_stop st v) (zlen (store st p))
                  Hab Hb (zlen_nonneg new) Hse He) as H. cbn zeta in H. lia.
  - unfold view_ok. rewrite stores_spliced_length.
    assert (Hs : V_stop (spliced st p a b new) v = V_stop st v).
    { unfold V_stop. destruct (v_stop v); [reflexivity|].
      now rewrite store_spliced_other by congruence. }
    rewrite Hs. rewrite store_spliced_other by congruence. auto.
Qed.

Lemma inv_spliced st p a b new :
  views_inv st -> (p < length (stores st))%nat ->
  0 <= a <= b -> b <= zlen (store st p) ->
  views_inv (spliced st p a b new).
Proof.
  intros [Hne Hall] Hp Hab Hb. split.
  - intros H. apply (f_equal (@length _)) in H. rewrite stores_spliced_length in H.
    destruct (stores st); [contradiction|discriminate].
  - unfold spliced at 2, set_store. cbn [views]. unfold shift_children.
    rewrite Forall_map. eapply Forall_impl; [|exact Hall].
    intros v Hv. now apply view_ok_spliced.
Qed.

(* ------------------------------------------------------------------ SmartList methods are splices *)

Lemma shift_view_unit a v : shift_view a (a + 1) 1 v = v.
Proof.
  unfold shift_view. destruct v as [p s e]. cbn [v_start v_stop v_store]. f_equal.
  - destruct (Z.gtb_spec s a), (Z.geb_spec s (a + 1)); lia.
  - destruct e as [ce|]; [|reflexivity]. f_equal.
    destruct (Z.geb_spec ce (a + 1)), (Z.gtb_spec ce a); lia.
Qed.

Lemma shift_children_unit vs p a : shift_children vs p a (a + 1) 1 = vs.
Proof.
  unfold shift_children. induction vs as [|v t IH]; cbn [map]; [reflexivity|].
  rewrite IH. destruct (Nat.eqb (v_store v) p); [now rewrite shift_view_unit|reflexivity].
Qed.

Lemma shift_view_nil a v : shift_view a a 0 v = v.
Proof.
  unfold shift_view. destruct v as [p s e]. cbn [v_start v_stop v_store]. f_equal.
  - destruct (Z.gtb_spec s a), (Z.geb_spec s a); lia.
  - destruct e as [ce|]; [|reflexivity]. f_equal.
    destruct (Z.geb_spec ce a), (Z.gtb_spec ce a); lia.
Qed.

Lemma spliced_nil_id st p a : 0 <= a -> spliced st p a a [] = st.
Proof.
  intros H. unfold spliced, set_store. rewrite zsplice_nil_id by assumption.
  unfold store. rewrite set_nth_nth. destruct st as [ss vs]. cbn [stores views]. f_equal.
  unfold shift_children. induction vs as [|v t IH]; cbn [map]; [reflexivity|].
  rewrite IH. destruct (Nat.eqb (v_store v) p); [now rewrite shift_view_nil|reflexivity].
Qed.

Lemma P_setslice_spec st p lo hi item a b :
  slice_indices (zlen (store st p)) lo hi = (a, b) ->
  P_setslice st p lo hi item = spliced st p a b item.
Proof. intros H. unfold P_setslice. now rewrite H. Qed.

Lemma P_setslice_in_range st p a b item :
  0 <= a <= b -> b <= zlen (store st p) ->
  P_setslice st p (Some a) (Some b) item = spliced st p a b item.
Proof. intros H1 H2. apply P_setslice_spec. now apply slice_indices_in_range. Qed.

Lemma P_delslice_spec st p lo hi a b :
  slice_indices (zlen (store st p)) lo hi = (a, b) ->
  P_delslice st p lo hi = spliced st p a b [].
Proof. intros H. unfold P_delslice. now rewrite H. Qed.

Lemma P_delitem_in_range st p j :
  0 <= j < zlen (store st p) -> P_delitem st p j = Ok (spliced st p j (j + 1) []).
Proof. intros H. unfold P_delitem. now rewrite norm_index_in_range. Qed.

Lemma P_setitem_in_range st p j x :
  0 <= j < zlen (store st p) -> P_setitem st p j x = Ok (spliced st p j (j + 1) [x]).
Proof.
  intros H. unfold P_setitem. rewrite norm_index_in_range by assumption.
  unfold spliced. change (zlen [x]) with 1. now rewrite shift_children_unit.
Qed.

Lemma P_getitem_in_range st p j v :
  0 <= j < zlen (store st p) -> znth (store st p) j = Some v -> P_getitem st p j = Ok v.
Proof. intros H Hv. unfold P_getitem. rewrite norm_index_in_range by assumption. now rewrite Hv. Qed.

(* ------------------------------------------------------------------ list_splice facts *)

Definition mutates (o : @lop A) : bool :=
  match o with LGetItem _ | LIndex _ | LLen => false | _ => true end.

Lemma list_splice_bounds l o a b new r :
  list_splice eqb sortf l o = Ok (a, b, new, r) -> 0 <= a <= b /\ b <= zlen l.
Proof.
  pose proof (zlen_nonneg l) as Hl.
  destruct o; cbn [list_splice]; try (intros [= <- <- <- <-]; lia).
  - intros [= <- <- <- <-]. pose proof (adj_bounds (zlen l) i Hl). lia.
  - destruct (norm_index _ _) as [j|] eqn:E; [|discriminate].
    destruct (znth l j); [|discriminate]. intros [= <- <- <- <-].
    apply norm_index_some in E. lia.
  - destruct (find_index eqb x l 0) as [j|] eqn:E; [|discriminate]. intros [= <- <- <- <-].
    apply find_index_bounds in E. lia.
  - destruct (norm_index _ _) as [j|] eqn:E; [|discriminate].
    destruct (znth l j); [|discriminate]. intros [= <- <- <- <-]. lia.
  - destruct (norm_index _ _) as [j|] eqn:E; [|discriminate]. intros [= <- <- <- <-].
    apply norm_index_some in E. lia.
  - destruct (norm_index _ _) as [j|] eqn:E; [|discriminate]. intros [= <- <- <- <-].
    apply norm_index_some in E. lia.
  - destruct (slice_indices (zlen l) lo hi) as [a' b'] eqn:E. intros [= <- <- <- <-].
    now apply slice_indices_bounds in E.
  - destruct (slice_indices (zlen l) lo hi) as [a' b'] eqn:E. intros [= <- <- <- <-].
    now apply slice_indices_bounds in E.
  - destruct (find_index eqb x l 0); [|discriminate]. intros [= <- <- <- <-]. lia.
Qed.

(* ------------------------------------------------------------------ a view behaves like a list *)

Lemma render_valid st v :
  view_ok st v -> V_render st v = zslice (store st (v_store v)) (v_start v) (V_stop st v).
Proof.
  intros (_ & Hse & He). unfold V_render, list_getslice.
  now rewrite slice_indices_in_range by lia.
Qed.

Lemma zlen_render st v : view_ok st v -> zlen (V_render st v) = V_stop st v - v_start v.
Proof.
  intros H. rewrite render_valid by assumption. destruct H as (_ & Hse & He).
  now apply zlen_zslice.
Qed.

Lemma V_len_valid st v : view_ok st v -> V_len st v = V_stop st v - v_start v.
Proof. intros (_ & Hse & _). unfold V_len. lia. Qed.

Definition view_outcome (st : sl) (v : view) (o : @lop A) : res (sl * @rv A) :=
  match list_splice eqb sortf (V_render st v) o with
  | Ok (a, b, new, r) =>
      if mutates o then Ok (spliced st (v_store v) (v_start v + a) (v_start v + b) new, r)
      else Ok (st, r)
  | Exn e => Exn e
  | Resource => Resource
  end.

Lemma view_step_spec st v o : view_ok st v -> view_step eqb sortf st v o = view_outcome st v o.
Proof.
  intros Hok. pose proof Hok as (Hst & Hse & He).
  pose proof (zlen_render st v Hok) as HlenL.
  pose proof (V_len_valid st v Hok) as HVlen.
  pose proof (render_valid st v Hok) as Hrender.
  set (p := v_store v) in *. set (s := v_start v) in *. set (e := V_stop st v) in *.
  set (P := store st p) in *. set (L := V_render st v) in *.
  unfold view_outcome. fold L. fold p. fold s.
  destruct o; cbn [view_step list_splice mutates]; fold p; fold s; fold e; fold L.
  - (* append *) unfold ret, P_insert. rewrite P_setslice_in_range by (fold P; lia).
    rewrite HlenL. now replace (s + (e - s)) with e by lia.
  - (* extend *) unfold ret. rewrite P_setslice_in_range by (fold P; lia).
    rewrite HlenL. now replace (s + (e - s)) with e by lia.
  - (* iadd *) unfold ret. rewrite P_setslice_in_range by (fold P; lia).
    rewrite HlenL. now replace (s + (e - s)) with e by lia.
  - (* insert *) unfold ret, P_insert. rewrite HVlen, HlenL.
    assert (Hpos : s + Z.min (if i <? 0 then Z.max (e - s + i) 0 else i) (e - s) = s + adj (e - s) i).
    { unfold adj. destruct (Z.ltb_spec i 0); lia. }
    rewrite Hpos. pose proof (adj_bounds (e - s) i ltac:(lia)).
    now rewrite P_setslice_in_range by (fold P; lia).
  - (* pop *) rewrite HVlen, HlenL.
    set (idx := match i with None => e - s - 1 | Some i0 => if i0 <? 0 then e - s + i0 else i0 end).
    assert (Hnorm : norm_index (e - s) (match i with None => -1 | Some i0 => i0 end)
                    = if (idx <? 0) || (idx >=? e - s) then None else Some idx).
    { rewrite norm_index_alt. cbn zeta. unfold idx. destruct i as [i0|]; [reflexivity|].
      cbn. replace (e - s + -1) with (e - s - 1) by lia. reflexivity. }
    rewrite Hnorm. destruct ((idx <? 0) || (idx >=? e - s)) eqn:Hrange; [reflexivity|].
    apply orb_false_elim in Hrange. destruct Hrange as [H1 H2].
    apply Z.ltb_ge in H1. assert (H2' : idx < e - s) by (destruct (Z.geb_spec idx (e - s)); [discriminate|lia]).
    destruct (znth_some L idx ltac:(lia)) as [x Hx]. rewrite Hx.
    unfold P_pop. cbn [bind].
    assert (HxP : znth P (s + idx) = Some x).
    { rewrite <- Hx. subst L. rewrite Hrender. symmetry. apply znth_zslice; lia. }
    rewrite (P_getitem_in_range st p (s + idx) x) by (fold P; try lia; exact HxP).
    cbn [bind]. rewrite P_delitem_in_range by (fold P; lia). cbn [bind].
    now replace (s + idx + 1) with (s + (idx + 1)) by lia.
  - (* remove *) destruct (find_index eqb x L 0) as [j|] eqn:Hf; [|reflexivity].
    apply find_index_bounds in Hf. rewrite P_delitem_in_range by (fold P; lia). cbn [bind]. unfold ret.
    now replace (s + j + 1) with (s + (j + 1)) by lia.
  - (* getitem *) destruct (norm_index (zlen L) i) as [j|]; [|reflexivity].
    destruct (znth L j); reflexivity.
  - (* setitem *) unfold V_key. rewrite HVlen, HlenL.
    assert (Hnorm : norm_index (e - s) i =
       (let key := if i <? 0 then e - s + i else i in
        if (key <? 0) || (key >=? e - s) then None else Some key)).
    { apply norm_index_alt. }
    rewrite Hnorm. cbn zeta.
    destruct ((_ <? 0) || (_ >=? e - s)) eqn:Hrange; [reflexivity|].
    apply orb_false_elim in Hrange. destruct Hrange as [H1 H2]. apply Z.ltb_ge in H1.
    match type of H2 with (?k >=? _) = false => assert (H2' : k < e - s) by (destruct (Z.geb_spec k (e - s)); [discriminate|lia]);
      rewrite P_setitem_in_range by (fold P; lia); cbn [bind]; unfold ret;
      now replace (s + k + 1) with (s + (k + 1)) by lia end.
  - (* delitem *) unfold V_key. rewrite HVlen, HlenL.
    assert (Hnorm : norm_index (e - s) i =
       (let key := if i <? 0 then e - s + i else i in
        if (key <? 0) || (key >=? e - s) then None else Some key)).
    { apply norm_index_alt. }
    rewrite Hnorm. cbn zeta.
    destruct ((_ <? 0) || (_ >=? e - s)) eqn:Hrange; [reflexivity|].
    apply orb_false_elim in Hrange. destruct Hrange as [H1 H2]. apply Z.ltb_ge in H1.
    match type of H2 with (?k >=? _) = false => assert (H2' : k < e - s) by (destruct (Z.geb_spec k (e - s)); [discriminate|lia]);
      rewrite P_delitem_in_range by (fold P; lia); cbn [bind]; unfold ret;
      now replace (s + k + 1) with (s + (k + 1)) by lia end.
  - (* setslice *) unfold V_adjust. rewrite HVlen, HlenL. fold s. fold e.
    destruct (slice_indices (e - s) lo hi) as [ka kb] eqn:Hk.
    apply slice_indices_bounds in Hk; [|lia].
    rewrite !Z.min_l by lia. unfold ret.
    now rewrite P_setslice_in_range by (fold P; lia).
  - (* delslice *) unfold V_adjust. rewrite HVlen, HlenL. fold s. fold e.
    destruct (slice_indices (e - s) lo hi) as [ka kb] eqn:Hk.
    apply slice_indices_bounds in Hk; [|lia].
    rewrite !Z.min_l by lia. unfold ret.
    now rewrite (P_delslice_spec st p (Some (s + ka)) (Some (s + kb)) (s + ka) (s + kb))
      by (apply slice_indices_in_range; fold P; lia).
  - (* reverse *) unfold ret. rewrite P_setslice_in_range by (fold P; lia).
    rewrite HlenL, Z.add_0_r. now replace (s + (e - s)) with e by lia.
  - (* sort *) unfold ret. rewrite P_setslice_in_range by (fold P; lia).
    rewrite HlenL, Z.add_0_r. now replace (s + (e - s)) with e by lia.
  - (* index *) destruct (find_index eqb x L 0); reflexivity.
  - (* len *) now rewrite HVlen, HlenL.
Qed.

(* ------------------------------------------------------------------ the parent behaves like a list *)

Lemma slice_indices_same len i :
  0 <= len -> slice_indices len (Some i) (Some i) = (adj len i, adj len i).
Proof. intros H. unfold slice_indices. cbn [adj_opt]. f_equal. lia. Qed.

Lemma norm_index_last len : norm_index len (len - 1) = norm_index len (-1).
Proof.
  rewrite !norm_index_alt. cbn zeta.
  destruct (Z.ltb_spec (len - 1) 0), (Z.ltb_spec (-1) 0); try lia.
  - replace (len + (len - 1)) with (2 * len - 1) by lia.
    destruct (Z.ltb_spec (2 * len - 1) 0), (Z.geb_spec (2 * len - 1) len),
      (Z.ltb_spec (len + -1) 0), (Z.geb_spec (len + -1) len); cbn; try lia; reflexivity.
  - replace (len + -1) with (len - 1) by lia. reflexivity.
Qed.

Definition parent_outcome (st : sl) (p : nat) (o : @lop A) : res (sl * @rv A) :=
  match o with
  | LReverse => Ok (P_reorder st p (@rev A), RNone)
  | LSort => Ok (P_reorder st p sortf, RNone)
  | _ =>
    match list_splice eqb sortf (store st p) o with
    | Ok (a, b, new, r) => if mutates o then Ok (spliced st p a b new, r) else Ok (st, r)
    | Exn e => Exn e
    | Resource => Resource
    end
  end.

Lemma parent_step_spec st p o : parent_step eqb sortf st p o = parent_outcome st p o.
Proof.
  pose proof (zlen_nonneg (store st p)) as Hlen.
  destruct o; cbn [parent_step parent_outcome list_splice mutates]; unfold ret.
  - unfold P_extend. now rewrite P_setslice_in_range by lia.
  - unfold P_extend. now rewrite P_setslice_in_range by lia.
  - unfold P_extend. now rewrite P_setslice_in_range by lia.
  - unfold P_insert. now rewrite (P_setslice_spec _ _ _ _ _ _ _ (slice_indices_same _ i Hlen)).
  - unfold P_pop.
    set (index := match i with None => zlen (store st p) - 1 | Some i0 => i0 end).
    assert (Hn : norm_index (zlen (store st p)) (match i with None => -1 | Some i0 => i0 end)
                 = norm_index (zlen (store st p)) index)
      by (subst index; destruct i; [reflexivity|symmetry; apply norm_index_last]).
    rewrite Hn. unfold P_getitem, P_delitem.
    destruct (norm_index (zlen (store st p)) index) as [j|]; [|reflexivity].
    destruct (znth (store st p) j); reflexivity.
  - unfold P_remove. destruct (find_index eqb x (store st p) 0) as [j|] eqn:Hf; [|reflexivity].
    apply find_index_bounds in Hf. now rewrite P_delitem_in_range by lia.
  - unfold P_getitem. destruct (norm_index _ _) as [j|]; [|reflexivity].
    destruct (znth (store st p) j); reflexivity.
  - unfold P_setitem. destruct (norm_index _ _) as [j|]; [|reflexivity]. cbn [bind].
    unfold spliced. change (zlen [x]) with 1. now rewrite shift_children_unit.
  - unfold P_delitem. destruct (norm_index _ _) as [j|]; reflexivity.
  - destruct (slice_indices _ lo hi) as [a b] eqn:E. now rewrite (P_setslice_spec _ _ _ _ _ _ _ E).
  - destruct (slice_indices _ lo hi) as [a b] eqn:E. now rewrite (P_delslice_spec _ _ _ _ _ _ E).
  - reflexivity.
  - reflexivity.
  - destruct (find_index eqb x (store st p) 0); reflexivity.
  - reflexivity.
Qed.

(* ------------------------------------------------------------------ detaching *)

Lemma detach_spec vs p (P : list A) : forall next vs' ns,
  detach vs p P next = (vs', ns) ->
  Forall (fun x => x = P) ns /\
  Forall2 (fun v v' => v_start v' = v_start v /\ v_stop v' = v_stop v /\
             ((v_store v <> p /\ v_store v' = v_store v) \/
              (v_store v = p /\ (next <= v_store v' < next + length ns)%nat))) vs vs'.
Proof.
  induction vs as [|v t IH]; intros next vs' ns; cbn [detach].
  - intros [= <- <-]. split; constructor.
  - destruct (Nat.eqb_spec (v_store v) p) as [Heq|Hneq].
    + destruct (detach t p P (S next)) as [t' ns'] eqn:E. intros [= <- <-].
      destruct (IH _ _ _ E) as [H1 H2]. split; [constructor; auto|].
      constructor.
      * cbn. repeat split; auto. right. split; [exact Heq|]. cbn [length]. lia.
      * eapply Forall2_impl; [|exact H2]. cbn. intros a b (Ha & Hb & [Hc|[Hc Hd]]); repeat split; auto.
        right. split; [exact Hc|]. cbn [length]. lia.
    + destruct (detach t p P next) as [t' ns'] eqn:E. intros [= <- <-].
      destruct (IH _ _ _ E) as [H1 H2]. split; [exact H1|].
      constructor; [|exact H2]. repeat split; auto.
Qed.

(* ------------------------------------------------------------------ invariant preservation *)

Lemma nth_app_ge {B} (l l' : list B) n d : (length l <= n)%nat -> nth n (l ++ l') d = nth (n - length l) l' d.
Proof. intros H. now apply app_nth2. Qed.

Lemma inv_reorder st p (f : list A -> list A) :
  (forall l, length (f l) = length l) ->
  views_inv st -> (p < length (stores st))%nat -> views_inv (P_reorder st p f).
Proof.
  intros Hf [Hne Hall] Hp. unfold P_reorder.
  destruct (detach (views st) p (store st p) (length (stores st))) as [vs ns] eqn:E.
  destruct (detach_spec _ _ _ _ _ _ E) as [Hns Hvs].
  split.
  - cbn [stores]. intros H. apply (f_equal (@length _)) in H.
    rewrite set_nth_length, app_length in H. destruct (stores st); [contradiction|discriminate].
  - cbn [views]. apply Forall_forall. intros v' Hin.
    apply In_nth_error in Hin. destruct Hin as [k Hk].
    (* find the original view *)
    assert (Hlen : length (views st) = length vs) by (eapply Forall2_length; eauto).
    destruct (nth_error (views st) k) as [v|] eqn:Ev.
    2:{ apply nth_error_None in Ev. assert (nth_error vs k <> None) by congruence.
        apply nth_error_Some in H. lia. }
    destruct (Forall2_nth_error _ _ _ _ _ Hvs Ev) as (v'' & Hk' & Hs & He & Hcase).
    rewrite Hk in Hk'. injection Hk' as <-.
    rewrite Forall_forall in Hall. specialize (Hall v (nth_error_In _ _ Ev)).
    destruct Hall as (Hst & Hse & Hle).
    unfold view_ok. cbn [stores]. rewrite set_nth_length, app_length.
    destruct Hcase as [[Hneq Heq]|[Heq Hrange]].
    + (* untouched view of another store *)
      assert (Hstore : store {| stores := set_nth (stores st ++ ns) p (f (store st p)); views := vs |} (v_store v')
                       = store st (v_store v)).
      { unfold store. cbn [stores]. rewrite Heq. rewrite nth_set_nth_other by congruence.
        now rewrite app_nth1 by assumption. }
      assert (Hstop : V_stop {| stores := set_nth (stores st ++ ns) p (f (store st p)); views := vs |} v' = V_stop st v).
      { unfold V_stop. rewrite He. destruct (v_stop v); [reflexivity|]. now rewrite Hstore. }
      rewrite Hstop, Hstore, Hs, Heq. split; [lia|]. auto.
    + (* detached view: its new store is a copy of the old parent *)
      assert (Hstore : store {| stores := set_nth (stores st ++ ns) p (f (store st p)); views := vs |} (v_store v')
                       = store st p).
      { unfold store at 1. cbn [stores]. rewrite nth_set_nth_other by lia.
        rewrite nth_app_ge by lia.
        rewrite Forall_forall in Hns. apply Hns. apply nth_In. lia. }
      assert (Hstop : V_stop {| stores := set_nth (stores st ++ ns) p (f (store st p)); views := vs |} v' = V_stop st v).
      { unfold V_stop. rewrite He. destruct (v_stop v); [reflexivity|]. now rewrite Hstore, Heq. }
      rewrite Hstop, Hstore, Hs. rewrite Heq in Hle. split; [lia|]. auto.
Qed.

Lemma inv_getslice st p lo hi :
  views_inv st -> (p < length (stores st))%nat -> views_inv (fst (P_getslice st p lo hi)).
Proof.
  intros [Hne Hall] Hp. unfold P_getslice.
  destruct (slice_indices (zlen (store st p)) lo hi) as [a b] eqn:E.
  apply slice_indices_bounds in E; [|apply zlen_nonneg].
  cbn [fst]. split; [exact Hne|]. cbn [views]. apply Forall_app. split.
  - eapply Forall_impl; [|exact Hall]. intros v Hv. exact Hv.
  - constructor; [|constructor]. unfold view_ok, V_stop. cbn [v_store v_start v_stop stores].
    split; [exact Hp|]. change (store {| stores := stores st; views := views st ++ _ |} p) with (store st p).
    destruct hi; lia.
Qed.

Lemma view_ok_of_inv st k v : views_inv st -> nth_error (views st) k = Some v -> view_ok st v.
Proof. intros [_ H] Hk. rewrite Forall_forall in H. apply H. eapply nth_error_In; eauto. Qed.

Lemma store0_exists st : views_inv st -> (0 < length (stores st))%nat.
Proof. intros [H _]. destruct (stores st); [contradiction|cbn; lia]. Qed.

Lemma inv_view_outcome st v o st' r :
  views_inv st -> view_ok st v -> view_outcome st v o = Ok (st', r) -> views_inv st'.
Proof.
  intros Hinv Hok. unfold view_outcome.
  destruct (list_splice eqb sortf (V_render st v) o) as [[[[a b] new] r']| |] eqn:E; try discriminate.
  apply list_splice_bounds in E. rewrite zlen_render in E by assumption.
  destruct Hok as (Hst & Hse & He).
  destruct (mutates o); intros [= <- <-]; [|exact Hinv].
  apply inv_spliced; auto; lia.
Qed.

Lemma inv_parent_outcome st p o st' r :
  views_inv st -> (p < length (stores st))%nat -> parent_outcome st p o = Ok (st', r) -> views_inv st'.
Proof.
  intros Hinv Hp. unfold parent_outcome.
  assert (Hgen : match list_splice eqb sortf (store st p) o with
    | Ok (a, b, new, r0) => if mutates o then Ok (spliced st p a b new, r0) else Ok (st, r0)
    | Exn e => Exn e | Resource => Resource end = Ok (st', r) -> views_inv st').
  { destruct (list_splice eqb sortf (store st p) o) as [[[[a b] new] r']| |] eqn:E; try discriminate.
    apply list_splice_bounds in E.
    destruct (mutates o); intros [= <- <-]; [|exact Hinv]. apply inv_spliced; auto; lia. }
  destruct o; try exact Hgen; intros [= <- <-]; apply inv_reorder; auto using rev_length.
Qed.

Theorem inv_step st a : views_inv st -> views_inv (act_step eqb sortf st a).
Proof.
  intros Hinv. destruct a as [t o|t lo hi]; cbn [act_step].
  - destruct (sl_step eqb sortf st t o) as [[st' r]| |] eqn:E; try exact Hinv.
    destruct t as [|k]; cbn [sl_step] in E.
    + rewrite parent_step_spec in E. eapply inv_parent_outcome; eauto. now apply store0_exists.
    + destruct (nth_error (views st) k) as [v|] eqn:Ev; [|discriminate].
      pose proof (view_ok_of_inv _ _ _ Hinv Ev) as Hok.
      rewrite view_step_spec in E by assumption. eapply inv_view_outcome; eauto.
  - destruct (sl_getslice st t lo hi) as [[st' k]| |] eqn:E; try exact Hinv.
    destruct t as [|j]; cbn [sl_getslice] in E.
    + assert (E' : P_getslice st 0%nat lo hi = (st', k)) by congruence.
      pose proof (inv_getslice st 0%nat lo hi Hinv (store0_exists _ Hinv)) as Hg.
      now rewrite E' in Hg.
    + destruct (nth_error (views st) j) as [v|] eqn:Ev; [|discriminate].
      pose proof (view_ok_of_inv _ _ _ Hinv Ev) as (Hst & _).
      destruct (V_adjust st v lo hi) as [a b].
      assert (E' : P_getslice st (v_store v) (Some a) (Some b) = (st', k)) by congruence.
      pose proof (inv_getslice st (v_store v) (Some a) (Some b) Hinv Hst) as Hg.
      now rewrite E' in Hg.
Qed.

Theorem inv_reachable items acts : views_inv (run eqb sortf (init items) acts).
Proof.
  unfold run. assert (H0 : views_inv (init items)) by (split; [discriminate|constructor]).
  revert H0. generalize (init items). induction acts as [|a t IH]; intros st Hst; cbn [fold_left];
    [exact Hst|]. apply IH. now apply inv_step.
Qed.

(* reading a valid view never raises and yields its rendering *)
Lemma read_valid st v : view_ok st v -> V_read st v = Ok (V_render st v).
Proof.
  intros Hok. rewrite render_valid by assumption. destruct Hok as (_ & Hse & He).
  unfold V_read. destruct (Z.leb_spec (V_stop st v) (v_start v)).
  - assert (V_stop st v = v_start v) as -> by lia. unfold zslice. now rewrite slice_nil_ge by lia.
  - destruct (Z.leb_spec 0 (v_start v)), (Z.leb_spec (V_stop st v) (zlen (store st (v_store v))));
      cbn; try lia. reflexivity.
Qed.

(* ------------------------------------------------------------------ T1: a view is a list; the parent reflects the edit *)

Lemma splice_inside (X M Y new : list A) a b :
  (a <= b)%nat -> (b <= length M)%nat ->
  splice (X ++ M ++ Y) (length X + a) (length X + b) new = X ++ splice M a b new ++ Y.
Proof.
  intros Hab Hb. unfold splice.
  rewrite firstn_app_2. rewrite firstn_app. replace (a - length M)%nat with 0%nat by lia.
  cbn [firstn]. rewrite app_nil_r.
  rewrite skipn_app. rewrite (skipn_all2 X) by lia. cbn [app].
  replace (length X + b - length X)%nat with b by lia.
  rewrite skipn_app. replace (b - length M)%nat with 0%nat by lia. cbn [skipn].
  now rewrite <- !app_assoc.
Qed.

Lemma slice_middle (X M Y : list A) : slice (X ++ M ++ Y) (length X) (length X + length M) = M.
Proof.
  rewrite slice_app. rewrite (slice_nil_past X) by lia. cbn [app].
  rewrite slice_app. replace (length X - length X)%nat with 0%nat by lia.
  replace (length X + length M - length X)%nat with (length M) by lia.
  rewrite slice_all by lia. rewrite (slice_nil_ge Y) by lia. apply app_nil_r.
Qed.

Lemma nth_error_shift_children vs p a b k j w :
  nth_error vs j = Some w ->
  nth_error (shift_children vs p a b k) j = Some (if Nat.eqb (v_store w) p then shift_view a b k w else w).
Proof. intros H. unfold shift_children. now rewrite (map_nth_error _ _ _ H). Qed.

Lemma spliced_self st v a' b' new :
  stores st <> [] -> view_ok st v ->
  0 <= a' <= b' -> b' <= V_stop st v - v_start v ->
  let p := v_store v in let s := v_start v in let e := V_stop st v in
  let P := store st p in let L := V_render st v in
  let st' := spliced st p (s + a') (s + b') new in
  let v' := shift_view (s + a') (s + b') (zlen new) v in
  view_ok st' v' /\ v_store v' = p /\
  store st' p = firstn (Z.to_nat s) P ++ zsplice L a' b' new ++ skipn (Z.to_nat e) P /\
  V_render st' v' = zsplice L a' b' new /\ v_start v' = s.
Proof.
  intros Hne Hok Hab Hb. cbn zeta. pose proof Hok as (Hst & Hse & He).
  set (p := v_store v) in *. set (s := v_start v) in *. set (e := V_stop st v) in *.
  set (P := store st p) in *.
  assert (Hok' : view_ok (spliced st p (s + a') (s + b') new) (shift_view (s + a') (s + b') (zlen new) v)).
  { pose proof (view_ok_spliced st p (s + a') (s + b') new v Hne Hst ltac:(lia) ltac:(fold P; lia) Hok) as H.
    fold p in H. now rewrite Nat.eqb_refl in H. }
  split; [exact Hok'|]. split; [reflexivity|].
  (* decompose the parent around the view *)
  unfold zlen in He. fold P in He.
  destruct (splice_decomp P (Z.to_nat s) (Z.to_nat e) [] ltac:(lia) ltac:(lia)) as (HP & _ & HlenX & HlenM).
  assert (HL : V_render st v = slice P (Z.to_nat s) (Z.to_nat e)) by (rewrite render_valid by assumption; reflexivity).
  set (X := firstn (Z.to_nat s) P) in *. set (M := slice P (Z.to_nat s) (Z.to_nat e)) in *.
  set (Y := skipn (Z.to_nat e) P) in *.
  assert (Hstore : store (spliced st p (s + a') (s + b') new) p = X ++ zsplice M a' b' new ++ Y).
  { rewrite store_spliced_same by assumption. fold P. unfold zsplice.
    rewrite HP at 1.
    replace (Z.to_nat (s + a')) with (length X + Z.to_nat a')%nat by lia.
    replace (Z.to_nat (s + b')) with (length X + Z.to_nat b')%nat by lia.
    apply splice_inside; lia. }
  split; [now rewrite HL|].
  (* the bounds of the shifted view *)
  assert (Hs' : v_start (shift_view (s + a') (s + b') (zlen new) v) = s).
  { cbn [shift_view v_start]. fold s. destruct (Z.gtb_spec s (s + a')); [lia|reflexivity]. }
  split; [|exact Hs'].
  rewrite render_valid by exact Hok'. cbn [shift_view v_store]. fold p. rewrite Hstore.
  rewrite HL.
  assert (He' : V_stop (spliced st p (s + a') (s + b') new) (shift_view (s + a') (s + b') (zlen new) v)
                = e + (zlen new - (b' - a'))).
  { rewrite (V_stop_shift_same st p (s + a') (s + b') new v Hst eq_refl) by (fold P; unfold zlen; lia).
    cbn zeta. fold e. destruct (Z.geb_spec e (s + b')); lia. }
  rewrite Hs', He'. unfold zslice.
  assert (HlenM' : length (zsplice M a' b' new) = Z.to_nat (e + (zlen new - (b' - a')) - s)).
  { unfold zsplice, splice. rewrite !app_length, firstn_length, skipn_length. unfold zlen. lia. }
  replace (Z.to_nat s) with (length X) by lia.
  replace (Z.to_nat (e + (zlen new - (b' - a')))) with (length X + length (zsplice M a' b' new))%nat
    by (rewrite HlenM'; unfold zlen; lia).
  apply slice_middle.
Qed.

Theorem proxy_op_is_list_op_lemma st k v o :
  views_inv st -> nth_error (views st) k = Some v ->
  match list_step eqb sortf (V_render st v) o with
  | Exn e => sl_step eqb sortf st (View k) o = Exn e
  | Resource => False
  | Ok (L', r) =>
      exists st', sl_step eqb sortf st (View k) o = Ok (st', r) /\
        (exists v', nth_error (views st') k = Some v' /\ v_store v' = v_store v /\
                    v_start v' = v_start v /\ V_read st' v' = Ok L') /\
        store st' (v_store v)
          = firstn (Z.to_nat (v_start v)) (store st (v_store v)) ++ L'
            ++ skipn (Z.to_nat (V_stop st v)) (store st (v_store v))
  end.
Proof.
  intros Hinv Hk. pose proof (view_ok_of_inv _ _ _ Hinv Hk) as Hok.
  cbn [sl_step]. rewrite Hk. rewrite view_step_spec by assumption.
  unfold list_step, view_outcome.
  destruct (list_splice eqb sortf (V_render st v) o) as [[[[a b] new] r]| |] eqn:E;
    [|reflexivity|].
  2:{ destruct o; cbn in E; repeat match type of E with
        | context [match ?x with _ => _ end] => destruct x end; discriminate. }
  pose proof (list_splice_bounds _ _ _ _ _ _ E) as Hb. rewrite zlen_render in Hb by assumption.
  destruct Hinv as [Hne Hall].
  destruct (spliced_self st v a b new Hne Hok ltac:(lia) ltac:(lia)) as (Hok' & Hp' & Hstore & Hrender & Hstart).
  destruct (mutates o) eqn:Hm.
  - eexists. split; [reflexivity|]. split.
    + eexists. split.
      * unfold spliced at 1, set_store. cbn [views].
        rewrite (nth_error_shift_children _ _ _ _ _ _ _ Hk). now rewrite Nat.eqb_refl.
      * split; [reflexivity|]. split; [exact Hstart|]. rewrite read_valid by exact Hok'. now rewrite Hrender.
    + exact Hstore.
  - (* non-mutating: the splice is the empty one *)
    assert (Hnil : a = 0 /\ b = 0 /\ new = []).
    { destruct o; try discriminate; cbn in E;
      repeat match type of E with context [match ?x with _ => _ end] => destruct x end;
      try discriminate; injection E as <- <- <- <-; auto. }
    destruct Hnil as (-> & -> & ->).
    assert (Hid : zsplice (V_render st v) 0 0 [] = V_render st v) by (apply zsplice_nil_id; lia).
    rewrite Hid in *. exists st. split; [reflexivity|]. split.
    + exists v. split; [exact Hk|]. split; [reflexivity|]. split; [reflexivity|]. now apply read_valid.
    + rewrite render_valid by assumption. destruct Hok as (Hst & Hse & He).
      unfold zslice. unfold zlen in He.
      destruct (splice_decomp (store st (v_store v)) (Z.to_nat (v_start v)) (Z.to_nat (V_stop st v)) []
                  ltac:(lia) ltac:(lia)) as (HP & _). exact HP.
Qed.

(* ------------------------------------------------------------------ T2: every other view keeps its survivors *)

Lemma shift_start_nat s a b k :
  0 <= a <= b -> 0 <= s -> 0 <= k ->
  Z.to_nat (if s >? a then (if s >=? b then s + (k - (b - a)) else a + k) else s)
  = f_start (Z.to_nat s) (Z.to_nat a) (Z.to_nat b) (Z.to_nat k).
Proof.
  intros. unfold f_start.
  destruct (Z.gtb_spec s a), (Z.geb_spec s b), (Nat.ltb_spec (Z.to_nat a) (Z.to_nat s)),
    (Nat.leb_spec (Z.to_nat b) (Z.to_nat s)); lia.
Qed.

Lemma shift_stop_nat e a b k :
  0 <= a <= b -> 0 <= e -> 0 <= k ->
  Z.to_nat (if e >=? b then e + (k - (b - a)) else if e >? a then a + k else e)
  = f_stop (Z.to_nat e) (Z.to_nat a) (Z.to_nat b) (Z.to_nat k).
Proof.
  intros. unfold f_stop.
  destruct (Z.geb_spec e b), (Z.gtb_spec e a), (Nat.leb_spec (Z.to_nat b) (Z.to_nat e)),
    (Nat.ltb_spec (Z.to_nat a) (Z.to_nat e)); lia.
Qed.

(* what a splice of store p does to any valid view w *)
Lemma spliced_other st p a b new w :
  stores st <> [] -> (p < length (stores st))%nat ->
  0 <= a <= b -> b <= zlen (store st p) -> view_ok st w ->
  let st' := spliced st p a b new in
  let w' := if Nat.eqb (v_store w) p then shift_view a b (zlen new) w else w in
  view_ok st' w' /\
  exists pre del post ins,
    V_render st w = pre ++ del ++ post /\
    V_render st' w' = pre ++ ins ++ post /\
    (ins = [] \/ ins = new) /\
    (exists u x, zslice (store st p) a b = u ++ del ++ x).
Proof.
  intros Hne Hp Hab Hb Hok. cbn zeta.
  pose proof (view_ok_spliced st p a b new w Hne Hp Hab Hb Hok) as Hok'.
  split; [exact Hok'|].
  destruct (Nat.eqb_spec (v_store w) p) as [Heq|Hneq].
  - pose proof Hok as (Hst & Hse & He). rewrite Heq in He.
    rewrite (render_valid _ _ Hok), (render_valid _ _ Hok').
    cbn [shift_view v_store]. rewrite Heq. rewrite store_spliced_same by assumption.
    assert (Hs' : Z.to_nat (v_start (shift_view a b (zlen new) w))
                  = f_start (Z.to_nat (v_start w)) (Z.to_nat a) (Z.to_nat b) (length new)).
    { cbn [shift_view v_start]. rewrite shift_start_nat by (try lia; apply zlen_nonneg).
      unfold zlen. now rewrite Nat2Z.id. }
    assert (He' : Z.to_nat (V_stop (spliced st p a b new) (shift_view a b (zlen new) w))
                  = f_stop (Z.to_nat (V_stop st w)) (Z.to_nat a) (Z.to_nat b) (length new)).
    { rewrite (V_stop_shift_same st p a b new w Hp Heq Hab Hb He). cbn zeta.
      rewrite shift_stop_nat by (try lia; apply zlen_nonneg). unfold zlen. now rewrite Nat2Z.id. }
    unfold zslice, zsplice. rewrite Hs', He'. unfold zlen in *.
    destruct (view_after_splice (store st p) (Z.to_nat a) (Z.to_nat b) new
                (Z.to_nat (v_start w)) (Z.to_nat (V_stop st w))
                ltac:(lia) ltac:(lia) ltac:(lia) ltac:(lia))
      as (_ & _ & pre & del & post & ins & H1 & H2 & H3 & H4 & _).
    exists pre, del, post, ins. auto.
  - (* a view of another store is untouched *)
    exists (V_render st w), [], [], []. rewrite !app_nil_r.
    split; [reflexivity|]. split.
    + unfold V_render, V_stop. rewrite !store_spliced_other by congruence. reflexivity.
    + split; [now left|]. exists [], (zslice (store st p) a b). reflexivity.
Qed.

Definition target_list (st : sl) (t : target) : list A :=
  match t with
  | Parent => store st 0%nat
  | View k => match nth_error (views st) k with Some v => V_render st v | None => [] end
  end.

Theorem others_keep_survivors_lemma st t o st' r j w :
  views_inv st -> sl_step eqb sortf st t o = Ok (st', r) -> t <> View j ->
  nth_error (views st) j = Some w ->
  (t = Parent -> reorders o = false) ->
  exists w', nth_error (views st') j = Some w' /\ view_ok st' w' /\
    exists pre del post ins,
      V_render st w = pre ++ del ++ post /\
      V_render st' w' = pre ++ ins ++ post /\
      (ins = [] \/ exists a b new r', list_splice eqb sortf (target_list st t) o = Ok (a, b, new, r') /\ ins = new).
Proof.
  intros Hinv Hstep Ht Hj Hre. pose proof (view_ok_of_inv _ _ _ Hinv Hj) as Hokw.
  pose proof Hinv as [Hne _].
  (* both targets reduce to: st' = st, or st' = spliced st p a b new with the op's own splice *)
  assert (Hcases : st' = st \/ exists p a b new r',
            list_splice eqb sortf (target_list st t) o = Ok (a, b, new, r') /\
            exists a0 b0, st' = spliced st p a0 b0 new /\ (p < length (stores st))%nat /\
                          0 <= a0 <= b0 /\ b0 <= zlen (store st p)).
  { destruct t as [|k]; cbn [sl_step target_list] in *.
    - rewrite parent_step_spec in Hstep. specialize (Hre eq_refl).
      unfold parent_outcome in Hstep.
      destruct o; try discriminate Hre;
      destruct (list_splice eqb sortf (store st 0%nat) _) as [[[[a b] new] r']| |] eqn:E; try discriminate;
      pose proof (list_splice_bounds _ _ _ _ _ _ E) as Hb;
      (destruct (mutates _); injection Hstep as <- <-; [right|now left]);
      exists 0%nat, a, b, new, r'; (split; [reflexivity|]); exists a, b;
      (split; [reflexivity|]); (split; [now apply store0_exists|]); lia.
    - destruct (nth_error (views st) k) as [v|] eqn:Ev; [|discriminate].
      pose proof (view_ok_of_inv _ _ _ Hinv Ev) as Hokv.
      rewrite view_step_spec in Hstep by assumption. unfold view_outcome in Hstep.
      destruct (list_splice eqb sortf (V_render st v) o) as [[[[a b] new] r']| |] eqn:E; try discriminate.
      pose proof (list_splice_bounds _ _ _ _ _ _ E) as Hb. rewrite zlen_render in Hb by assumption.
      destruct Hokv as (Hst & Hse & He).
      destruct (mutates o); injection Hstep as <- <-; [right|now left].
      exists (v_store v), a, b, new, r'. split; [reflexivity|].
      exists (v_start v + a), (v_start v + b). split; [reflexivity|]. split; [exact Hst|]. lia. }
  destruct Hcases as [Heq|(p & a & b & new & r' & Hsp & a0 & b0 & Heq & Hp & Hab & Hb)]; subst st'.
  - exists w. split; [exact Hj|]. split; [exact Hokw|].
    exists (V_render st w), [], [], []. rewrite !app_nil_r. auto.
  - destruct (spliced_other st p a0 b0 new w Hne Hp Hab Hb Hokw) as (Hok' & pre & del & post & ins & H1 & H2 & H3 & _).
    eexists. split.
    + unfold spliced at 1, set_store. cbn [views]. apply nth_error_shift_children. exact Hj.
    + split; [exact Hok'|]. exists pre, del, post, ins. split; [exact H1|]. split; [exact H2|].
      destruct H3 as [-> | ->]; [now left|right]. exists a, b, new, r'. auto.
Qed.

(* reverse()/sort() on the parent: every view is detached with all its elements *)
Theorem detached_keep_all_lemma st o st' r j w :
  views_inv st -> sl_step eqb sortf st Parent o = Ok (st', r) -> reorders o = true ->
  nth_error (views st) j = Some w ->
  exists w', nth_error (views st') j = Some w' /\ view_ok st' w' /\ V_render st' w' = V_render st w.
Proof.
  intros Hinv Hstep Hre Hj. cbn [sl_step] in Hstep. rewrite parent_step_spec in Hstep.
  pose proof (store0_exists _ Hinv) as Hp0.
  assert (Hex : exists f, (forall l, length (f l) = length l) /\ st' = P_reorder st 0%nat f).
  { destruct o; try discriminate Hre; cbn [parent_outcome] in Hstep; injection Hstep as <- <-.
    - exists (@rev A). split; [apply rev_length|reflexivity].
    - exists sortf. split; [exact sortf_length|reflexivity]. }
  destruct Hex as (f & Hf & ->).
  pose proof (inv_reorder st 0%nat f Hf Hinv Hp0) as Hinv'.
  pose proof (view_ok_of_inv _ _ _ Hinv Hj) as Hokw.
  unfold P_reorder in *.
  destruct (detach (views st) 0%nat (store st 0%nat) (length (stores st))) as [vs ns] eqn:E.
  destruct (detach_spec _ _ _ _ _ _ E) as [Hns Hvs].
  destruct (Forall2_nth_error _ _ _ _ _ Hvs Hj) as (w' & Hk' & Hs & He & Hcase).
  exists w'. cbn [views]. split; [exact Hk'|].
  split; [eapply view_ok_of_inv; [exact Hinv'|exact Hk']|].
  destruct Hokw as (Hst & Hse & Hle).
  assert (Hstore : store {| stores := set_nth (stores st ++ ns) 0%nat (f (store st 0%nat)); views := vs |} (v_store w')
                   = store st (v_store w)).
  { destruct Hcase as [[Hneq Heq]|[Heq Hrange]].
    - unfold store. cbn [stores]. rewrite Heq. rewrite nth_set_nth_other by congruence.
      now rewrite app_nth1 by assumption.
    - unfold store at 1. cbn [stores]. rewrite nth_set_nth_other by lia.
      rewrite nth_app_ge by lia. rewrite Heq.
      rewrite Forall_forall in Hns. apply Hns. apply nth_In. lia. }
  unfold V_render, V_stop. rewrite He, Hs, Hstore. reflexivity.
Qed.

End Proofs.
