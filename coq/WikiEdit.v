(* Model of the list-level part of the Wikicode editing API (wikicode.py: insert, append,
   set, remove, replace, insert_before, insert_after) for targets that are top-level nodes
   of the edited object or the object itself (a section view): each call is a finite sequence
   of list operations on the node list (a SmartList or one of its views).
   Elements are node identities; the value to insert is the list of fresh nodes that
   parse_anything returned.  Executable definitions only. *)
From MW Require Import PyBase PyList SmartList.
Local Open Scope Z_scope.

Section WE.
Context {A : Type}.
Variable eqb : A -> A -> bool.           (* identity of nodes *)
Variable sortf : list A -> list A.       (* unused by the editing API; needed by sl_step *)

Inductive wop :=
| WInsert (i : Z) (ns : list A)          (* code.insert(i, value) *)
| WAppend (ns : list A)                  (* code.append(value) *)
| WSet (i : Z) (ns : list A)             (* code.set(i, value) *)
| WRemoveNode (x : A)                    (* code.remove(node), node found in code.nodes *)
| WReplaceNode (x : A) (ns : list A)
| WBeforeNode (x : A) (ns : list A)      (* insert_before *)
| WAfterNode (x : A) (ns : list A)       (* insert_after *)
| WRemoveSelf                            (* page.remove(view): strong search returns (view, slice(0, len)) *)
| WReplaceSelf (ns : list A)
| WBeforeSelf (ns : list A)
| WAfterSelf (ns : list A)
| WSlice (lo hi : option Z) (ns : list A).  (* code.nodes[lo:hi] = ns: what a multi-node string target or a direct slice assignment does *)

(* Wikicode.insert: the index is resolved once (as list.insert would), then
   for offset, node in enumerate(nodes): self.nodes.insert(index + offset, node) *)
Fixpoint ins_at (idx : Z) (ns : list A) : list (@lop A) :=
  match ns with [] => [] | n :: t => LInsert idx n :: ins_at (idx + 1) t end.
Definition ins_ops (len i : Z) (ns : list A) : list (@lop A) := ins_at (adj len i) ns.
Definition pop_ops (i : Z) (n : nat) : list (@lop A) := repeat (LPop (Some i)) n.

(* The list operations one Wikicode call performs on node list L (L = current content). *)
Definition wc_ops (L : list A) (w : wop) : res (list (@lop A)) :=
  let len := zlen L in
  match w with
  | WInsert i ns => Ok (ins_ops len i ns)
  | WAppend ns => Ok (map LAppend ns)
  | WSet i ns =>
      if (1 <? zlen ns) then Exn ValueError
      else if (i >=? len) || (- i >? len) then Exn IndexError
      else match ns with
           | [] => Ok [LPop (Some i)]
           | n :: _ => Ok [LSetItem i n]
           end
  | WRemoveNode x =>
      match find_index eqb x L 0 with None => Exn ValueError | Some j => Ok (pop_ops j 1) end
  | WReplaceNode x ns =>
      match find_index eqb x L 0 with None => Exn ValueError | Some j => Ok (pop_ops j 1 ++ ins_ops (len - 1) j ns) end
  | WBeforeNode x ns =>
      match find_index eqb x L 0 with None => Exn ValueError | Some j => Ok (ins_ops len j ns) end
  | WAfterNode x ns =>
      match find_index eqb x L 0 with None => Exn ValueError | Some j => Ok (ins_ops len (j + 1) ns) end
  | WRemoveSelf => Ok (pop_ops 0 (length L))
  | WReplaceSelf ns => Ok (pop_ops 0 (length L) ++ ins_ops 0 0 ns)
  | WBeforeSelf ns => Ok (ins_ops len 0 ns)
  | WAfterSelf ns => Ok (ins_ops len len ns)
  | WSlice lo hi ns => Ok [LSetSlice lo hi ns]
  end.

Fixpoint multi_step (st : @sl A) (t : target) (ops : list (@lop A)) : res (@sl A) :=
  match ops with
  | [] => Ok st
  | o :: r => match sl_step eqb sortf st t o with
              | Ok (st', _) => multi_step st' t r
              | Exn e => Exn e
              | Resource => Resource
              end
  end.

Fixpoint list_multi (l : list A) (ops : list (@lop A)) : res (list A) :=
  match ops with
  | [] => Ok l
  | o :: r => match list_step eqb sortf l o with
              | Ok (l', _) => list_multi l' r
              | Exn e => Exn e
              | Resource => Resource
              end
  end.

Definition target_content (st : @sl A) (t : target) : list A :=
  match t with
  | Parent => store st 0%nat
  | View k => match nth_error (views st) k with Some v => V_render st v | None => [] end
  end.

(* one Wikicode edit call on the page (Parent) or on a section (View k) *)
Definition wc_step (st : @sl A) (t : target) (w : wop) : res (@sl A) :=
  match wc_ops (target_content st t) w with
  | Ok ops => multi_step st t ops
  | Exn e => Exn e
  | Resource => Resource
  end.

(* the same call on a plain Python list of nodes *)
Definition wc_list (L : list A) (w : wop) : res (list A) :=
  match wc_ops L w with
  | Ok ops => list_multi L ops
  | Exn e => Exn e
  | Resource => Resource
  end.

Definition wc_run (st : @sl A) (edits : list (target * wop)) : @sl A :=
  fold_left (fun st '(t, w) => match wc_step st t w with Ok st' => st' | _ => st end) edits st.

(* elements an edit can bring in *)
Definition wop_new (w : wop) : list A :=
  match w with
  | WInsert _ ns | WAppend ns | WSet _ ns | WReplaceNode _ ns | WBeforeNode _ ns
  | WAfterNode _ ns | WReplaceSelf ns | WBeforeSelf ns | WAfterSelf ns | WSlice _ _ ns => ns
  | WRemoveNode _ | WRemoveSelf => []
  end.

End WE.
