From Coq Require Import Permutation Sorting.Sorted.
From MW Require Import ListAux PyBase Sections.

(* ---------- sorting: a permutation of a strictly sorted list sorts to it ---------- *)

Definition key_lt (a b : sec) : Prop := (fst a < fst b)%nat.
Definition key_le (a b : sec) : Prop := (fst a <= fst b)%nat.

Lemma insert_perm x l : Permutation (insert_sec x l) (x :: l).
Proof.
  induction l as [|y ys IH]; cbn [insert_sec]; [reflexivity|].
  destruct (fst x <=? fst y)%nat; [reflexivity|].
  rewrite IH. apply perm_swap.
Qed.

Lemma sort_perm l : Permutation (sort_secs l) l.
Proof.
  induction l as [|x xs IH]; cbn; [constructor|].
  rewrite insert_perm. now constructor.
Qed.

Lemma insert_sorted x l :
  StronglySorted key_le l -> StronglySorted key_le (insert_sec x l).
Proof.
  induction l as [|y ys IH]; intros Hs; cbn [insert_sec].
  - repeat constructor.
  - destruct (Nat.leb_spec (fst x) (fst y)) as [Hle|Hgt].
    + constructor; [exact Hs|]. inversion Hs as [|? ? Hs' Hall]; subst.
      constructor; [exact Hle|].
      eapply Forall_impl; [|exact Hall]. unfold key_le; intros; lia.
    + inversion Hs as [|? ? Hs' Hall]; subst. constructor; [now apply IH|].
      rewrite Forall_forall in *. intros z Hz.
      apply (Permutation_in _ (insert_perm x ys)) in Hz. destruct Hz as [<-|Hz].
      * unfold key_le; lia.
      * now apply Hall.
Qed.

Lemma sort_sorted l : StronglySorted key_le (sort_secs l).
Proof. induction l as [|x xs IH]; cbn; [constructor|now apply insert_sorted]. Qed.

Lemma sorted_perm_unique l l' :
  StronglySorted key_le l -> StronglySorted key_lt l' -> Permutation l l' -> l = l'.
Proof.
  revert l. induction l' as [|x t IH]; intros l Hl Hl' Hp.
  - now apply Permutation_sym, Permutation_nil in Hp.
  - destruct l as [|y u]; [now apply Permutation_nil in Hp|].
    inversion Hl as [|? ? Hu Hyu]; subst. inversion Hl' as [|? ? Ht Hxt]; subst.
    assert (y = x) as ->.
    { assert (Hy : In y (x :: t)) by (eapply Permutation_in; [exact Hp|now left]).
      assert (Hx : In x (y :: u))
        by (eapply Permutation_in; [apply Permutation_sym; exact Hp|now left]).
      destruct Hy as [->|Hy]; [reflexivity|]. destruct Hx as [->|Hx]; [reflexivity|].
      rewrite Forall_forall in Hyu, Hxt. specialize (Hyu _ Hx). specialize (Hxt _ Hy).
      unfold key_le, key_lt in *. lia. }
    f_equal. apply IH; try assumption. now apply Permutation_cons_inv in Hp.
Qed.

Lemma sort_unique l l' :
  Permutation l l' -> StronglySorted key_lt l' -> sort_secs l = l'.
Proof.
  intros Hp Hs. apply sorted_perm_unique; [apply sort_sorted|exact Hs|].
  now rewrite sort_perm.
Qed.

(* ---------- the open-heading stack ---------- *)

Definition lvl_of (e : entry) : Z := fst (snd e).
Definition sorted_open (open : list entry) : Prop := StronglySorted Z.lt (map lvl_of open).

Lemma csi_spec lvl open j :
  exists n, closed_start_index lvl open j = (j + n)%nat /\ (n <= length open)%nat /\
    Forall (fun e => (lvl_of e < lvl)%Z) (firstn n open) /\
    (sorted_open open -> Forall (fun e => (lvl <= lvl_of e)%Z) (skipn n open)).
Proof.
  revert j. induction open as [|[s [l m]] rest IH]; intros j; cbn [closed_start_index].
  - exists 0%nat. cbn. split; [lia|]. split; [lia|]. split; constructor.
  - destruct (Z.leb_spec lvl l) as [Hle|Hgt].
    + exists 0%nat. cbn [firstn skipn length]. split; [lia|]. split; [lia|]. split; [constructor|].
      intros Hs. unfold sorted_open in Hs. cbn [map] in Hs.
      inversion Hs as [|? ? Hs' Hall]; subst. constructor; [exact Hle|].
      rewrite Forall_map in Hall. eapply Forall_impl; [|exact Hall].
      unfold lvl_of; cbn; intros; lia.
    + destruct (IH (S j)) as (n & Hn & Hlen & Hf & Hsk). exists (S n).
      rewrite Hn. cbn [firstn skipn length]. split; [lia|]. split; [lia|]. split.
      * constructor; [exact Hgt|exact Hf].
      * intros Hs. apply Hsk. unfold sorted_open in *. cbn [map] in Hs.
        now inversion Hs.
Qed.

Lemma close_secs_app stop a b : close_secs stop (a ++ b) = close_secs stop a ++ close_secs stop b.
Proof. unfold close_secs. now rewrite flat_map_app. Qed.

(* Sections still open at position i, closed by what the rest q of the page says. *)
Definition open_secs (fl : bool) (q : list item) (i : nat) (open : list entry) : list sec :=
  flat_map (fun e : entry => if snd (snd e) then [(fst e, end_in fl q i (lvl_of e))] else []) open.

Lemma open_secs_app fl q i a b :
  open_secs fl q i (a ++ b) = open_secs fl q i a ++ open_secs fl q i b.
Proof. unfold open_secs. now rewrite flat_map_app. Qed.

Lemma open_secs_ext fl q i q' i' open (P : entry -> Prop) :
  Forall P open ->
  (forall e, P e -> end_in fl q i (lvl_of e) = end_in fl q' i' (lvl_of e)) ->
  open_secs fl q i open = open_secs fl q' i' open.
Proof.
  intros Hall Hext. induction Hall as [|e t He _ IH]; [reflexivity|].
  unfold open_secs in *. cbn [flat_map]. rewrite IH. now rewrite (Hext _ He).
Qed.

Lemma open_secs_closed fl q i open stop :
  Forall (fun e => end_in fl q i (lvl_of e) = stop) open ->
  open_secs fl q i open = close_secs stop open.
Proof.
  intros Hall. induction Hall as [|e t He _ IH]; [reflexivity|].
  unfold open_secs, close_secs in *. cbn [flat_map]. rewrite IH. now rewrite He.
Qed.

Lemma open_secs_nil_page fl i open : open_secs fl [] i open = close_secs None open.
Proof. reflexivity. Qed.

Lemma sorted_open_snoc open e :
  sorted_open open -> Forall (fun x => (lvl_of x < lvl_of e)%Z) open -> sorted_open (open ++ [e]).
Proof.
  unfold sorted_open. induction open as [|x t IH]; cbn [map app]; intros Hs Hall.
  - repeat constructor.
  - inversion Hs as [|? ? Hs' Hxt]; subst. inversion Hall as [|? ? Hx Ht]; subst.
    constructor; [now apply IH|]. rewrite map_app, Forall_app. split; [exact Hxt|].
    cbn. repeat constructor. exact Hx.
Qed.

Lemma sorted_open_firstn n open : sorted_open open -> sorted_open (firstn n open).
Proof.
  unfold sorted_open. revert n. induction open as [|x t IH]; intros [|n] Hs; cbn;
    try constructor.
  - cbn [map] in Hs. inversion Hs; subst. now apply IH.
  - cbn [map] in Hs. inversion Hs as [|? ? _ Hall]; subst.
    rewrite Forall_forall in *. intros z Hz. apply Hall.
    rewrite in_map_iff in *. destruct Hz as (e & <- & He). exists e. split; [reflexivity|].
    eapply In_firstn; eauto.
Qed.

(* ---------- the loop computes the specification, up to order ---------- *)

Lemma loop_perm o q : forall i open acc,
  (o_flat o = false -> sorted_open open) ->
  Permutation (loop o q i open acc)
              (acc ++ open_secs (o_flat o) q i open ++ spec_from o q i).
Proof.
  induction q as [|[l m|] q IH]; intros i open acc Hso.
  - cbn [loop spec_from]. rewrite open_secs_nil_page, app_nil_r. reflexivity.
  - cbn [loop spec_from].
    set (csi := if o_flat o then 0%nat else closed_start_index l open 0).
    set (new := (if o_include_headings o then i else S i, (l, matcher o l m))).
    (* facts about the split *)
    assert (Hsplit :
      Forall (fun e => end_in (o_flat o) (Hd l m :: q) i (lvl_of e)
                       = end_in (o_flat o) q (S i) (lvl_of e)) (firstn csi open) /\
      Forall (fun e => end_in (o_flat o) (Hd l m :: q) i (lvl_of e) = Some i) (skipn csi open) /\
      (o_flat o = false -> sorted_open (firstn csi open ++ [new]))).
    { subst csi. destruct (o_flat o) eqn:Hfl.
      - cbn [firstn skipn]. split; [constructor|]. split; [|discriminate].
        apply Forall_forall. intros e _. reflexivity.
      - destruct (csi_spec l open 0) as (n & -> & Hlen & Hf & Hsk). cbn [Nat.add].
        specialize (Hso eq_refl). split; [|split].
        + eapply Forall_impl; [|exact Hf]. intros e He. cbn beta in He. cbn [end_in orb].
          destruct (Z.leb_spec l (lvl_of e)); [lia|reflexivity].
        + eapply Forall_impl; [|exact (Hsk Hso)]. intros e He. cbn beta in He. cbn [end_in orb].
          destruct (Z.leb_spec l (lvl_of e)); [reflexivity|lia].
        + intros _. apply sorted_open_snoc; [now apply sorted_open_firstn|].
          eapply Forall_impl; [|exact Hf]. intros e He. subst new. unfold lvl_of at 2. cbn. exact He. }
    destruct Hsplit as (Hkeep & Hclosed & Hsorted).
    rewrite (IH (S i) _ _ Hsorted).
    rewrite <- (firstn_skipn csi open) at 3.
    rewrite !open_secs_app.
    rewrite (open_secs_ext _ (Hd l m :: q) i q (S i) (firstn csi open) _ Hkeep (fun e H => H)).
    rewrite (open_secs_closed _ (Hd l m :: q) i (skipn csi open) (Some i) Hclosed).
    assert (Hnew : open_secs (o_flat o) q (S i) [new]
                   = if matcher o l m then [(st o i, end_in (o_flat o) q (S i) l)] else []).
    { subst new. unfold open_secs, st, lvl_of. cbn. destruct (matcher o l m); reflexivity. }
    rewrite Hnew. rewrite <- !app_assoc. apply Permutation_app_head.
    rewrite !app_assoc. apply Permutation_app_tail. apply Permutation_app_tail.
    apply Permutation_app_comm.
  - cbn [loop spec_from].
    rewrite (IH (S i) open acc Hso).
    apply Permutation_app_head. apply Permutation_app_tail.
    unfold open_secs. reflexivity.
Qed.

(* ---------- the specification list is strictly sorted by start ---------- *)

Lemma spec_from_ge o q i : Forall (fun s => (i <= fst s)%nat) (spec_from o q i).
Proof.
  revert i. induction q as [|[l m|] q IH]; intros i; cbn [spec_from].
  - constructor.
  - apply Forall_app. split.
    + destruct (matcher o l m); repeat constructor. unfold st; cbn.
      destruct (o_include_headings o); lia.
    + eapply Forall_impl; [|apply (IH (S i))]. cbn; intros; lia.
  - eapply Forall_impl; [|apply (IH (S i))]. cbn; intros; lia.
Qed.

Lemma spec_from_gt_st o q i :
  Forall (fun s => (st o i < fst s)%nat) (spec_from o q (S i)).
Proof.
  (* every later section starts at st o j >= j+? ... with j >= S i *)
  assert (H : forall q j, Forall (fun s => (st o j <= fst s)%nat) (spec_from o q j)).
  { clear. intros q. induction q as [|[l m|] q IH]; intros j; cbn [spec_from].
    - constructor.
    - apply Forall_app. split.
      + destruct (matcher o l m); repeat constructor.
      + eapply Forall_impl; [|apply (IH (S j))]. unfold st; cbn.
        destruct (o_include_headings o); intros; lia.
    - eapply Forall_impl; [|apply (IH (S j))]. unfold st; cbn.
      destruct (o_include_headings o); intros; lia. }
  eapply Forall_impl; [|apply (H q (S i))]. unfold st.
  destruct (o_include_headings o); cbn; intros; lia.
Qed.

Lemma spec_from_sorted o q i : StronglySorted key_lt (spec_from o q i).
Proof.
  revert i. induction q as [|[l m|] q IH]; intros i; cbn [spec_from].
  - constructor.
  - destruct (matcher o l m); cbn [app]; [|apply IH].
    constructor; [apply IH|].
    eapply Forall_impl; [|apply spec_from_gt_st]. unfold key_lt; cbn; intros; lia.
  - apply IH.
Qed.

(* ---------- main theorem ---------- *)

Lemma sort_lead_first x l :
  fst x = 0%nat -> sort_secs (x :: l) = x :: sort_secs l.
Proof.
  intros Hx. cbn [sort_secs fold_right]. fold (sort_secs l).
  destruct (sort_secs l) as [|y ys]; cbn [insert_sec]; [reflexivity|].
  rewrite Hx. reflexivity.
Qed.

Theorem get_sections_spec_lemma o p : get_sections o p = spec_sections o p.
Proof.
  unfold get_sections, spec_sections.
  assert (Hp : forall acc, Permutation (loop o p 0 [] acc) (acc ++ spec_from o p 0)).
  { intros acc. rewrite loop_perm; [reflexivity|]. intros _. constructor. }
  unfold lead. destruct (lead_cond o).
  - set (x := (0%nat, first_heading p 0)).
    (* the loop only appends to acc, so the lead stays in front of a permutation *)
    assert (Hloop : exists rest, loop o p 0 [] [x] = x :: rest /\
                                 Permutation rest (spec_from o p 0)).
    { assert (Hpre : forall q i open acc, exists rest, loop o q i open acc = acc ++ rest).
      { clear. induction q as [|[l m|] q IH]; intros i open acc; cbn [loop].
        - eexists; reflexivity.
        - destruct (IH (S i)
            (firstn (if o_flat o then 0%nat else closed_start_index l open 0) open ++
              [(if o_include_headings o then i else S i, (l, matcher o l m))])
            (acc ++ close_secs (Some i)
               (skipn (if o_flat o then 0%nat else closed_start_index l open 0) open)))
            as (rest & Hr).
          rewrite Hr, <- app_assoc. eexists; reflexivity.
        - apply IH. }
      destruct (Hpre p 0%nat [] [x]) as (rest & Hr). exists rest. split; [exact Hr|].
      specialize (Hp [x]). rewrite Hr in Hp. cbn [app] in Hp.
      now apply Permutation_cons_inv in Hp. }
    destruct Hloop as (rest & -> & Hrest). cbn [app].
    rewrite sort_lead_first by reflexivity. f_equal.
    apply sort_unique; [exact Hrest|apply spec_from_sorted].
  - cbn [app]. apply sort_unique; [apply (Hp [])|apply spec_from_sorted].
Qed.

(* ---------- consequences at the level of the specification ---------- *)

(* flat + lead + headings, no filter: sections concatenate to the page *)
Fixpoint count_headings (p : list item) : nat :=
  match p with [] => 0 | Hd _ _ :: q => S (count_headings q) | Ot :: q => count_headings q end.

Lemma matcher_flat_all l m : matcher flat_all l m = true.
Proof. reflexivity. Qed.

Lemma spec_flat_length q i : length (spec_from flat_all q i) = count_headings q.
Proof.
  revert i. induction q as [|[l m|] q IH]; intros i; cbn [spec_from count_headings];
    [reflexivity| |apply IH].
  rewrite matcher_flat_all. cbn. now rewrite IH.
Qed.

Lemma end_in_flat_first q i lvl : end_in true q i lvl = first_heading q i.
Proof. revert i. induction q as [|[l m|] q IH]; intros i; cbn; auto. Qed.

(* slices of a page p = pre ++ q where q starts at index i = length pre *)
Lemma first_heading_split q i :
  match first_heading q i with
  | None => count_headings q = 0%nat
  | Some j => exists a b l m, q = a ++ Hd l m :: b /\ j = (i + length a)%nat /\ count_headings a = 0%nat
  end.
Proof.
  revert i. induction q as [|[l m|] q IH]; intros i; cbn [first_heading count_headings].
  - reflexivity.
  - exists [], q, l, m. cbn. repeat split; lia.
  - specialize (IH (S i)). destruct (first_heading q (S i)) as [j|]; [|exact IH].
    destruct IH as (a & b & l & m & -> & -> & Hc). exists (Ot :: a), b, l, m.
    cbn. repeat split; auto; lia.
Qed.

Lemma spec_from_no_headings o a i : count_headings a = 0%nat -> spec_from o a i = [].
Proof.
  revert i. induction a as [|[l m|] a IH]; intros i H; cbn in *; auto; discriminate.
Qed.

Lemma spec_from_app_no_headings o a q i :
  count_headings a = 0%nat -> spec_from o (a ++ q) i = spec_from o q (i + length a).
Proof.
  revert i. induction a as [|[l m|] a IH]; intros i H; cbn in *.
  - now rewrite Nat.add_0_r.
  - discriminate.
  - rewrite IH by assumption. f_equal. lia.
Qed.

Lemma flat_concat pre q :
  concat (map (sec_slice (pre ++ q)) (spec_from flat_all q (length pre)))
  = match first_heading q (length pre) with
    | Some j => skipn j (pre ++ q)
    | None => []
    end.
Proof.
  remember (length q) as n eqn:Hn. revert pre q Hn.
  induction n as [n IHn] using lt_wf_ind. intros pre q Hn.
  pose proof (first_heading_split q (length pre)) as Hfh.
  destruct (first_heading q (length pre)) as [j|].
  - destruct Hfh as (a & b & l & m & -> & -> & Hc).
    rewrite spec_from_app_no_headings by assumption. cbn [spec_from].
    rewrite matcher_flat_all. cbn [app map concat flat_all o_flat].
    unfold st at 1. cbn [o_include_headings flat_all].
    rewrite end_in_flat_first.
    (* rest of the page after this heading *)
    assert (Hpre' : (length pre + length a)%nat = length (pre ++ a)) by now rewrite app_length.
    replace (S (length pre + length a)) with (length ((pre ++ a) ++ [Hd l m]))
      by (rewrite !app_length; cbn; lia).
    assert (Hpage : pre ++ a ++ Hd l m :: b = ((pre ++ a) ++ [Hd l m]) ++ b)
      by (rewrite <- !app_assoc; reflexivity).
    rewrite Hpage.
    rewrite (IHn (length b)); [| |reflexivity].
    2:{ subst n. rewrite app_length. cbn. lia. }
    unfold sec_slice at 1. cbn [fst snd].
    rewrite Hpre'.
    pose proof (first_heading_split b (length ((pre ++ a) ++ [Hd l m]))) as Hb.
    destruct (first_heading b (length ((pre ++ a) ++ [Hd l m]))) as [k|].
    + destruct Hb as (a2 & b2 & l2 & m2 & -> & -> & Hc2).
      unfold slice.
      replace (((pre ++ a) ++ [Hd l m]) ++ a2 ++ Hd l2 m2 :: b2)
        with ((pre ++ a) ++ (Hd l m :: a2) ++ Hd l2 m2 :: b2)
        by (rewrite <- !app_assoc; reflexivity).
      rewrite skipn_app_exact.
      replace (length ((pre ++ a) ++ [Hd l m]) + length a2 - length (pre ++ a))%nat
        with (length (Hd l m :: a2)) by (rewrite !app_length; cbn; lia).
      rewrite firstn_app_exact.
      replace (length ((pre ++ a) ++ [Hd l m]) + length a2)%nat
        with (length ((pre ++ a) ++ Hd l m :: a2)) by (rewrite !app_length; cbn; lia).
      rewrite app_assoc. rewrite skipn_app_exact.
      reflexivity.
    + rewrite app_nil_r. rewrite <- app_assoc. rewrite skipn_app_exact. reflexivity.
  - rewrite spec_from_no_headings by assumption. reflexivity.
Unshelve. all: auto.
Qed.

Theorem flat_lead_partition_lemma p :
  concat (map (sec_slice p) (get_sections flat_all p)) = p /\
  length (get_sections flat_all p) = S (count_headings p).
Proof.
  rewrite get_sections_spec_lemma. unfold spec_sections, lead. cbn [lead_cond flat_all o_include_lead o_has_match o_levels negb orb].
  split.
  - cbn [app map concat]. pose proof (flat_concat [] p) as H. cbn [app length] in H.
    rewrite H. unfold sec_slice. cbn [fst snd].
    pose proof (first_heading_split p 0) as Hf.
    destruct (first_heading p 0) as [j|].
    + unfold slice. cbn [skipn]. rewrite Nat.sub_0_r. apply firstn_skipn.
    + cbn [skipn]. now rewrite app_nil_r.
  - cbn [app length]. now rewrite spec_flat_length.
Qed.

(* Section extent: what [end_in] means. *)
Lemma end_in_some fl q i lvl j :
  end_in fl q i lvl = Some j ->
  exists a b l m, q = a ++ Hd l m :: b /\ j = (i + length a)%nat /\
    (fl = true \/ (l <= lvl)%Z) /\
    Forall (fun x => match x with Hd l' _ => fl = false /\ (lvl < l')%Z | Ot => True end) a.
Proof.
  revert i. induction q as [|[l m|] q IH]; intros i; cbn [end_in]; [discriminate| |].
  - destruct fl; cbn [orb].
    + intros [= <-]. exists [], q, l, m. cbn. repeat split; auto; lia.
    + destruct (Z.leb_spec l lvl) as [Hle|Hgt].
      * intros [= <-]. exists [], q, l, m. cbn. repeat split; auto; lia.
      * intros H. destruct (IH _ H) as (a & b & l2 & m2 & -> & -> & Hc & Ha).
        exists (Hd l m :: a), b, l2, m2. cbn. repeat split; auto; try lia.
  - intros H. destruct (IH _ H) as (a & b & l2 & m2 & -> & -> & Hc & Ha).
    exists (Ot :: a), b, l2, m2. cbn. repeat split; auto; lia.
Qed.

Lemma end_in_none fl q i lvl :
  end_in fl q i lvl = None ->
  Forall (fun x => match x with Hd l' _ => fl = false /\ (lvl < l')%Z | Ot => True end) q.
Proof.
  revert i. induction q as [|[l m|] q IH]; intros i; cbn [end_in]; [constructor| |].
  - destruct fl; cbn [orb]; [discriminate|].
    destruct (Z.leb_spec l lvl) as [Hle|Hgt]; [discriminate|]. intros HH. constructor; [split; auto|eauto].
  - intros HH. constructor; eauto.
Qed.

(* Nesting: a deeper heading that lies inside a section ends no later than it. *)
Definition opt_le (a b : option nat) : Prop :=
  match a, b with
  | _, None => True
  | Some x, Some y => (x <= y)%nat
  | None, Some _ => False
  end.

Lemma end_in_mono q i lvl lvl' :
  (lvl <= lvl')%Z -> opt_le (end_in false q i lvl') (end_in false q i lvl).
Proof.
  revert i. induction q as [|[l m|] q IH]; intros i Hle; cbn [end_in orb].
  - exact I.
  - destruct (Z.leb_spec l lvl'), (Z.leb_spec l lvl); cbn; try lia.
    + specialize (IH (S i) Hle). destruct (end_in false q (S i) lvl) as [y|] eqn:E; cbn; auto.
      destruct (end_in_some _ _ _ _ _ E) as (a & _ & _ & _ & _ & -> & _). lia.
    + now apply IH.
  - now apply IH.
Qed.

Lemma nesting_lemma b l' m' c i l :
  (* a heading of level l sits at index i; the rest of the page is b ++ Hd l' m' :: c;
     hypothesis: the section of that heading does not end at or before the later
     heading (index S i + length b) *)
  (forall j, end_in false (b ++ Hd l' m' :: c) (S i) l = Some j -> (S i + length b < j)%nat) ->
  (l < l')%Z /\
  opt_le (end_in false c (S (S i + length b)) l')
         (end_in false (b ++ Hd l' m' :: c) (S i) l).
Proof.
  intros Hin.
  assert (Hgen : forall b i0,
    (forall j, end_in false (b ++ Hd l' m' :: c) i0 l = Some j -> (i0 + length b < j)%nat) ->
    (l < l')%Z /\
    end_in false (b ++ Hd l' m' :: c) i0 l = end_in false c (S (i0 + length b)) l).
  { clear. induction b as [|[l2 m2|] b IH]; intros i0 H; cbn [app end_in orb length] in *.
    - destruct (Z.leb_spec l' l) as [Hle|Hgt]; [specialize (H _ eq_refl); lia|].
      split; [lia|]. now rewrite Nat.add_0_r.
    - destruct (Z.leb_spec l2 l) as [Hle|Hgt].
      + specialize (H _ eq_refl). lia.
      + destruct (IH (S i0)) as [Hl Heq]; [intros j Hj; specialize (H _ Hj); lia|].
        split; [exact Hl|]. rewrite Heq. f_equal; lia.
    - destruct (IH (S i0)) as [Hl Heq]; [intros j Hj; specialize (H _ Hj); lia|].
      split; [exact Hl|]. rewrite Heq. f_equal; lia. }
  destruct (Hgen b (S i) Hin) as [Hl Heq]. split; [exact Hl|].
  rewrite Heq. apply end_in_mono. lia.
Qed.

(* Exactly the qualifying headings get a section, with the extent given by end_in. *)
Lemma spec_from_in o q i s :
  In s (spec_from o q i) <->
  exists a l m b, q = a ++ Hd l m :: b /\ matcher o l m = true /\
    s = (st o (i + length a), end_in (o_flat o) b (S (i + length a)) l).
Proof.
  revert i. induction q as [|[l m|] q IH]; intros i; cbn [spec_from].
  - split; [intros []|]. intros (a & l & m & b & H & _). destruct a; discriminate.
  - rewrite in_app_iff, IH. split.
    + intros [H|(a & l2 & m2 & b & -> & Hm & ->)].
      * destruct (matcher o l m) eqn:Hm; [|destruct H]. destruct H as [<-|[]].
        exists [], l, m, q. cbn [length app]. rewrite Nat.add_0_r. auto.
      * exists (Hd l m :: a), l2, m2, b. cbn [length app].
        replace (i + S (length a))%nat with (S i + length a)%nat by lia. auto.
    + intros (a & l2 & m2 & b & Hq & Hm & ->). destruct a as [|x a]; cbn [app length] in *.
      * injection Hq as -> -> ->. left. rewrite Hm, Nat.add_0_r. now left.
      * injection Hq as <- ->. right. exists a, l2, m2, b.
        replace (i + S (length a))%nat with (S i + length a)%nat by lia. auto.
  - rewrite IH. split.
    + intros (a & l2 & m2 & b & -> & Hm & ->). exists (Ot :: a), l2, m2, b. cbn [length app].
      replace (i + S (length a))%nat with (S i + length a)%nat by lia. auto.
    + intros (a & l2 & m2 & b & Hq & Hm & ->). destruct a as [|x a]; cbn [app length] in *;
        [discriminate|]. injection Hq as <- ->. exists a, l2, m2, b.
      replace (i + S (length a))%nat with (S i + length a)%nat by lia. auto.
Qed.

Definition with_headings (o : sopts) (b : bool) : sopts :=
  {| o_levels := o_levels o; o_has_match := o_has_match o; o_flat := o_flat o;
     o_include_lead := o_include_lead o; o_include_headings := b |}.

Lemma drop_heading_lemma o q i :
  spec_from (with_headings o false) q i
  = map (fun s : sec => (S (fst s), snd s)) (spec_from (with_headings o true) q i).
Proof.
  revert i. induction q as [|[l m|] q IH]; intros i; cbn [spec_from]; [reflexivity| |apply IH].
  rewrite map_app, IH. f_equal.
  change (matcher (with_headings o false) l m) with (matcher o l m).
  change (matcher (with_headings o true) l m) with (matcher o l m).
  destruct (matcher o l m); reflexivity.
Qed.

Lemma page_order_lemma o p : StronglySorted key_le (get_sections o p).
Proof. unfold get_sections. apply sort_sorted. Qed.
