From Coq Require Import Extraction ExtrOcamlBasic ZArith NArith List.
From MW Require Import PyBase WeakSearch.
(* node ids are integers; '==' of two nodes (equal rendered text) is equality of ids *)
Definition z_weak (kind : nat) (pat new l : list Z) : res (list Z) :=
  match kind with
  | 0 => weak_remove Z.eqb pat l
  | 1 => weak_replace Z.eqb pat (fun _ => new) l
  | 2 => weak_before Z.eqb pat (fun _ => new) l
  | _ => weak_after Z.eqb pat (fun _ => new) l
  end.
Extraction "weaksearch_model.ml" Z.succ N.succ Nat.succ z_weak.
