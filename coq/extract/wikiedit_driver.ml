(* line: n0 nviews (start stop)* nedits (tgt wopcode args...)*   None = 99999; page ids 0..n0-1
   out per edit:  ok|exc Name | store0 | views (start stop read)  separated by " ; " *)
let none = 99999
let opt i = if i = none then None else Some (z_of_int i)
let show_list l = String.concat "," (List.map (fun z -> string_of_int (int_of_z z)) l)
let show_exn = function IndexError -> "IndexError" | ValueError -> "ValueError" | TypeError -> "TypeError"
  | ParserError -> "ParserError" | AttributeError -> "AttributeError"
let show_state st =
  let p0 = (match st.stores with s :: _ -> s | [] -> []) in
  let vs = List.map (fun v ->
    Printf.sprintf "%d %s %s" (int_of_z v.v_start)
      (match v.v_stop with None -> "N" | Some e -> string_of_int (int_of_z e))
      (match z_read st v with Ok l -> "[" ^ show_list l ^ "]" | Exn _ -> "EXC" | Resource -> "RES")) st.views in
  "[" ^ show_list p0 ^ "] | " ^ String.concat " / " vs

let () = iter_lines (fun line ->
  match ints_of_line line with
  | n0 :: rest ->
    let cur = ref rest in
    let next () = match !cur with x :: t -> cur := t; x | [] -> failwith "short line" in
    let nexts () = let n = next () in List.init n (fun _ -> z_of_int (next ())) in
    let st = ref (z_init (List.init n0 (fun i -> z_of_int i))) in
    let nviews = next () in
    for _ = 1 to nviews do
      let a = next () in let b = next () in
      (match z_getslice !st Parent (Some (z_of_int a)) (opt b) with
       | Ok (st', _) -> st := st' | _ -> failwith "getslice")
    done;
    let nedits = next () in
    let out = Buffer.create 256 in
    for _ = 1 to nedits do
      let tgt = next () in
      let t = if tgt < 0 then Parent else View (nat_of_int tgt) in
      let w = match next () with
        | 0 -> let i = next () in WInsert (z_of_int i, nexts ())
        | 1 -> WAppend (nexts ())
        | 2 -> let i = next () in WSet (z_of_int i, nexts ())
        | 3 -> WRemoveNode (z_of_int (next ()))
        | 4 -> let x = next () in WReplaceNode (z_of_int x, nexts ())
        | 5 -> let x = next () in WBeforeNode (z_of_int x, nexts ())
        | 6 -> let x = next () in WAfterNode (z_of_int x, nexts ())
        | 7 -> WRemoveSelf
        | 8 -> WReplaceSelf (nexts ())
        | 9 -> WBeforeSelf (nexts ())
        | 10 -> WAfterSelf (nexts ())
        | 11 -> let lo = next () in let hi = next () in WSlice (opt lo, opt hi, nexts ())
        | _ -> failwith "wopcode" in
      (match z_wc_step !st t w with
       | Ok st' -> st := st'; Buffer.add_string out ("ok | " ^ show_state !st ^ " ; ")
       | Exn e -> Buffer.add_string out ("exc " ^ show_exn e ^ " | " ^ show_state !st ^ " ; ")
       | Resource -> Buffer.add_string out "RES ; ")
    done;
    print_endline (Buffer.contents out)
  | _ -> print_endline "")
