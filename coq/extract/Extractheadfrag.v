From Coq Require Import Extraction ExtrOcamlBasic ZArith NArith List.
From MW Require Import PyBase Nodes Flatten HeadingFrag.
Definition n_frag (md : nat) (s : list N) : list token := frag_tokens md s.
Extraction "headfrag_model.ml" Z.succ N.succ Nat.succ n_frag.
