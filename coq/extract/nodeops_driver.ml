(* nodeops: same input as the builder driver.
   line: ntokens (kind fields...)*     strings: len cp*, option strings: -1 | len cp*
   out : "ok <tree> | <rendered code points>"  or  "exc ParserError" / "exc other" / "resource" *)
let () = iter_lines (fun line ->
  let cur = ref (ints_of_line line) in
  let next () = match !cur with x :: t -> cur := t; x | [] -> failwith "short line" in
  let str () = let n = next () in List.init n (fun _ -> n_of_int (next ())) in
  let ostr () = let n = next () in if n < 0 then None else Some (List.init n (fun _ -> n_of_int (next ()))) in
  let bool () = next () <> 0 in
  let ntok = next () in
  let toks = List.init ntok (fun _ ->
    match next () with
    | 0 -> TText (str ())
    | 1 -> TTemplateOpen | 2 -> TTemplateParamSeparator | 3 -> TTemplateParamEquals | 4 -> TTemplateClose
    | 5 -> TArgumentOpen | 6 -> TArgumentSeparator | 7 -> TArgumentClose
    | 8 -> TWikilinkOpen | 9 -> TWikilinkSeparator | 10 -> TWikilinkClose
    | 11 -> TExternalLinkOpen (bool ()) | 12 -> TExternalLinkSeparator (bool ()) | 13 -> TExternalLinkClose
    | 14 -> THTMLEntityStart | 15 -> THTMLEntityNumeric | 16 -> THTMLEntityHex (str ()) | 17 -> THTMLEntityEnd
    | 18 -> THeadingStart (z_of_int (next ())) | 19 -> THeadingEnd
    | 20 -> TCommentStart | 21 -> TCommentEnd
    | 22 -> let wm = ostr () in TTagOpenOpen (wm, bool ())
    | 23 -> let a = str () in let b = str () in let c = str () in TTagAttrStart (a, b, c)
    | 24 -> TTagAttrEquals | 25 -> TTagAttrQuote (str ())
    | 26 -> let p = str () in TTagCloseOpen (p, ostr ())
    | 27 -> let p = str () in let i = bool () in TTagCloseSelfclose (p, i, ostr ())
    | 28 -> TTagOpenClose (ostr ())
    | 29 -> TTagCloseClose
    | _ -> failwith "token kind") in
  let b = Buffer.create 256 in
  let ps s = Buffer.add_string b s in
  let pstr s = ps (String.concat "." (List.map (fun c -> string_of_int (int_of_n c)) s)) in
  let kind = function NText _ -> "T" | NComment _ -> "C" | NHeading _ -> "H" | NWikilink _ -> "W" | NArgument _ -> "A"
    | NExtLink _ -> "E" | NEntity _ -> "N" | NTemplate _ -> "P" | NTag _ -> "G" in
  (match build toks with
   | Ok c ->
     ps "ok";
     for o = 0 to 7 do
       let opts = { normalize = (o land 1 <> 0); collapse = (o land 2 <> 0); keep_params = (o land 4 <> 0) } in
       ps (Printf.sprintf " | S%d=" o);
       (match py_strip_code opts c with Ok s -> pstr s | Exn _ -> ps "exc" | Resource -> ps "res")
     done;
     ps " | D=";
     List.iter (fun n -> ps (kind n); ps (string_of_int (List.length (str_node n))); ps ",") (descend_code c)
   | Exn ParserError -> ps "exc ParserError"
   | Exn _ -> ps "exc other"
   | Resource -> ps "resource");
  print_endline (Buffer.contents b))
