From Coq Require Import Extraction ExtrOcamlBasic ZArith NArith List.
From MW Require Import CBuffers.
From MW.gen Require Import CBufGen.
Definition c_step := step c_initial_capacity c_resize_factor c_concat_extra c_write_needs_resize c_concat_needs_resize.
Definition c_start := (tb_new c_initial_capacity, tb_new c_initial_capacity).
Definition c_entity (cs : list N) := entity_loop c_entity_guard cs 0 (repeat 0%N c_entity_alloc).
Extraction "cbuffers_model.ml" Z.succ N.succ Nat.succ c_step c_start c_entity contents.
