(* line: nlevels l1..ln hm fl il ih nitems (lvl m)*   (lvl=0: other node; il: 0 None, 1 False, 2 True)
   out : s e s e ...   (e = -1: open-ended) *)
let () = iter_lines (fun line ->
  match ints_of_line line with
  | nl :: rest ->
    let (levels, rest) = take nl rest in
    (match rest with
     | hm :: fl :: il :: ih :: _n :: items ->
       let rec its = function
         | [] -> []
         | lvl :: m :: t -> (if lvl = 0 then Ot else Hd (z_of_int lvl, m <> 0)) :: its t
         | _ -> failwith "odd" in
       let o = { o_levels = List.map z_of_int levels; o_has_match = hm <> 0; o_flat = fl <> 0;
                 o_include_lead = (match il with 0 -> None | 1 -> Some false | _ -> Some true);
                 o_include_headings = ih <> 0 } in
       let r = get_sections o (its items) in
       print_endline (String.concat " " (List.map (fun (s, e) ->
         Printf.sprintf "%d %d" (int_of_nat s) (match e with None -> -1 | Some e -> int_of_nat e)) r))
     | _ -> failwith "bad line")
  | [] -> print_endline "")
