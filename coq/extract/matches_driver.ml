(* line: na a1..an nb b1..bn  (code points)   out: 1/0 then the cleaned form of a *)
let () = iter_lines (fun line ->
  match ints_of_line line with
  | na :: rest ->
    let (a, rest) = take na rest in
    (match rest with
     | nb :: rest -> let (b, _) = take nb rest in
       let a = List.map n_of_int a and b = List.map n_of_int b in
       Printf.printf "%d %s\n" (if py_matches a b then 1 else 0)
         (String.concat "," (List.map (fun c -> string_of_int (int_of_n c)) (py_clean a)))
     | [] -> print_endline "?")
  | [] -> print_endline "")
