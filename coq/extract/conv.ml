(* Hand-written conversions between OCaml ints and the extracted inductive numbers.
   Shared by all drivers; textually included ahead of each driver by the build. *)
let rec nat_of_int n = if n <= 0 then O else S (nat_of_int (n - 1))
let rec int_of_nat = function O -> 0 | S n -> 1 + int_of_nat n
let rec pos_of_int n = if n <= 1 then XH else if n land 1 = 0 then XO (pos_of_int (n lsr 1)) else XI (pos_of_int (n lsr 1))
let rec int_of_pos = function XH -> 1 | XO p -> 2 * int_of_pos p | XI p -> 2 * int_of_pos p + 1
let z_of_int n = if n = 0 then Z0 else if n > 0 then Zpos (pos_of_int n) else Zneg (pos_of_int (-n))
let int_of_z = function Z0 -> 0 | Zpos p -> int_of_pos p | Zneg p -> - (int_of_pos p)
let ints_of_line l = List.filter_map (fun s -> if s = "" then None else Some (int_of_string s)) (String.split_on_char ' ' l)
let rec take n l = if n = 0 then ([], l) else match l with [] -> failwith "short" | x :: t -> let (a, b) = take (n - 1) t in (x :: a, b)
let iter_lines f = try while true do f (input_line stdin) done with End_of_file -> ()
let n_of_int n = if n = 0 then N0 else Npos (pos_of_int n)
let int_of_n = function N0 -> 0 | Npos p -> int_of_pos p
