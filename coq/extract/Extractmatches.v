From Coq Require Import Extraction ExtrOcamlBasic NArith List.
From MW Require Import PyBase Matches.
From MW.gen Require Import UnicodeTables.
Definition py_matches := Matches.matches py_isspace py_upper.
Definition py_clean := Matches.clean py_isspace py_upper.
Extraction "matches_model.ml" Z.succ N.succ Nat.succ py_matches py_clean.
