From Coq Require Import Extraction ExtrOcamlBasic ZArith NArith List.
From MW Require Import PyBase Nodes Flatten EntityFrag MixFrag.
From MW.gen Require Import Tables.
Definition n_mfrag (which : bool) (msize md : nat) (s : list N) : list token :=
  mfrag_tokens (if which then py_markers else c_markers) (map codes_of_string entity_names) msize md s.
Extraction "mixfrag_model.ml" Z.succ N.succ Nat.succ n_mfrag.
