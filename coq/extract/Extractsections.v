From Coq Require Import Extraction ExtrOcamlBasic ZArith NArith.
From MW Require Import PyBase Sections.
Extraction "sections_model.ml" Z.succ N.succ Nat.succ get_sections spec_sections.
