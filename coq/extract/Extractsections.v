From Coq Require Import Extraction ExtrOcamlBasic.
From MW Require Import PyBase Sections.
Extraction "sections_model.ml" get_sections spec_sections.
