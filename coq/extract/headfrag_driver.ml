(* line: max_depth then the code points of the input
   out: the model's token list: T<cp.cp...> | S<level> | E, space separated ("-" when empty) *)
let () = iter_lines (fun line ->
  match ints_of_line line with
  | md :: cps ->
    let toks = n_frag (nat_of_int md) (List.map n_of_int cps) in
    let show = function
      | TText s -> "T" ^ String.concat "." (List.map (fun x -> string_of_int (int_of_n x)) s)
      | THeadingStart l -> "S" ^ string_of_int (int_of_z l)
      | THeadingEnd -> "E"
      | _ -> "?" in
    print_endline (if toks = [] then "-" else String.concat " " (List.map show toks))
  | [] -> print_endline "")
