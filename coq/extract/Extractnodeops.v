From Coq Require Import Extraction ExtrOcamlBasic ZArith NArith List.
From MW Require Import PyBase Nodes Builder Strip StripInst.
Extraction "nodeops_model.ml" Z.succ N.succ Nat.succ build str_node str_code py_strip_code descend_code.
