From Coq Require Import Extraction ExtrOcamlBasic ZArith NArith List.
From MW Require Import PyBase Escape.
Definition n_escape (c : N) (ent : list N) (v : value) : list N := str_value (escape c ent v).
Extraction "escape_model.ml" Z.succ N.succ Nat.succ n_escape.
