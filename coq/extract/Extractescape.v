From Coq Require Import Extraction ExtrOcamlBasic ZArith NArith List.
From MW Require Import PyBase Escape.
Definition n_escape (c : N) (ent : list N) (v : value) : list N := str_value (escape c ent v).
Definition n_open_renders (c : N) (v : value) : bool := open_renders c v.
Extraction "escape_model.ml" Z.succ N.succ Nat.succ n_escape n_open_renders.
