From Coq Require Import Extraction ExtrOcamlBasic ZArith NArith List.
From MW Require Import PyBase Template.
Definition znum (z : Z) : option nat := if Z.ltb 0 z then Some (Z.to_nat z) else None.
Definition zstep := @step Z Z Z.eqb znum (fun _ => (-1)%Z).
Extraction "template_model.ml" Z.succ N.succ Nat.succ zstep.
