From Coq Require Import Extraction ExtrOcamlBasic ZArith NArith List.
From MW Require Import PyBase Template.
Definition znum (z : Z) : option nat := if Z.ltb 0 z then Some (Z.to_nat z) else None.
(* value ids below -1 stand for values with an '=' that cannot be escaped (inside an external link or a heading) *)
Definition zstep := @step Z Z Z.eqb znum (fun _ => (-1)%Z) (fun v => Z.ltb v (-1)).
Extraction "template_model.ml" Z.succ N.succ Nat.succ zstep.
