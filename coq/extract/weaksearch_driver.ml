(* line: kind npat pat.. nnew new.. nl l..   out: "E <exn>" | comma-separated ids ("-" when empty) *)
let show_exn = function IndexError -> "IndexError" | ValueError -> "ValueError" | TypeError -> "TypeError"
  | ParserError -> "ParserError" | AttributeError -> "AttributeError"
let () = iter_lines (fun line ->
  match ints_of_line line with
  | kind :: np :: rest ->
    let (pat, rest) = take np rest in
    (match rest with
     | nn :: rest ->
       let (nw, rest) = take nn rest in
       (match rest with
        | nl :: rest ->
          let (l, _) = take nl rest in
          let z = List.map z_of_int in
          (match z_weak (nat_of_int kind) (z pat) (z nw) (z l) with
           | Ok r -> print_endline (if r = [] then "-" else String.concat "," (List.map (fun x -> string_of_int (int_of_z x)) r))
           | Exn e -> print_endline ("E " ^ show_exn e)
           | Resource -> print_endline "RES")
        | [] -> print_endline "?")
     | [] -> print_endline "?")
  | _ -> print_endline "")
