(* line: which(1 = Python tables, 0 = C tables) max_entity_size then the code points of the input
   out: T<cp.cp...> | A (entity start) | N (numeric) | X<cp> (hex char) | Z (entity end) | C (comment start) | D (comment end), space separated ("-" when empty) *)
let () = iter_lines (fun line ->
  match ints_of_line line with
  | which :: ms :: cps ->
    let toks = n_efrag (which = 1) (nat_of_int ms) (List.map n_of_int cps) in
    let codes s = String.concat "." (List.map (fun x -> string_of_int (int_of_n x)) s) in
    let show = function
      | TText s -> "T" ^ codes s
      | THTMLEntityStart -> "A"
      | THTMLEntityNumeric -> "N"
      | THTMLEntityHex c -> "X" ^ codes c
      | THTMLEntityEnd -> "Z"
      | TCommentStart -> "C"
      | TCommentEnd -> "D"
      | _ -> "?" in
    print_endline (if toks = [] then "-" else String.concat " " (List.map show toks))
  | _ -> print_endline "")
