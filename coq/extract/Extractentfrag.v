From Coq Require Import Extraction ExtrOcamlBasic ZArith NArith List.
From MW Require Import PyBase Nodes Flatten EntityFrag.
From MW.gen Require Import Tables.
(* which = true: Python's marker table; false: C's.  msize: MAX_ENTITY_SIZE of the tokenizer under test *)
Definition n_efrag (which : bool) (msize : nat) (s : list N) : list token :=
  efrag_tokens (if which then py_markers else c_markers) (map codes_of_string entity_names) msize s.
Extraction "entfrag_model.ml" Z.succ N.succ Nat.succ n_efrag.
