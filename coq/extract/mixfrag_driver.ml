(* line: which(1 = Python tables, 0 = C tables) max_entity_size max_depth then the code points of the input
   out: T<cp.cp...> | S<level> | E | A (entity start) | N (numeric) | X<cp> (hex char) | Z (entity end) | C (comment start) | D (comment end) *)
let () = iter_lines (fun line ->
  match ints_of_line line with
  | which :: ms :: md :: cps ->
    let toks = n_mfrag (which = 1) (nat_of_int ms) (nat_of_int md) (List.map n_of_int cps) in
    let codes s = String.concat "." (List.map (fun x -> string_of_int (int_of_n x)) s) in
    let show = function
      | TText s -> "T" ^ codes s
      | THeadingStart l -> "S" ^ string_of_int (int_of_z l)
      | THeadingEnd -> "E"
      | THTMLEntityStart -> "A"
      | THTMLEntityNumeric -> "N"
      | THTMLEntityHex c -> "X" ^ codes c
      | THTMLEntityEnd -> "Z"
      | TCommentStart -> "C"
      | TCommentEnd -> "D"
      | _ -> "?" in
    print_endline (if toks = [] then "-" else String.concat " " (List.map show toks))
  | _ -> print_endline "")
