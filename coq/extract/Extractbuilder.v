From Coq Require Import Extraction ExtrOcamlBasic ZArith NArith List.
From MW Require Import PyBase Nodes Builder Flatten.
Extraction "builder_model.ml" Z.succ N.succ Nat.succ build str_code fl_code wf_codeb erase.
