From Coq Require Import Extraction ExtrOcamlBasic ZArith NArith List.
From MW Require Import PyBase Nodes Builder.
Extraction "builder_model.ml" Z.succ N.succ Nat.succ build str_code.
