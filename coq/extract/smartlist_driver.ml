(* line: n0 nacts (tgt opcode args...)*    elements of the initial list are 0..n0-1
   tgt = -1 parent, k >= 0 view k, -2 = plain-list mode for the whole line (PyList spec only)
   None is written 99999.
   out: one record per action, separated by " ; " :  result | store0 items | views (start,stop,read) *)
let none = 99999
let opt i = if i = none then None else Some (z_of_int i)
let show_list l = String.concat "," (List.map (fun z -> string_of_int (int_of_z z)) l)
let show_rv = function RNone -> "none" | RVal x -> "val " ^ string_of_int (int_of_z x) | RInt n -> "int " ^ string_of_int (int_of_z n)
let show_exn = function IndexError -> "IndexError" | ValueError -> "ValueError" | TypeError -> "TypeError"
  | ParserError -> "ParserError" | AttributeError -> "AttributeError"
let show_state st =
  let p0 = (match st.stores with s :: _ -> s | [] -> []) in
  let vs = List.map (fun v ->
    Printf.sprintf "%d %s %s" (int_of_z v.v_start)
      (match v.v_stop with None -> "N" | Some e -> string_of_int (int_of_z e))
      (match z_read st v with Ok l -> "[" ^ show_list l ^ "]" | Exn _ -> "EXC" | Resource -> "RES")) st.views in
  "[" ^ show_list p0 ^ "] | " ^ String.concat " / " vs

let () = iter_lines (fun line ->
  match ints_of_line line with
  | n0 :: nacts :: rest ->
    let items = List.init n0 (fun i -> z_of_int i) in
    let st = ref (z_init items) in
    let plain = ref items in
    let cur = ref rest in
    let next () = match !cur with x :: t -> cur := t; x | [] -> failwith "short line" in
    let nexts n = List.init n (fun _ -> z_of_int (next ())) in
    let out = Buffer.create 256 in
    for _ = 1 to nacts do
      let tgt = next () in
      let opc = next () in
      let record s = Buffer.add_string out s; Buffer.add_string out " ; " in
      if opc = 15 then begin
        let lo = opt (next ()) in let hi = opt (next ()) in
        if tgt = -2 then record ("slice [" ^ show_list (z_list_getslice !plain lo hi) ^ "]")
        else begin
          let t = if tgt < 0 then Parent else View (nat_of_int tgt) in
          match z_sl_getslice !st t lo hi with
          | Ok (st', k) -> st := st'; record ("view " ^ string_of_int (int_of_nat k) ^ " | " ^ show_state !st)
          | Exn e -> record ("exc " ^ show_exn e ^ " | " ^ show_state !st)
          | Resource -> record "RES"
        end
      end else begin
        let o = match opc with
          | 0 -> LAppend (z_of_int (next ()))
          | 1 -> let n = next () in LExtend (nexts n)
          | 2 -> let n = next () in LIAdd (nexts n)
          | 3 -> let i = next () in LInsert (z_of_int i, z_of_int (next ()))
          | 4 -> LPop (opt (next ()))
          | 5 -> LRemove (z_of_int (next ()))
          | 6 -> LGetItem (z_of_int (next ()))
          | 7 -> let i = next () in LSetItem (z_of_int i, z_of_int (next ()))
          | 8 -> LDelItem (z_of_int (next ()))
          | 9 -> let lo = opt (next ()) in let hi = opt (next ()) in let n = next () in LSetSlice (lo, hi, nexts n)
          | 10 -> let lo = opt (next ()) in let hi = opt (next ()) in LDelSlice (lo, hi)
          | 11 -> LReverse | 12 -> LSort
          | 13 -> LIndex (z_of_int (next ()))
          | 14 -> LLen
          | _ -> failwith "opcode" in
        if tgt = -2 then begin
          match z_list_step !plain o with
          | Ok (l, r) -> plain := l; record (show_rv r ^ " | [" ^ show_list l ^ "]")
          | Exn e -> record ("exc " ^ show_exn e ^ " | [" ^ show_list !plain ^ "]")
          | Resource -> record "RES"
        end else begin
          let t = if tgt < 0 then Parent else View (nat_of_int tgt) in
          match z_sl_step !st t o with
          | Ok (st', r) -> st := st'; record (show_rv r ^ " | " ^ show_state !st)
          | Exn e -> record ("exc " ^ show_exn e ^ " | " ^ show_state !st)
          | Resource -> record "RES"
        end
      end
    done;
    print_endline (Buffer.contents out)
  | _ -> print_endline "")
