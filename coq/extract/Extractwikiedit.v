From Coq Require Import Extraction ExtrOcamlBasic ZArith List.
From MW Require Import PyBase PyList SmartList WikiEdit.
Import ListNotations.
Definition idsort (l : list Z) : list Z := l.
Definition z_wc_step := @wc_step Z Z.eqb idsort.
Definition z_getslice := @sl_getslice Z.
Definition z_read := @V_read Z.
Definition z_init := @init Z.
Extraction "wikiedit_model.ml" Z.succ N.succ Nat.succ z_wc_step z_getslice z_read z_init.
