From Coq Require Import Extraction ExtrOcamlBasic ZArith List.
From MW Require Import PyBase PyList SmartList.
Import ListNotations.

(* instance used by the correspondence: elements are integers, sort = insertion sort *)
Fixpoint zinsert (x : Z) (l : list Z) : list Z :=
  match l with [] => [x] | y :: t => if Z.leb x y then x :: l else y :: zinsert x t end.
Definition zsort (l : list Z) : list Z := fold_right zinsert [] l.

Definition z_sl_step := @sl_step Z Z.eqb zsort.
Definition z_sl_getslice := @sl_getslice Z.
Definition z_read := @V_read Z.
Definition z_init := @init Z.
Definition z_list_step := @list_step Z Z.eqb zsort.
Definition z_list_getslice := @list_getslice Z.

Extraction "smartlist_model.ml" Z.succ N.succ Nat.succ z_sl_step z_sl_getslice z_read z_init z_list_step z_list_getslice.
