(* line: c nent ent.. nitems item*    item: 0 n codes.. (text) | 1 n codes.. (closed) | 2 npre pre.. nchildren (nitems item* ntail tail..)*
   out: open_renders flag, '|', code points of the escaped value's rendering, comma separated ("-" when empty) *)
let () = iter_lines (fun line ->
  match ints_of_line line with
  | c :: rest ->
    let cur = ref rest in
    let next () = match !cur with x :: t -> cur := t; x | [] -> failwith "short line" in
    let codes () = let n = next () in List.init n (fun _ -> n_of_int (next ())) in
    let ent = codes () in
    let rec items () = let n = next () in List.init n (fun _ -> item ())
    and item () = match next () with
      | 0 -> IText (codes ())
      | 1 -> IClosed (codes ())
      | _ -> let pre = codes () in
             let nch = next () in
             IOpen (pre, List.init nch (fun _ -> let its = items () in let tl = codes () in (its, tl))) in
    let v = items () in
    let r = n_escape (n_of_int c) ent v in
    print_endline ((if n_open_renders (n_of_int c) v then "1|" else "0|") ^
                   (if r = [] then "-" else String.concat "," (List.map (fun x -> string_of_int (int_of_n x)) r)))
  | [] -> print_endline "")
