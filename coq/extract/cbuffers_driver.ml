(* line: nops (0 w c | 1 | 2 | 3 w | 4 n | 5 w)*   (write / concat / reverse / reset / truncate / render)
   out: after each op "capA lenA capB lenB," ... then " | contentsA | contentsB";  "OOB k" if op k leaves the memory
   a line starting with -1: entity loop on the remaining characters: prints the final text cells or OOB *)
let () = iter_lines (fun line ->
  match ints_of_line line with
  | -1 :: cs ->
    (match c_entity (List.map n_of_int cs) with
     | Some t -> print_endline (String.concat " " (List.map (fun c -> string_of_int (int_of_n c)) t))
     | None -> print_endline "OOB")
  | nops :: rest ->
    let cur = ref rest in
    let next () = match !cur with x :: t -> cur := t; x | [] -> failwith "short line" in
    let st = ref (Some c_start) in
    let b = Buffer.create 256 in
    let failed = ref (-1) in
    for k = 0 to nops - 1 do
      let o = (match next () with
               | 0 -> let w = next () in let c = next () in OWrite (w <> 0, n_of_int c)
               | 1 -> OConcat
               | 2 -> OReverse
               | 3 -> let w = next () in OReset (w <> 0)
               | 4 -> let n = next () in OTruncate (nat_of_int n)
               | _ -> let w = next () in ORender (w <> 0)) in
      (match !st with
       | Some s ->
         (match c_step s o with
          | Some ((a, bb)) ->
            st := Some ((a, bb));
            Buffer.add_string b (Printf.sprintf "%d %d %d %d," (int_of_nat a.cap) (int_of_nat a.len) (int_of_nat bb.cap) (int_of_nat bb.len))
          | None -> st := None; failed := k)
       | None -> ())
    done;
    (match !st with
     | Some ((a, bb)) ->
       let show t = String.concat " " (List.map (fun c -> string_of_int (int_of_n c)) (contents t)) in
       print_endline (Buffer.contents b ^ " | " ^ show a ^ " | " ^ show bb)
     | None -> print_endline (Printf.sprintf "OOB %d" !failed))
  | [] -> print_endline "")
