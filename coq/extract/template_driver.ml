(* line: nparams (name shown value)* nops (0 name value | 1 name keep)*
   names: positive = the number the (stripped) name denotes, negative = any other name
   out: after each op, "name:shown:value,..." separated by " ; " *)
let () = iter_lines (fun line ->
  match ints_of_line line with
  | np :: rest ->
    let cur = ref rest in
    let next () = match !cur with x :: t -> cur := t; x | [] -> failwith "short line" in
    let ps = ref (List.init np (fun _ -> let n = next () in let s = next () in let v = next () in
                                         { pn = z_of_int n; shown = (s <> 0); pv = z_of_int v })) in
    let nops = next () in
    let b = Buffer.create 128 in
    for _ = 1 to nops do
      let o = (match next () with
               | 0 -> let n = next () in let v = next () in OAdd (z_of_int n, z_of_int v)
               | _ -> let n = next () in let k = next () in ORemove (z_of_int n, k <> 0)) in
      ps := zstep !ps o;
      Buffer.add_string b (String.concat "," (List.map (fun p ->
        Printf.sprintf "%d:%d:%d" (int_of_z p.pn) (if p.shown then 1 else 0) (int_of_z p.pv)) !ps));
      Buffer.add_string b " ; "
    done;
    print_endline (Buffer.contents b)
  | [] -> print_endline "")
