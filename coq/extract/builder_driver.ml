(* line: ntokens (kind fields...)*     strings: len cp*, option strings: -1 | len cp*
   out : "ok <tree> | <rendered code points>"  or  "exc ParserError" / "exc other" / "resource" *)
let () = iter_lines (fun line ->
  let cur = ref (ints_of_line line) in
  let next () = match !cur with x :: t -> cur := t; x | [] -> failwith "short line" in
  let str () = let n = next () in List.init n (fun _ -> n_of_int (next ())) in
  let ostr () = let n = next () in if n < 0 then None else Some (List.init n (fun _ -> n_of_int (next ()))) in
  let bool () = next () <> 0 in
  let ntok = next () in
  let toks = List.init ntok (fun _ ->
    match next () with
    | 0 -> TText (str ())
    | 1 -> TTemplateOpen | 2 -> TTemplateParamSeparator | 3 -> TTemplateParamEquals | 4 -> TTemplateClose
    | 5 -> TArgumentOpen | 6 -> TArgumentSeparator | 7 -> TArgumentClose
    | 8 -> TWikilinkOpen | 9 -> TWikilinkSeparator | 10 -> TWikilinkClose
    | 11 -> TExternalLinkOpen (bool ()) | 12 -> TExternalLinkSeparator (bool ()) | 13 -> TExternalLinkClose
    | 14 -> THTMLEntityStart | 15 -> THTMLEntityNumeric | 16 -> THTMLEntityHex (str ()) | 17 -> THTMLEntityEnd
    | 18 -> THeadingStart (z_of_int (next ())) | 19 -> THeadingEnd
    | 20 -> TCommentStart | 21 -> TCommentEnd
    | 22 -> let wm = ostr () in TTagOpenOpen (wm, bool ())
    | 23 -> let a = str () in let b = str () in let c = str () in TTagAttrStart (a, b, c)
    | 24 -> TTagAttrEquals | 25 -> TTagAttrQuote (str ())
    | 26 -> let p = str () in TTagCloseOpen (p, ostr ())
    | 27 -> let p = str () in let i = bool () in TTagCloseSelfclose (p, i, ostr ())
    | 28 -> TTagOpenClose (ostr ())
    | 29 -> TTagCloseClose
    | _ -> failwith "token kind") in
  let b = Buffer.create 256 in
  let ps s = Buffer.add_string b s in
  let pstr s = ps (String.concat "." (List.map (fun c -> string_of_int (int_of_n c)) s)) in
  let postr = function None -> ps "~" | Some s -> ps "'"; pstr s in
  let pb x = ps (if x then "1" else "0") in
  let rec pnode = function
    | NText v -> ps "T("; pstr v; ps ")"
    | NComment c -> ps "C("; pstr c; ps ")"
    | NHeading (t, l) -> ps "H("; ps (string_of_int (int_of_z l)); ps ";"; pcode t; ps ")"
    | NWikilink (t, x) -> ps "W("; pcode t; ps ";"; pocode x; ps ")"
    | NArgument (n, d) -> ps "A("; pcode n; ps ";"; pocode d; ps ")"
    | NExtLink (u, t, br, sp) -> ps "E("; pcode u; ps ";"; pocode t; ps ";"; pb br; pb sp; ps ")"
    | NEntity (v, n, h, c) -> ps "N("; pstr v; ps ";"; pb n; pb h; ps ";"; pstr c; ps ")"
    | NTemplate (n, ps_) -> ps "P("; pcode n; List.iter (fun ((k, v), sk) -> ps ";"; pcode k; ps "="; pcode v; ps ":"; pb sk) ps_; ps ")"
    | NTag (tg, ct, at, wm, sc, inv, imp, pad, clt, sep, cwm) ->
      ps "G("; pcode tg; ps ";"; pcode ct; ps ";";
      List.iter (fun (((n, v), q), ((pf, pbe), pa)) -> ps "{"; pcode n; ps ";"; pocode v; ps ";"; postr q; ps ";"; pstr pf; ps ";"; pstr pbe; ps ";"; pstr pa; ps "}") at;
      ps ";"; postr wm; ps ";"; pb sc; pb inv; pb imp; ps ";"; pstr pad; ps ";"; pcode clt; ps ";"; postr sep; ps ";"; postr cwm; ps ")"
  and pcode c = ps "["; List.iter pnode c; ps "]"
  and pocode = function None -> ps "~" | Some c -> pcode c in
  (match build toks with
   | Ok c -> ps "ok "; pcode c; ps " | "; pstr (str_code c);
       let fl = fl_code c in
       ps (Printf.sprintf " | img=%d rb=%d wf=%d"
             (if List.map erase fl = List.map erase toks then 1 else 0)
             (if build fl = Ok c then 1 else 0) (if wf_codeb c then 1 else 0))
   | Exn ParserError -> ps "exc ParserError"
   | Exn _ -> ps "exc other"
   | Resource -> ps "resource");
  print_endline (Buffer.contents b))
