(* A first fragment of the TOKENIZER inside the model: the tokenizers' behaviour on the sub-language
   whose only markers are '=' and '\n' (every other character a non-marker), i.e. plain text and
   section headings.  Follows tokenizer.py  _parse (the '=' / '\n' branches), _parse_heading,
   _handle_heading_end (with the _can_recurse guard), _emit_text / _push_textbuffer / _emit_all, and
   the same functions of tok_parse.c.

   On this alphabet no (head, context) pair is pushed twice, so the bad-route memo plays no part.

   - a line is examined for a heading only at its start (previous chunk is '\n' or START);
   - `span_eq` is the `while self._read() == "="` loop of _parse_heading (best = a);
   - `segs` cuts the rest of the line at its '=' runs: (t0,b1) (t1,b2) ... and the trailing text;
   - `hb depth cur ss` is _parse(HEADING_LEVEL_cur) on one stack: text t, then at a run of b '='
     _handle_heading_end: level = min(cur, min(b, 6)); unless the depth limit is reached the rest is
     parsed recursively on a NEW stack (depth + 1); BadRoute (None: '\n' or end of input reached in
     heading context) makes this run the end of the heading, else the run is title text;
   - `merge` is the text buffer: text pieces accumulate and are flushed as ONE Text token before a
     non-text token, never when empty.                                                              *)
From Coq Require Import List NArith ZArith Arith Bool.
From MW Require Import PyBase Nodes Flatten.
Import ListNotations.

Definition is_eq (c : N) : bool := N.eqb c 61%N.
Definition is_nl (c : N) : bool := N.eqb c 10%N.
Definition eqs (n : nat) : str := repeat_str s_eq n.

Fixpoint span_eq (l : str) : nat * str :=
  match l with
  | c :: t => if is_eq c then (let '(n, r) := span_eq t in (S n, r)) else (O, l)
  | [] => (O, [])
  end.

Definition seg := (str * nat)%type.

Fixpoint segs (r : str) : list seg * str :=
  match r with
  | [] => ([], [])
  | c :: r' =>
      let '(ss, tl) := segs r' in
      if is_eq c then
        match ss with
        | ([], b) :: ss' => (([], S b) :: ss', tl)
        | _ => (([], 1) :: ss, tl)
        end
      else
        match ss with
        | (t, b) :: ss' => ((c :: t, b) :: ss', tl)
        | [] => ([], c :: tl)
        end
  end.

Fixpoint unsegs (ss : list seg) (tl : str) : str :=
  match ss with
  | [] => tl
  | (t, b) :: ss' => t ++ eqs b ++ unsegs ss' tl
  end.

(* title text, level, segments left after the heading *)
Fixpoint hb (md depth cur : nat) (ss : list seg) : option (str * nat * list seg) :=
  match ss with
  | [] => None
  | (t, b) :: ss' =>
      let level := Nat.min cur (Nat.min b 6) in
      match (if depth <? md then hb md (S depth) cur ss' else None) with
      | None => Some (t ++ eqs (b - level), level, ss')
      | Some (after, al, rest) => Some (t ++ eqs b ++ after, al, rest)
      end
  end.

Inductive piece := PT (s : str) | PH (title : str) (level : nat).

(* one line, examined at depth 1 (the stack of Tokenizer.tokenize's own _parse) *)
Definition tok_line (md : nat) (line : str) : list piece :=
  let '(a, r) := span_eq line in
  match a with
  | O => [PT line]
  | S _ =>
      let '(ss, tl) := segs r in
      match hb md 2 (Nat.min a 6) ss with
      | None => [PT line]
      | Some (title, l, rest) => [PH (eqs (a - l) ++ title) l; PT (unsegs rest tl)]
      end
  end.

Fixpoint lines (s : str) : list str :=
  match s with
  | [] => [[]]
  | c :: t =>
      if is_nl c then [] :: lines t
      else match lines t with l :: ls => (c :: l) :: ls | [] => [[c]] end
  end.

Fixpoint join_lines (md : nat) (ls : list str) : list piece :=
  match ls with
  | [] => []
  | [l] => tok_line md l
  | l :: rest => tok_line md l ++ PT [10%N] :: join_lines md rest
  end.

Definition flush (acc : str) : code := match acc with [] => [] | _ => [NText acc] end.

Fixpoint merge (acc : str) (ps : list piece) : code :=
  match ps with
  | [] => flush acc
  | PT s :: t => merge (acc ++ s) t
  | PH title l :: t => flush acc ++ NHeading (flush title) (Z.of_nat l) :: merge [] t
  end.

Definition frag_nodes (md : nat) (s : str) : code := merge [] (join_lines md (lines s)).
Definition frag_tokens (md : nat) (s : str) : list token := fl_code (frag_nodes md s).

(* the sub-language: '=' , '\n' and non-markers (markers: gen/Tables.v, regenerated from both sources) *)
Definition in_fragment (markers : list N) (s : str) : bool :=
  forallb (fun c => is_eq c || is_nl c || negb (existsb (N.eqb c) markers)) s.
