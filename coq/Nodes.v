(* Tokens (parser/tokens.py) and the node tree (nodes/*.py, nodes/extras/*.py) with rendering
   (__str__).  A Wikicode is its node list.  Constructors' normalisations (Tag.__init__ and its
   setters: `x or ""`, `str(v) if v else None`, closing_tag defaulting to tag) are in mk_tag. *)
From MW Require Import PyBase.

Inductive token :=
| TText (s : str)
| TTemplateOpen | TTemplateParamSeparator | TTemplateParamEquals | TTemplateClose
| TArgumentOpen | TArgumentSeparator | TArgumentClose
| TWikilinkOpen | TWikilinkSeparator | TWikilinkClose
| TExternalLinkOpen (brackets : bool) | TExternalLinkSeparator (suppress_space : bool) | TExternalLinkClose
| THTMLEntityStart | THTMLEntityNumeric | THTMLEntityHex (c : str) | THTMLEntityEnd
| THeadingStart (level : Z) | THeadingEnd
| TCommentStart | TCommentEnd
| TTagOpenOpen (wiki_markup : option str) (invalid : bool)
| TTagAttrStart (pad_first pad_before_eq pad_after_eq : str)
| TTagAttrEquals | TTagAttrQuote (c : str)
| TTagCloseOpen (padding : str) (wiki_markup : option str)
| TTagCloseSelfclose (padding : str) (implicit : bool) (wiki_markup : option str)
| TTagOpenClose (wiki_markup : option str)
| TTagCloseClose.

Inductive node :=
| NText (v : str)
| NComment (c : str)
| NHeading (title : list node) (level : Z)
| NWikilink (title : list node) (text : option (list node))
| NArgument (name : list node) (default : option (list node))
| NExtLink (url : list node) (title : option (list node)) (brackets suppress_space : bool)
| NEntity (value : str) (named hexadecimal : bool) (hex_char : str)
| NTemplate (name : list node) (params : list (list node * list node * bool))
| NTag (tag : list node) (contents : list node)
       (attrs : list (list node * option (list node) * option str * (str * str * str)))
       (wiki_markup : option str) (self_closing invalid implicit : bool) (padding : str)
       (closing_tag : list node) (wiki_style_separator closing_wiki_markup : option str).

Definition code := list node.
Definition param := (code * code * bool)%type.                 (* name, value, showkey *)
Definition attr := (code * option code * option str * (str * str * str))%type.
   (* name, value, quotes, (pad_first, pad_before_eq, pad_after_eq) *)

(* ASCII spellings *)
Definition ch (n : N) : str := [n].
Definition s_lbrace2 : str := [123; 123]%N.       Definition s_rbrace2 : str := [125; 125]%N.
Definition s_lbrace3 : str := [123; 123; 123]%N.  Definition s_rbrace3 : str := [125; 125; 125]%N.
Definition s_lbrack2 : str := [91; 91]%N.         Definition s_rbrack2 : str := [93; 93]%N.
Definition s_pipe : str := [124]%N.               Definition s_eq : str := [61]%N.
Definition s_lbrack : str := [91]%N.              Definition s_rbrack : str := [93]%N.
Definition s_space : str := [32]%N.
Definition s_comment_open : str := [60; 33; 45; 45]%N.   Definition s_comment_close : str := [45; 45; 62]%N.
Definition s_amp : str := [38]%N.  Definition s_amp_hash : str := [38; 35]%N.  Definition s_semi : str := [59]%N.
Definition s_lt : str := [60]%N.   Definition s_lt_slash : str := [60; 47]%N.
Definition s_gt : str := [62]%N.   Definition s_slash_gt : str := [47; 62]%N.

Definition opt_str (o : option str) : str := match o with Some s => s | None => [] end.
(* Python truthiness of an optional string:  `x or ""`, `str(v) if v else None` *)
Definition norm_opt (o : option str) : option str :=
  match o with Some [] => None | _ => o end.

Fixpoint repeat_str (s : str) (n : nat) : str :=
  match n with O => [] | S k => s ++ repeat_str s k end.

(* rendering of parameters / attributes, parametrised by the rendering of a Wikicode *)
Section With.
Variable sc : list node -> str.
Definition str_param_with (p : list node * list node * bool) : str :=
  let '(k, v, showkey) := p in if showkey then sc k ++ s_eq ++ sc v else sc v.
Fixpoint join_params_with (ps : list (list node * list node * bool)) : str :=
  match ps with
  | [] => []
  | p :: t => match t with [] => str_param_with p | _ => str_param_with p ++ s_pipe ++ join_params_with t end
  end.
Definition str_attr_with (a : list node * option (list node) * option str * (str * str * str)) : str :=
  let '(name, value, quotes, (pf, pb, pa)) := a in
  let result := pf ++ sc name ++ pb in
  match value with
  | Some v =>
      match norm_opt quotes with
      | Some q => result ++ s_eq ++ pa ++ q ++ sc v ++ q
      | None => result ++ s_eq ++ pa ++ sc v
      end
  | None => result
  end.
Fixpoint str_attrs_with (l : list (list node * option (list node) * option str * (str * str * str))) : str :=
  match l with [] => [] | a :: t => str_attr_with a ++ str_attrs_with t end.
End With.

Fixpoint str_node (n : node) : str :=
  let str_code := fix str_code (c : list node) : str :=
    match c with [] => [] | x :: t => str_node x ++ str_code t end in
  match n with
  | NText v => v
  | NComment c => s_comment_open ++ c ++ s_comment_close
  | NHeading title level =>
      repeat_str s_eq (Z.to_nat level) ++ str_code title ++ repeat_str s_eq (Z.to_nat level)
  | NWikilink title text =>
      match text with
      | Some t => s_lbrack2 ++ str_code title ++ s_pipe ++ str_code t ++ s_rbrack2
      | None => s_lbrack2 ++ str_code title ++ s_rbrack2
      end
  | NArgument name default =>
      match default with
      | Some d => s_lbrace3 ++ str_code name ++ s_pipe ++ str_code d ++ s_rbrace3
      | None => s_lbrace3 ++ str_code name ++ s_rbrace3
      end
  | NExtLink url title brackets suppress =>
      if brackets then
        match title with
        | Some t => if suppress then s_lbrack ++ str_code url ++ str_code t ++ s_rbrack
                    else s_lbrack ++ str_code url ++ s_space ++ str_code t ++ s_rbrack
        | None => s_lbrack ++ str_code url ++ s_rbrack
        end
      else str_code url
  | NEntity value named hexadecimal hex_char =>
      if named then s_amp ++ value ++ s_semi
      else if hexadecimal then s_amp_hash ++ hex_char ++ value ++ s_semi
      else s_amp_hash ++ value ++ s_semi
  | NTemplate name params =>
      match params with
      | [] => s_lbrace2 ++ str_code name ++ s_rbrace2
      | _ => s_lbrace2 ++ str_code name ++ s_pipe ++ join_params_with str_code params ++ s_rbrace2
      end
  | NTag tag contents attrs wiki_markup self_closing invalid implicit padding closing_tag sep cwm =>
      let str_attrs := str_attrs_with str_code in
      match norm_opt wiki_markup with
      | Some wm =>
          if self_closing then wm ++ str_attrs attrs ++ padding ++ opt_str sep
          else wm ++ str_attrs attrs ++ padding ++ opt_str sep ++ str_code contents ++ opt_str cwm
      | None =>
          let open := (if invalid then s_lt_slash else s_lt) ++ str_code tag ++ str_attrs attrs in
          if self_closing then open ++ padding ++ (if implicit then s_gt else s_slash_gt)
          else open ++ padding ++ s_gt ++ str_code contents ++ s_lt_slash ++ str_code closing_tag ++ s_gt
      end
  end.

Fixpoint str_code (c : code) : str :=
  match c with [] => [] | x :: t => str_node x ++ str_code t end.

(* Tag.__init__ as the Builder calls it *)
Definition mk_tag (tag : code) (contents : option code) (attrs : list attr) (wiki_markup : option str)
    (self_closing invalid implicit : bool) (padding : str) (closing_tag : option code)
    (sep cwm : option str) : node :=
  let wm := norm_opt wiki_markup in
  NTag tag (match contents with Some c => c | None => [] end) attrs wm self_closing invalid implicit padding
       (match closing_tag with Some c => c | None => tag end)
       (norm_opt sep)
       (match cwm with Some _ => norm_opt cwm | None => wm end).

(* canonical form (C14): no empty Text, no two adjacent Text nodes, in every node list *)
Definition is_text (n : node) : bool := match n with NText _ => true | _ => false end.
Definition is_ttext (t : token) : bool := match t with TText _ => true | _ => false end.
