(* Model of Wikicode.get_sections (src/mwparserfromhell/wikicode.py).
   The page is abstracted to its top-level node list: a heading carries its level
   and the verdict of the title matcher on it; every other node is [Ot].
   A section is a view (start, Some stop) = nodes[start:stop], or (start, None) =
   nodes[start:] (an open-ended SmartList view).
   This file contains executable definitions only; proofs are in SectionsProofs.v. *)
From MW Require Import PyBase.

Inductive item := Hd (lvl : Z) (m : bool) | Ot.

Record sopts := {
  o_levels : list Z;              (* levels=  ([] when None/empty) *)
  o_has_match : bool;             (* matches= given (truthy) *)
  o_flat : bool;
  o_include_lead : option bool;
  o_include_headings : bool }.

Definition sec := (nat * option nat)%type.
Definition entry := (nat * (Z * bool))%type.      (* start, heading level, matcher verdict *)

Definition mem_Z (x : Z) (l : list Z) : bool := existsb (Z.eqb x) l.

(* matcher = lambda heading: title_matcher(heading.title) and (not levels or heading.level in levels) *)
Definition matcher (o : sopts) (lvl : Z) (m : bool) : bool :=
  (if o_has_match o then m else true) &&
  (match o_levels o with [] => true | _ => mem_Z lvl (o_levels o) end).

(* include_lead or not (include_lead is not None or matches or levels) *)
Definition lead_cond (o : sopts) : bool :=
  match o_include_lead o with
  | Some b => b
  | None => negb (o_has_match o || match o_levels o with [] => false | _ => true end)
  end.

Fixpoint first_heading (p : list item) (i : nat) : option nat :=
  match p with
  | [] => None
  | Hd _ _ :: _ => Some i
  | Ot :: q => first_heading q (S i)
  end.

Definition lead (o : sopts) (p : list item) : list sec :=
  if lead_cond o then [(0%nat, first_heading p 0)] else [].

(* for j, (start, last_heading) in enumerate(open_headings):
       if heading.level <= last_heading.level: closed_start_index = j; break *)
Fixpoint closed_start_index (lvl : Z) (open : list entry) (j : nat) : nat :=
  match open with
  | [] => j
  | (_, (l, _)) :: rest => if (lvl <=? l)%Z then j else closed_start_index lvl rest (S j)
  end.

Definition close_secs (stop : option nat) (cl : list entry) : list sec :=
  flat_map (fun e : entry => if snd (snd e) then [(fst e, stop)] else []) cl.

Fixpoint loop (o : sopts) (p : list item) (i : nat) (open : list entry) (acc : list sec)
  : list sec :=
  match p with
  | [] => acc ++ close_secs None open
  | Ot :: q => loop o q (S i) open acc
  | Hd l m :: q =>
      let csi := if o_flat o then 0%nat else closed_start_index l open 0 in
      let newly := skipn csi open in
      let open' := firstn csi open in
      let acc' := acc ++ close_secs (Some i) newly in
      let start := if o_include_headings o then i else S i in
      loop o q (S i) (open' ++ [(start, (l, matcher o l m))]) acc'
  end.

(* sorted(sections): stable, keyed on the start index (see DESIGN C12 for ties). *)
Fixpoint insert_sec (x : sec) (l : list sec) : list sec :=
  match l with
  | [] => [x]
  | y :: ys => if (fst x <=? fst y)%nat then x :: y :: ys else y :: insert_sec x ys
  end.
Definition sort_secs (l : list sec) : list sec := fold_right insert_sec [] l.

Definition get_sections (o : sopts) (p : list item) : list sec :=
  sort_secs (loop o p 0 [] (lead o p)).

(* ---------- independent specification ---------- *)

(* The end of a section opened by a heading of level [lvl], looking at the rest [q] of
   the page (whose first element has index i): the next heading of the same or higher
   rank (any heading when flat); None = runs to the end of the page. *)
Fixpoint end_in (fl : bool) (q : list item) (i : nat) (lvl : Z) : option nat :=
  match q with
  | [] => None
  | Ot :: q' => end_in fl q' (S i) lvl
  | Hd l _ :: q' => if fl || (l <=? lvl)%Z then Some i else end_in fl q' (S i) lvl
  end.

Definition st (o : sopts) (i : nat) : nat := if o_include_headings o then i else S i.

Fixpoint spec_from (o : sopts) (q : list item) (i : nat) : list sec :=
  match q with
  | [] => []
  | Ot :: q' => spec_from o q' (S i)
  | Hd l m :: q' =>
      (if matcher o l m then [(st o i, end_in (o_flat o) q' (S i) l)] else [])
      ++ spec_from o q' (S i)
  end.

Definition spec_sections (o : sopts) (p : list item) : list sec :=
  lead o p ++ spec_from o p 0.

(* Rendering a section against a page. *)
Definition sec_slice {A} (p : list A) (s : sec) : list A :=
  match snd s with
  | Some e => slice p (fst s) e
  | None => skipn (fst s) p
  end.

Definition flat_all : sopts :=
  {| o_levels := []; o_has_match := false; o_flat := true;
     o_include_lead := None; o_include_headings := true |}.
