From MW Require Import ListAux PyBase Nodes Strip.

(* ---------------- subsequences ---------------- *)
Inductive subseq {A} : list A -> list A -> Prop :=
| sub_nil : subseq [] []
| sub_skip x a b : subseq a b -> subseq a (x :: b)
| sub_take x a b : subseq a b -> subseq (x :: a) (x :: b).

Lemma subseq_refl {A} (l : list A) : subseq l l.
Proof. induction l; [constructor|constructor 3; auto]. Qed.
Lemma subseq_nil_l {A} (l : list A) : subseq [] l.
Proof. induction l; [constructor|constructor 2; auto]. Qed.
Lemma subseq_app {A} (a b c d : list A) : subseq a b -> subseq c d -> subseq (a ++ c) (b ++ d).
Proof.
  induction 1 as [|x a b H IH|x a b H IH]; cbn; intros Hc; [exact Hc|constructor 2; auto|constructor 3; auto].
Qed.
Lemma subseq_trans {A} (a b c : list A) : subseq a b -> subseq b c -> subseq a c.
Proof.
  intros Hab Hbc. revert a Hab. induction Hbc as [|x b c Hbc IH|x b c Hbc IH]; intros a Hab.
  - exact Hab.
  - constructor 2. now apply IH.
  - inversion Hab; subst; [constructor 2; now apply IH|constructor 3; now apply IH].
Qed.
Lemma subseq_app_r {A} (a b p : list A) : subseq a b -> subseq a (p ++ b).
Proof. intros H. induction p; cbn; [exact H|constructor 2; exact IHp]. Qed.
Lemma subseq_app_l {A} (a b p : list A) : subseq a b -> subseq a (b ++ p).
Proof. intros H. rewrite <- (app_nil_r a). apply subseq_app; [exact H|apply subseq_nil_l]. Qed.
Lemma subseq_rev {A} (a b : list A) : subseq a b -> subseq (rev a) (rev b).
Proof.
  induction 1; cbn; [constructor| |].
  - now apply subseq_app_l.
  - apply subseq_app; [assumption|apply subseq_refl].
Qed.

(* ---------------- collapse only removes characters ---------------- *)
Lemma lstrip_nl_subseq s : subseq (lstrip_nl s) s.
Proof. induction s as [|c t IH]; cbn; [constructor|]. destruct (N.eqb c nl); [now constructor 2|apply subseq_refl]. Qed.

Lemma strip_nl_subseq s : subseq (strip_nl s) s.
Proof.
  unfold strip_nl. rewrite <- (rev_involutive s) at 2. apply subseq_rev.
  eapply subseq_trans; [apply lstrip_nl_subseq|]. apply subseq_rev. apply lstrip_nl_subseq.
Qed.

Lemma replace3_subseq fuel : forall s, subseq (replace3 fuel s) s.
Proof.
  induction fuel as [|f IH]; intros s; cbn [replace3]; [apply subseq_refl|].
  destruct s as [|a [|b [|c t]]]; try apply subseq_refl.
  destruct (N.eqb_spec a nl); cbn [andb].
  - destruct (N.eqb_spec b nl); cbn [andb].
    + destruct (N.eqb_spec c nl); cbn [andb].
      * subst. constructor 3. constructor 3. constructor 2. apply IH.
      * constructor 3. apply IH.
    + constructor 3. apply IH.
  - constructor 3. apply IH.
Qed.

Lemma collapse_loop_subseq fuel : forall s, subseq (collapse_loop fuel s) s.
Proof.
  induction fuel as [|f IH]; intros s; cbn [collapse_loop]; [apply subseq_refl|].
  destruct (has3 s); [|apply subseq_refl].
  eapply subseq_trans; [apply IH|apply replace3_subseq].
Qed.

Lemma collapse_subseq s : subseq (collapse_str s) s.
Proof.
  unfold collapse_str. eapply subseq_trans; [apply collapse_loop_subseq|apply strip_nl_subseq].
Qed.

(* ---------------- strip_code only removes characters ---------------- *)
Section P.
Variable invisible : str -> bool.
Variable entity_char : str -> bool -> bool -> res str.

Definition plain (o : sopts) : Prop := normalize o = false /\ keep_params o = false.

Lemma str_code_cons x t : str_code (x :: t) = str_node x ++ str_code t.
Proof. reflexivity. Qed.

Definition node_ok (o : sopts) (n : node) : Prop :=
  match strip_node invisible entity_char o n with
  | Ok (Some s) => subseq s (str_node n)
  | Ok None => True
  | _ => False
  end.

Lemma nonempty_subseq (a : option str) s : (match a with Some x => subseq x s | None => True end) ->
  subseq (concat (nonempty a)) s.
Proof.
  destruct a as [[|c t]|]; cbn; intros H; try apply subseq_nil_l. now rewrite app_nil_r.
Qed.

Lemma strip_nodes_ok o c : Forall (node_ok o) c ->
  exists s, strip_nodes invisible entity_char o c = Ok s /\ subseq s (str_code c).
Proof.
  induction 1 as [|x c Hx _ IH]; cbn [strip_nodes]; [exists []; split; [reflexivity|constructor]|].
  destruct IH as (s & -> & Hs). unfold node_ok in Hx. rewrite str_code_cons.
  destruct (strip_node invisible entity_char o x) as [[a|]| |]; try contradiction.
  - eexists. split; [reflexivity|]. apply subseq_app; [|exact Hs].
    apply nonempty_subseq. exact Hx.
  - eexists. split; [reflexivity|]. cbn [nonempty concat app]. now apply subseq_app_r.
Qed.

(* the finishing step of a nested strip_code call *)
Lemma finish_ok o c pre post :
  Forall (node_ok o) c ->
  match (match strip_nodes invisible entity_char o c with
         | Ok s => Ok (Some (if collapse o then collapse_str s else s))
         | Exn e => Exn e | Resource => Resource end) with
  | Ok (Some s) => subseq s (pre ++ str_code c ++ post)
  | Ok None => True
  | _ => False
  end.
Proof.
  intros H. destruct (strip_nodes_ok o c H) as (s & -> & Hs).
  apply subseq_app_r. apply subseq_app_l.
  destruct (collapse o); [eapply subseq_trans; [apply collapse_subseq|exact Hs]|exact Hs].
Qed.
End P.

From MW Require Import Builder Flatten BuilderProofs.

Section Main.
Variable invisible : str -> bool.
Variable entity_char : str -> bool -> bool -> res str.
Notation strip_node := (strip_node invisible entity_char).
Notation strip_nodes := (strip_nodes invisible entity_char).
Notation node_ok := (node_ok invisible entity_char).

Definition fin (o : sopts) (r : res str) : res (option str) :=
  match r with Ok s => Ok (Some (if collapse o then collapse_str s else s)) | Exn e => Exn e | Resource => Resource end.

(* equations: the nested fix is strip_nodes *)
Lemma sn_heading o t l : strip_node o (NHeading t l) = fin o (strip_nodes o t). Proof. reflexivity. Qed.
Lemma sn_wikilink o t x : strip_node o (NWikilink t x) = fin o (strip_nodes o (match x with Some y => y | None => t end)).
Proof. reflexivity. Qed.
Lemma sn_argument o nm d : strip_node o (NArgument nm (Some d)) = fin o (strip_nodes o d). Proof. reflexivity. Qed.
Lemma sn_extlink_t o u t sp : strip_node o (NExtLink u (Some t) true sp) =
  match str_code t with [] => Ok None | _ => fin o (strip_nodes o t) end. Proof. reflexivity. Qed.
Lemma sn_extlink_free o u t sp : strip_node o (NExtLink u t false sp) = fin o (strip_nodes o u). Proof. reflexivity. Qed.
Lemma sn_tag o tg ct ats wm sc inv imp pad clt sep cwm :
  strip_node o (NTag tg ct ats wm sc inv imp pad clt sep cwm) =
  match str_code ct with [] => Ok None | _ => if invisible (str_code tg) then Ok None else fin o (strip_nodes o ct) end.
Proof. reflexivity. Qed.

Lemma codes_node_ok o k c :
  (forall x, length (fl_node x) < k -> wf_node x -> node_ok o x) ->
  length (fl_code c) < k -> wf_code c -> Forall (node_ok o) c.
Proof.
  intros IH. induction c as [|x c IHc]; intros Hl Hwf; [constructor|].
  cbn [fl_code] in Hl. rewrite app_length in Hl. destruct Hwf as [Hx Hc].
  constructor; [apply IH; [lia|exact Hx]|apply IHc; [lia|exact Hc]].
Qed.

Lemma fin_subseq o c pre post :
  Forall (node_ok o) c ->
  match fin o (strip_nodes o c) with
  | Ok (Some s) => subseq s (pre ++ str_code c ++ post)
  | Ok None => True
  | _ => False
  end.
Proof. intros H. exact (finish_ok invisible entity_char o c pre post H). Qed.

Theorem strip_node_subseq o : plain o -> forall m n, length (fl_node n) <= m -> wf_node n -> node_ok o n.
Proof.
  intros [Hnorm Hkeep]. induction m as [m IHm] using lt_wf_ind. intros n Hm Hwf.
  assert (IH : forall x, length (fl_node x) < length (fl_node n) -> wf_node x -> node_ok o x)
    by (intros x Hx Hw; eapply IHm; [|reflexivity|exact Hw]; lia).
  clear IHm. unfold StripProofs.node_ok.
  destruct n as [v|c|title l|title [x|]|nm [d|]|u [t|] br sp|v nmd hx hc|nm ps|tg ct ats wm sc inv imp pad clt sep cwm].
  - cbn. apply subseq_refl.
  - cbn. exact I.
  - rewrite sn_heading. rewrite wf_heading in Hwf. rewrite fl_heading in IH.
    change (str_node (NHeading title l)) with (repeat_str s_eq (Z.to_nat l) ++ str_code title ++ repeat_str s_eq (Z.to_nat l)).
    apply fin_subseq. apply (codes_node_ok o _ _ IH); [lens; lia|exact Hwf].
  - rewrite sn_wikilink. rewrite wf_wikilink in Hwf. destruct Hwf as [_ Hw2]. rewrite fl_wikilink2 in IH.
    change (str_node (NWikilink title (Some x))) with (s_lbrack2 ++ str_code title ++ s_pipe ++ str_code x ++ s_rbrack2).
    rewrite !app_assoc. rewrite <- (app_assoc _ (str_code x)).
    apply fin_subseq. apply (codes_node_ok o _ _ IH); [lens; lia|exact Hw2].
  - rewrite sn_wikilink. rewrite wf_wikilink in Hwf. destruct Hwf as [Hw1 _]. rewrite fl_wikilink1 in IH.
    change (str_node (NWikilink title None)) with (s_lbrack2 ++ str_code title ++ s_rbrack2).
    apply fin_subseq. apply (codes_node_ok o _ _ IH); [lens; lia|exact Hw1].
  - rewrite sn_argument. rewrite wf_argument in Hwf. destruct Hwf as [_ Hw2]. rewrite fl_argument2 in IH.
    change (str_node (NArgument nm (Some d))) with (s_lbrace3 ++ str_code nm ++ s_pipe ++ str_code d ++ s_rbrace3).
    rewrite !app_assoc. rewrite <- (app_assoc _ (str_code d)).
    apply fin_subseq. apply (codes_node_ok o _ _ IH); [lens; lia|exact Hw2].
  - cbn. exact I.
  - rewrite wf_extlink in Hwf. destruct Hwf as (Hw1 & Hw2 & _). rewrite fl_extlink2 in IH. destruct br.
    + rewrite sn_extlink_t. destruct (str_code t) eqn:Et; [exact I|].
      assert (Hc : Forall (node_ok o) t) by (apply (codes_node_ok o _ _ IH); [lens; lia|exact Hw2]).
      destruct sp.
      * change (str_node (NExtLink u (Some t) true true)) with (s_lbrack ++ str_code u ++ str_code t ++ s_rbrack).
        rewrite !app_assoc. rewrite <- (app_assoc _ (str_code t)). now apply fin_subseq.
      * change (str_node (NExtLink u (Some t) true false)) with (s_lbrack ++ str_code u ++ s_space ++ str_code t ++ s_rbrack).
        rewrite !app_assoc. rewrite <- (app_assoc _ (str_code t)). now apply fin_subseq.
    + rewrite sn_extlink_free. change (str_node (NExtLink u (Some t) false sp)) with (str_code u).
      rewrite <- (app_nil_r (str_code u)). change (str_code u ++ []) with ([] ++ str_code u ++ []).
      apply fin_subseq. apply (codes_node_ok o _ _ IH); [lens; lia|exact Hw1].
  - rewrite wf_extlink in Hwf. destruct Hwf as (Hw1 & _ & _). rewrite fl_extlink1 in IH. destruct br.
    + cbn. exact I.
    + rewrite sn_extlink_free. change (str_node (NExtLink u None false sp)) with (str_code u).
      rewrite <- (app_nil_r (str_code u)). change (str_code u ++ []) with ([] ++ str_code u ++ []).
      apply fin_subseq. apply (codes_node_ok o _ _ IH); [lens; lia|exact Hw1].
  - cbn [Strip.strip_node]. rewrite Hnorm. apply subseq_refl.
  - cbn [Strip.strip_node]. rewrite Hkeep. exact I.
  - rewrite sn_tag. rewrite wf_tag in Hwf. destruct Hwf as (_ & Hwc & _ & _ & _ & Hsc & _). rewrite fl_tag in IH.
    destruct (str_code ct) eqn:Ect; [exact I|]. destruct (invisible (str_code tg)); [exact I|].
    destruct sc; [destruct Hsc as (-> & _); discriminate Ect|].
    assert (Hc : Forall (node_ok o) ct) by (apply (codes_node_ok o _ _ IH); [lens; lia|exact Hwc]).
    (* contents occur verbatim in the rendering, between a prefix and a suffix *)
    assert (Hstr : exists pre post, str_node (NTag tg ct ats wm false inv imp pad clt sep cwm) = pre ++ str_code ct ++ post).
    { cbn [str_node]. destruct (norm_opt wm).
      - match goal with |- exists pre post, ?a ++ ?b ++ ?c ++ ?d ++ ?m ++ ?e = _ => exists (a ++ b ++ c ++ d), e end.
        rewrite <- !app_assoc. reflexivity.
      - match goal with |- exists pre post, ?a ++ ?b ++ ?c ++ ?m ++ ?e = _ => exists (a ++ b ++ c), e end.
        rewrite <- !app_assoc. reflexivity. }
    destruct Hstr as (pre & post & ->). now apply fin_subseq.
Qed.

Theorem strip_code_subseq_lemma o c :
  plain o -> wf_code c ->
  exists s, strip_code invisible entity_char o c = Ok s /\ subseq s (str_code c).
Proof.
  intros Hp Hw. unfold strip_code.
  assert (Hall : Forall (node_ok o) c).
  { induction c as [|x c IH]; [constructor|]. destruct Hw as [Hx Hc].
    constructor; [apply (strip_node_subseq o Hp (length (fl_node x))); [lia|exact Hx]|now apply IH]. }
  destruct (strip_nodes_ok invisible entity_char o c Hall) as (s & -> & Hs).
  eexists. split; [reflexivity|].
  destruct (collapse o); [eapply subseq_trans; [apply collapse_subseq|exact Hs]|exact Hs].
Qed.
End Main.
