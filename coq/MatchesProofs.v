From MW Require Import ListAux PyBase Matches.

Section P.
Variable isspace : cp -> bool.
Variable upper : cp -> list cp.
Hypothesis space_is_space : isspace space = true.

Notation clean := (clean isspace upper).
Notation matches := (matches isspace upper).
Notation strip := (strip isspace).
Notation lstrip := (lstrip isspace).
Notation rstrip := (rstrip isspace).

Lemma str_eqb_spec a b : str_eqb a b = true <-> a = b.
Proof.
  unfold str_eqb. revert b. induction a as [|x a IH]; intros [|y b]; cbn [length combine forallb Nat.eqb andb].
  - split; reflexivity.
  - split; intros H; discriminate H.
  - split; intros H; discriminate H.
  - specialize (IH b). cbn [fst snd]. split.
    + intros H. apply andb_true_iff in H. destruct H as [Hl H]. apply andb_true_iff in H.
      destruct H as [Hx Hf]. apply N.eqb_eq in Hx. subst y. f_equal. apply IH.
      now rewrite Hl, Hf.
    + intros [= -> ->]. destruct IH as [_ IH]. specialize (IH eq_refl).
      apply andb_true_iff in IH. destruct IH as [Hl Hf]. now rewrite Hl, N.eqb_refl, Hf.
Qed.

Lemma matches_iff a b : matches a b = true <-> clean a = clean b.
Proof. unfold Matches.matches. apply str_eqb_spec. Qed.

Theorem matches_refl a : matches a a = true.
Proof. now apply matches_iff. Qed.

Theorem matches_sym a b : matches a b = matches b a.
Proof.
  destruct (matches a b) eqn:E1, (matches b a) eqn:E2; try reflexivity.
  - apply matches_iff in E1. symmetry in E1. apply matches_iff in E1. congruence.
  - apply matches_iff in E2. symmetry in E2. apply matches_iff in E2. congruence.
Qed.

Theorem matches_trans a b c : matches a b = true -> matches b c = true -> matches a c = true.
Proof. rewrite !matches_iff. congruence. Qed.

(* ---- surrounding whitespace ---- *)
Definition all_space (w : str) : Prop := Forall (fun c => isspace c = true) w.

Lemma lstrip_app_space w s : all_space w -> lstrip (w ++ s) = lstrip s.
Proof. induction 1 as [|c w Hc _ IH]; cbn; [reflexivity|]. now rewrite Hc. Qed.

Lemma lstrip_idem s : lstrip (lstrip s) = lstrip s.
Proof.
  induction s as [|c t IH]; cbn; [reflexivity|].
  destruct (isspace c) eqn:E; [exact IH|]. cbn. now rewrite E.
Qed.

Lemma all_space_rev w : all_space w -> all_space (rev w).
Proof. intros H. apply Forall_forall. intros x Hx. apply in_rev in Hx. revert x Hx. now apply Forall_forall. Qed.

Lemma all_space_us2sp w : all_space w -> all_space (us2sp w).
Proof.
  induction 1 as [|c w Hc _ IH]; cbn; constructor; auto.
  destruct (N.eqb c underscore); [exact space_is_space|exact Hc].
Qed.

Lemma rstrip_app_space s w : all_space w -> rstrip (s ++ w) = rstrip s.
Proof.
  intros H. unfold Matches.rstrip. rewrite rev_app_distr. now rewrite lstrip_app_space by now apply all_space_rev.
Qed.

(* lstrip of something that does not start with a space is the identity; needed to commute *)
Lemma lstrip_rstrip_comm s : lstrip (rstrip s) = rstrip (lstrip s).
Proof.
  (* both sides remove leading and trailing spaces; prove via a decomposition of s *)
  induction s as [|c t IH]; [reflexivity|].
  cbn [Matches.lstrip]. destruct (isspace c) eqn:E.
  - rewrite <- IH. unfold Matches.rstrip at 1. cbn [rev].
    (* rstrip (c :: t): if everything after is space, result empty; else c :: rstrip t *)
    destruct (lstrip (rev t)) as [|d u] eqn:Er.
    + (* t is all spaces *)
      assert (Hall : lstrip (rev t ++ [c]) = []).
      { clear IH. revert Er. generalize (rev t). induction l as [|x l IHl]; cbn.
        - now rewrite E.
        - destruct (isspace x); [exact IHl|discriminate]. }
      rewrite Hall. cbn. unfold Matches.rstrip. now rewrite Er.
    + assert (Hne : lstrip (rev t ++ [c]) = (d :: u) ++ [c]).
      { clear IH. revert Er. generalize (rev t). induction l as [|x l IHl]; cbn; [discriminate|].
        destruct (isspace x) eqn:Ex; [exact IHl|]. intros [= -> ->]. reflexivity. }
      rewrite Hne. rewrite rev_app_distr. cbn [rev app]. cbn [Matches.lstrip]. rewrite E.
      unfold Matches.rstrip. now rewrite Er.
  - unfold Matches.rstrip. cbn [rev].
    destruct (lstrip (rev t)) as [|d u] eqn:Er.
    + assert (Hall : lstrip (rev t ++ [c]) = [c]).
      { clear IH. revert Er. generalize (rev t). induction l as [|x l IHl]; cbn.
        - now rewrite E.
        - destruct (isspace x); [exact IHl|discriminate]. }
      rewrite Hall. cbn. now rewrite E.
    + assert (Hne : lstrip (rev t ++ [c]) = (d :: u) ++ [c]).
      { clear IH. revert Er. generalize (rev t). induction l as [|x l IHl]; cbn; [discriminate|].
        destruct (isspace x) eqn:Ex; [exact IHl|]. intros [= -> ->]. reflexivity. }
      rewrite Hne. rewrite rev_app_distr. cbn [rev app]. cbn [Matches.lstrip]. now rewrite E.
Qed.

Theorem strip_surrounding w1 s w2 : all_space w1 -> all_space w2 -> strip (w1 ++ s ++ w2) = strip s.
Proof.
  intros H1 H2. unfold Matches.strip. rewrite lstrip_app_space by assumption.
  rewrite <- !lstrip_rstrip_comm. now rewrite rstrip_app_space.
Qed.

Lemma us2sp_app a b : us2sp (a ++ b) = us2sp a ++ us2sp b.
Proof. unfold us2sp. apply map_app. Qed.

Theorem ws_insensitive_lemma w1 s w2 b :
  all_space w1 -> all_space w2 -> matches (w1 ++ s ++ w2) b = matches s b.
Proof.
  intros H1 H2. unfold Matches.matches, Matches.clean.
  rewrite !us2sp_app. now rewrite strip_surrounding by now apply all_space_us2sp.
Qed.

(* ---- underscores versus spaces ---- *)
Lemma us2sp_idem s : us2sp (us2sp s) = us2sp s.
Proof.
  unfold us2sp. rewrite map_map. apply map_ext. intros c.
  destruct (N.eqb c underscore) eqn:E; [reflexivity|]. now rewrite E.
Qed.

Definition sp2us (s : str) : str := map (fun c => if N.eqb c space then underscore else c) s.

Lemma us2sp_sp2us s : us2sp (sp2us s) = us2sp s.
Proof.
  unfold us2sp, sp2us. rewrite map_map. apply map_ext. intros c.
  destruct (N.eqb_spec c space) as [->|Hs]; [reflexivity|]. reflexivity.
Qed.

Theorem underscore_space_lemma s b :
  matches (us2sp s) b = matches s b /\ matches (sp2us s) b = matches s b.
Proof.
  unfold Matches.matches, Matches.clean. now rewrite us2sp_idem, us2sp_sp2us.
Qed.

(* ---- the first character's case ---- *)
Theorem first_case_lemma c c' t b :
  upper c = upper c' -> isspace c = false -> isspace c' = false ->
  c <> underscore -> c' <> underscore ->
  matches (c :: t) b = matches (c' :: t) b.
Proof.
  intros Hu Hc Hc' Hn Hn'. unfold Matches.matches, Matches.clean. cbn [us2sp map].
  apply N.eqb_neq in Hn. apply N.eqb_neq in Hn'. rewrite Hn, Hn'.
  unfold Matches.strip. cbn [Matches.lstrip]. rewrite Hc, Hc'.
  (* rstrip keeps a non-space head *)
  assert (Hr : forall x u, isspace x = false -> exists u', rstrip (x :: u) = x :: u' /\
                 forall y, isspace y = false -> rstrip (y :: u) = y :: u').
  { intros x u Hx. unfold Matches.rstrip. cbn [rev].
    destruct (lstrip (rev u)) as [|d w] eqn:Er.
    - exists []. split.
      + assert (H : lstrip (rev u ++ [x]) = [x]).
        { revert Er. generalize (rev u). induction l as [|z l IHl]; cbn; [now rewrite Hx|].
          destruct (isspace z); [exact IHl|discriminate]. }
        now rewrite H.
      + intros y Hy. assert (H : lstrip (rev u ++ [y]) = [y]).
        { revert Er. generalize (rev u). induction l as [|z l IHl]; cbn; [now rewrite Hy|].
          destruct (isspace z); [exact IHl|discriminate]. }
        now rewrite H.
    - exists (rev (d :: w)). split.
      + assert (H : lstrip (rev u ++ [x]) = (d :: w) ++ [x]).
        { revert Er. generalize (rev u). induction l as [|z l IHl]; cbn; [discriminate|].
          destruct (isspace z); [exact IHl|]. intros [= -> ->]. reflexivity. }
        rewrite H. now rewrite rev_app_distr.
      + intros y Hy. assert (H : lstrip (rev u ++ [y]) = (d :: w) ++ [y]).
        { revert Er. generalize (rev u). induction l as [|z l IHl]; cbn; [discriminate|].
          destruct (isspace z); [exact IHl|]. intros [= -> ->]. reflexivity. }
        rewrite H. now rewrite rev_app_distr. }
  fold (us2sp t). destruct (Hr c (us2sp t) Hc) as (u' & H1 & H2). rewrite H1, (H2 c' Hc').
  cbn [Matches.normalize]. now rewrite Hu.
Qed.

(* ---- exactness: nothing else is ignored ---- *)
Theorem otherwise_sensitive_lemma a b :
  matches a b = true <->
  Matches.normalize upper (strip (us2sp a)) = Matches.normalize upper (strip (us2sp b)).
Proof. apply matches_iff. Qed.

Theorem iterable_is_exists_lemma a bs :
  matches_any isspace upper a bs = true <-> exists b, In b bs /\ matches a b = true.
Proof. unfold matches_any. apply existsb_exists. Qed.

End P.
