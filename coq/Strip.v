(* Model of Wikicode.strip_code and the nodes' __strip__ (wikicode.py, nodes/*.py) and of
   navigation (__children__, Wikicode._get_children) over the tree of Nodes.v. *)
From MW Require Import PyBase Nodes.

Record sopts := { normalize : bool; collapse : bool; keep_params : bool }.

Section S.
Variable invisible : str -> bool.              (* tag.lower() in INVISIBLE_TAGS, on the rendered tag name *)
Variable entity_char : str -> bool -> bool -> res str.   (* HTMLEntity.normalize(): value named hexadecimal *)

Definition nl : cp := 10%N.

(* str.strip("\n") *)
Fixpoint lstrip_nl (s : str) : str :=
  match s with c :: t => if N.eqb c nl then lstrip_nl t else s | [] => [] end.
Definition strip_nl (s : str) : str := rev (lstrip_nl (rev (lstrip_nl s))).

(* one pass of s.replace("\n\n\n", "\n\n") (left to right, non-overlapping) *)
Fixpoint replace3 (fuel : nat) (s : str) : str :=
  match fuel with
  | O => s
  | S f =>
    match s with
    | a :: ((b :: c :: t) as rest) =>
        if N.eqb a nl && N.eqb b nl && N.eqb c nl then nl :: nl :: replace3 f t
        else a :: replace3 f rest
    | _ => s
    end
  end.
Fixpoint has3 (s : str) : bool :=
  match s with
  | a :: ((b :: c :: _) as rest) => (N.eqb a nl && N.eqb b nl && N.eqb c nl) || has3 rest
  | _ => false
  end.
(* while "\n\n\n" in s: s = s.replace(...) *)
Fixpoint collapse_loop (fuel : nat) (s : str) : str :=
  match fuel with
  | O => s
  | S f => if has3 s then collapse_loop f (replace3 (length s) s) else s
  end.
Definition collapse_str (s : str) : str :=
  let t := strip_nl s in collapse_loop (length t) t.

Definition nonempty (o : option str) : list str := match o with Some (c :: t) => [c :: t] | _ => [] end.

Fixpoint strip_node (o : sopts) (n : node) : res (option str) :=
  let strip_code := fix strip_code (c : list node) : res str :=
    match c with
    | [] => Ok []
    | x :: t => match strip_node o x, strip_code t with
                | Ok a, Ok b => Ok (concat (nonempty a) ++ b)
                | Exn e, _ | _, Exn e => Exn e
                | _, _ => Resource
                end
    end in
  let finish := fun (r : res str) => match r with
                 | Ok s => Ok (Some (if collapse o then collapse_str s else s))
                 | Exn e => Exn e | Resource => Resource end in
  match n with
  | NText v => Ok (Some v)
  | NComment _ => Ok None
  | NHeading title _ => finish (strip_code title)
  | NWikilink title text => finish (strip_code (match text with Some t => t | None => title end))
  | NArgument _ default => match default with Some d => finish (strip_code d) | None => Ok None end
  | NExtLink url title brackets _ =>
      if brackets then
        match title with
        | Some t => match str_code t with [] => Ok None | _ => finish (strip_code t) end   (* `if self.title:` *)
        | None => Ok None
        end
      else finish (strip_code url)
  | NEntity v named hexadecimal hc =>
      if normalize o then match entity_char v named hexadecimal with Ok s => Ok (Some s) | Exn e => Exn e | Resource => Resource end
      else Ok (Some (str_node n))
  | NTemplate _ params =>
      if keep_params o then
        (fix go (ps : list (list node * list node * bool)) (acc : list str) : res (option str) :=
           match ps with
           | [] => Ok (Some (match acc with [] => [] | a :: r => fold_left (fun s p => s ++ [32%N] ++ p) r a end))
           | (_, v, _) :: t => match finish (strip_code v) with
                               | Ok (Some (c :: s)) => go t (acc ++ [c :: s])
                               | Ok _ => go t acc
                               | Exn e => Exn e | Resource => Resource
                               end
           end) params []
      else Ok None
  | NTag tg contents _ _ _ _ _ _ _ _ _ =>
      match str_code contents with
      | [] => Ok None                                  (* `if self.contents` *)
      | _ => if invisible (str_code tg) then Ok None else finish (strip_code contents)
      end
  end.

Definition strip_nodes (o : sopts) : code -> res str :=
  fix strip_code (c : list node) : res str :=
    match c with
    | [] => Ok []
    | x :: t => match strip_node o x, strip_code t with
                | Ok a, Ok b => Ok (concat (nonempty a) ++ b)
                | Exn e, _ | _, Exn e => Exn e
                | _, _ => Resource
                end
    end.

Definition strip_code (o : sopts) (c : code) : res str :=
  match strip_nodes o c with
  | Ok s => Ok (if collapse o then collapse_str s else s)
  | Exn e => Exn e | Resource => Resource
  end.

End S.

(* ---- navigation ---- *)
Definition opt_code (o : option code) : list code := match o with Some c => [c] | None => [] end.
Definition is_none_s (o : option str) : bool := match o with None => true | Some _ => false end.

Definition children_of (n : node) : list code :=
  match n with
  | NText _ | NComment _ | NEntity _ _ _ _ => []
  | NHeading t _ => [t]
  | NWikilink t x => t :: opt_code x
  | NArgument nm d => nm :: opt_code d
  | NExtLink u t _ _ => u :: opt_code t
  | NTemplate nm ps => nm :: flat_map (fun p : param => let '(k, v, sk) := p in if sk then [k; v] else [v]) ps
  | NTag tg ct ats wm sc _ _ _ clt _ _ =>
      (if is_none_s (norm_opt wm) then [tg] else []) ++
      flat_map (fun a : attr => let '(nm, v, _, _) := a in nm :: opt_code v) ats ++
      (if sc then []
       else ct :: (if is_none_s (norm_opt wm) then match str_code clt with [] => [] | _ => [clt] end else []))
  end.

(* Wikicode._get_children: the node, then the descendants of every child Wikicode, in order *)
Fixpoint descend (n : node) : list node :=
  let dc := fix dc (c : list node) : list node := match c with [] => [] | x :: t => descend x ++ dc t end in
  let doc := fun (o : option (list node)) => match o with Some c => dc c | None => [] end in
  n :: match n with
       | NText _ | NComment _ | NEntity _ _ _ _ => []
       | NHeading t _ => dc t
       | NWikilink t x => dc t ++ doc x
       | NArgument nm d => dc nm ++ doc d
       | NExtLink u t _ _ => dc u ++ doc t
       | NTemplate nm ps =>
           dc nm ++ (fix go (l : list (list node * list node * bool)) : list node :=
                       match l with [] => [] | (k, v, sk) :: r => (if sk then dc k else []) ++ dc v ++ go r end) ps
       | NTag tg ct ats wm sc _ _ _ clt _ _ =>
           (if is_none_s (norm_opt wm) then dc tg else []) ++
           (fix go (l : list (list node * option (list node) * option str * (str * str * str))) : list node :=
              match l with [] => [] | (nm, v, _, _) :: r => dc nm ++ doc v ++ go r end) ats ++
           (if sc then []
            else dc ct ++ (if is_none_s (norm_opt wm) then match str_code clt with [] => [] | _ => dc clt end else []))
       end.
Fixpoint descend_code (c : code) : list node := match c with [] => [] | x :: t => descend x ++ descend_code t end.

(* the node with every Wikicode that __children__ does NOT yield replaced by an empty one *)
Definition prune (n : node) : node :=
  match n with
  | NTemplate nm ps => NTemplate nm (map (fun p : param => let '(k, v, sk) := p in ((if sk then k else []), v, sk)) ps)
  | NTag tg ct ats wm sc inv imp pad clt sep cwm =>
      let wiki := negb (is_none_s (norm_opt wm)) in
      NTag (if wiki then [] else tg) (if sc then [] else ct) ats wm sc inv imp pad
           (if sc || wiki then [] else clt) sep cwm
  | _ => n
  end.
