(* C17 model: pickling a page together with some of its views yields a disjoint copy of the
   stores and re-registered copies of those views (SmartList.__reduce_ex__ drops the registry and
   re-adds the items; ListProxy.__reduce_ex__/__setstate__ rebuild the proxy on the restored
   parent and register it).  Independence of original and copy is a frame property of sl_step. *)
From MW Require Import ListAux PyBase SliceLemmas PyList SmartList SmartListProofs.
Local Open Scope Z_scope.

Section Pk.
Context {A : Type}.
Variable eqb : A -> A -> bool.
Variable sortf : list A -> list A.
Hypothesis sortf_length : forall l, length (sortf l) = length l.
Notation sl := (@sl A).

Definition shift_store (n : nat) (v : view) : view :=
  {| v_store := n + v_store v; v_start := v_start v; v_stop := v_stop v |}.

Definition select (ks : list nat) (vs : list view) : list view :=
  flat_map (fun k => match nth_error vs k with Some v => [v] | None => [] end) ks.

Definition pickle_copy (st : sl) (ks : list nat) : sl :=
  {| stores := stores st ++ stores st;
     views := views st ++ map (shift_store (length (stores st))) (select ks (views st)) |}.

Lemma store_copy_old (st : sl) ks q : (q < length (stores st))%nat -> store (pickle_copy st ks) q = store st q.
Proof. intros H. unfold store, pickle_copy. cbn [stores]. now rewrite app_nth1. Qed.

Lemma store_copy_new (st : sl) ks q : store (pickle_copy st ks) (length (stores st) + q) = store st q.
Proof.
  unfold store, pickle_copy. cbn [stores]. rewrite app_nth2 by lia.
  f_equal. lia.
Qed.

Lemma select_in ks (vs : list view) v : In v (select ks vs) -> In v vs.
Proof.
  unfold select. rewrite in_flat_map. intros (k & _ & H).
  destruct (nth_error vs k) eqn:E; [|destruct H]. destruct H as [<-|[]]. eapply nth_error_In; eauto.
Qed.

Theorem copy_inv_lemma (st : sl) ks : views_inv st -> views_inv (pickle_copy st ks).
Proof.
  intros [Hne Hall]. split.
  - cbn [pickle_copy stores]. destruct (stores st); [contradiction|discriminate].
  - cbn [pickle_copy views]. apply Forall_app. rewrite Forall_forall in Hall. split.
    + apply Forall_forall. intros v Hv. destruct (Hall v Hv) as (Hst & Hse & He).
      unfold view_ok, V_stop. rewrite store_copy_old by assumption.
      cbn [pickle_copy stores]. rewrite app_length. split; [lia|]. exact (conj Hse He).
    + apply Forall_forall. intros v' Hv'. apply in_map_iff in Hv'. destruct Hv' as (v & <- & Hv).
      apply select_in in Hv. destruct (Hall v Hv) as (Hst & Hse & He).
      unfold view_ok, V_stop. cbn [shift_store v_store v_start v_stop].
      rewrite store_copy_new. cbn [pickle_copy stores]. rewrite app_length. split; [lia|].
      exact (conj Hse He).
Qed.

Theorem copy_render_lemma (st : sl) ks v :
  view_ok st v ->
  V_render (pickle_copy st ks) (shift_store (length (stores st)) v) = V_render st v /\
  V_render (pickle_copy st ks) v = V_render st v.
Proof.
  intros (Hst & _). unfold V_render, V_stop. cbn [shift_store v_store v_start v_stop].
  rewrite store_copy_new. now rewrite store_copy_old by assumption.
Qed.

(* ---- frame: an operation touches only the store of its target ---- *)
Definition target_store (st : sl) (t : target) : nat :=
  match t with
  | Parent => 0%nat
  | View k => match nth_error (views st) k with Some v => v_store v | None => 0%nat end
  end.

Lemma spliced_frame (st : sl) p a b new :
  (forall q, q <> p -> store (spliced st p a b new) q = store st q) /\
  (forall j w, nth_error (views st) j = Some w -> v_store w <> p ->
     nth_error (views (spliced st p a b new)) j = Some w /\
     V_render (spliced st p a b new) w = V_render st w).
Proof.
  split.
  - intros q Hq. apply store_spliced_other. congruence.
  - intros j w Hj Hw. split.
    + unfold spliced, set_store. cbn [views]. rewrite (nth_error_shift_children _ _ _ _ _ _ _ Hj).
      destruct (Nat.eqb_spec (v_store w) p); [contradiction|reflexivity].
    + unfold V_render, V_stop. now rewrite !store_spliced_other by congruence.
Qed.

Theorem step_frame_lemma (st st' : sl) t o r :
  views_inv st -> sl_step eqb sortf st t o = Ok (st', r) ->
  let p := target_store st t in
  (forall q, q <> p -> (q < length (stores st))%nat -> store st' q = store st q) /\
  (forall j w, nth_error (views st) j = Some w -> v_store w <> p ->
     nth_error (views st') j = Some w /\ V_render st' w = V_render st w).
Proof.
  intros Hinv Hstep. cbn zeta.
  destruct t as [|k]; cbn [sl_step target_store] in *.
  - rewrite parent_step_spec in Hstep. unfold parent_outcome in Hstep.
    assert (Hre : forall f, (forall l, length (f l) = length l) -> st' = P_reorder st 0%nat f ->
      (forall q, q <> 0%nat -> (q < length (stores st))%nat -> store st' q = store st q) /\
      (forall j w, nth_error (views st) j = Some w -> v_store w <> 0%nat ->
         nth_error (views st') j = Some w /\ V_render st' w = V_render st w)).
    { intros f Hf ->. unfold P_reorder.
      destruct (detach (views st) 0%nat (store st 0%nat) (length (stores st))) as [vs ns] eqn:E.
      destruct (detach_spec _ _ _ _ _ _ E) as [Hns Hvs].
      assert (Hstore : forall q, q <> 0%nat -> (q < length (stores st))%nat ->
                store {| stores := set_nth (stores st ++ ns) 0%nat (f (store st 0%nat)); views := vs |} q = store st q).
      { intros q Hq Hlt. unfold store. cbn [stores]. rewrite nth_set_nth_other by congruence.
        now rewrite app_nth1. }
      split; [exact Hstore|].
      intros j w Hj Hw. destruct (Forall2_nth_error _ _ _ _ _ Hvs Hj) as (w' & Hj' & Hs & He & Hcase).
      destruct Hcase as [[_ Heq]|[Heq _]]; [|contradiction].
      assert (w' = w) as -> by (destruct w, w'; cbn in *; congruence).
      cbn [views]. split; [exact Hj'|].
      pose proof (view_ok_of_inv _ _ _ Hinv Hj) as (Hlt & _).
      unfold V_render, V_stop. now rewrite Hstore by assumption. }
    destruct o; try (apply (Hre (@rev A) (@rev_length A)); congruence);
      try (apply (Hre sortf sortf_length); congruence);
      (destruct (list_splice eqb sortf (store st 0%nat) _) as [[[[a b] new] r']| |]; try discriminate;
       cbn [mutates] in Hstep; injection Hstep as <- <-;
       first [ destruct (spliced_frame st 0%nat a b new) as [H1 H2]; split; [intros q Hq _; now apply H1|exact H2]
             | split; [reflexivity|intros j w Hj _; auto] ]).
  - destruct (nth_error (views st) k) as [v|] eqn:Ev; [|discriminate].
    pose proof (view_ok_of_inv _ _ _ Hinv Ev) as Hok.
    rewrite view_step_spec in Hstep by assumption. unfold view_outcome in Hstep.
    destruct (list_splice eqb sortf (V_render st v) o) as [[[[a b] new] r']| |]; try discriminate.
    destruct (mutates o); injection Hstep as <- <-.
    + destruct (spliced_frame st (v_store v) (v_start v + a) (v_start v + b) new) as [H1 H2].
      split; [intros q Hq _; now apply H1|exact H2].
    + split; [reflexivity|intros j w Hj _; auto].
Qed.

End Pk.
