(* Model of SmartList / ListProxy (src/mwparserfromhell/smart_list/*.py), following the
   methods of the two classes call by call.  Index arithmetic is in Z, as in Python.
   A "store" is one SmartList object (its items); a view is a registered ListProxy
   (store, start, stop) with step 1; stop = None is an open-ended view.
   reverse()/sort() on a store detach its views: each gets a private copy (a new store).
   Executable definitions only; proofs are in SmartListProofs.v. *)
From MW Require Import PyBase PyList.
Local Open Scope Z_scope.

Section SL.
Context {A : Type}.
Variable eqb : A -> A -> bool.
Variable sortf : list A -> list A.

Record view := { v_store : nat; v_start : Z; v_stop : option Z }.
Record sl := { stores : list (list A); views : list view }.

Inductive target := Parent | View (k : nat).

Definition store (st : sl) (p : nat) : list A := nth p (stores st) [].

Fixpoint set_nth {B} (l : list B) (n : nat) (x : B) : list B :=
  match l, n with
  | [], _ => []
  | _ :: t, O => x :: t
  | y :: t, S n => y :: set_nth t n x
  end.

Definition set_store (st : sl) (p : nat) (items : list A) (vs : list view) : sl :=
  {| stores := set_nth (stores st) p items; views := vs |}.

(* ---- SmartList._shift_children(start, stop, size) ---- *)
Definition shift_view (a b size : Z) (v : view) : view :=
  let diff := size - (b - a) in
  let cs := v_start v in
  let cs' := if cs >? a then (if cs >=? b then cs + diff else a + size) else cs in
  let ce' := match v_stop v with
             | None => None
             | Some ce => Some (if ce >=? b then ce + diff else if ce >? a then a + size else ce)
             end in
  {| v_store := v_store v; v_start := cs'; v_stop := ce' |}.

Definition shift_children (vs : list view) (p : nat) (a b size : Z) : list view :=
  map (fun v => if Nat.eqb (v_store v) p then shift_view a b size v else v) vs.

(* ---- SmartList methods on store p ---- *)

(* __setitem__(slice(lo,hi), item): normalise first, splice, shift the children *)
Definition P_setslice (st : sl) (p : nat) (lo hi : option Z) (item : list A) : sl :=
  let P := store st p in
  let '(a, b) := slice_indices (zlen P) lo hi in
  set_store st p (zsplice P a b item) (shift_children (views st) p a b (zlen item)).

(* __delitem__(slice(lo,hi)) *)
Definition P_delslice (st : sl) (p : nat) (lo hi : option Z) : sl :=
  let P := store st p in
  let '(a, b) := slice_indices (zlen P) lo hi in
  set_store st p (zsplice P a b []) (shift_children (views st) p a b 0).

(* __setitem__(int) *)
Definition P_setitem (st : sl) (p : nat) (i : Z) (x : A) : res sl :=
  let P := store st p in
  match norm_index (zlen P) i with
  | None => Exn IndexError
  | Some j => Ok (set_store st p (zsplice P j (j + 1) [x]) (views st))
  end.

(* __delitem__(int): list deletion (IndexError first), key += len if negative, shift *)
Definition P_delitem (st : sl) (p : nat) (i : Z) : res sl :=
  let P := store st p in
  match norm_index (zlen P) i with
  | None => Exn IndexError
  | Some j => Ok (set_store st p (zsplice P j (j + 1) []) (shift_children (views st) p j (j + 1) 0))
  end.

(* __getitem__(int) *)
Definition P_getitem (st : sl) (p : nat) (i : Z) : res A :=
  let P := store st p in
  match norm_index (zlen P) i with
  | None => Exn IndexError
  | Some j => match znth P j with Some v => Ok v | None => Exn IndexError end
  end.

(* __getitem__(slice(lo,hi)): registers a new view; stop stays None when hi is None *)
Definition P_getslice (st : sl) (p : nat) (lo hi : option Z) : sl * nat :=
  let P := store st p in
  let '(a, b) := slice_indices (zlen P) lo hi in
  let v := {| v_store := p; v_start := a;
              v_stop := match hi with None => None | Some _ => Some b end |} in
  ({| stores := stores st; views := views st ++ [v] |}, length (views st)).

Definition P_insert (st : sl) (p : nat) (i : Z) (x : A) : sl :=
  P_setslice st p (Some i) (Some i) [x].

Definition P_extend (st : sl) (p : nat) (xs : list A) : sl :=
  let head := zlen (store st p) in P_setslice st p (Some head) (Some head) xs.

(* pop(index=None): index = len-1 if None; item = self[index]; del self[index] *)
Definition P_pop (st : sl) (p : nat) (i : option Z) : res (sl * A) :=
  let index := match i with None => zlen (store st p) - 1 | Some i => i end in
  bind (P_getitem st p index) (fun v =>
  bind (P_delitem st p index) (fun st' => Ok (st', v))).

(* remove(item): del self[self.index(item)] *)
Definition P_remove (st : sl) (p : nat) (x : A) : res sl :=
  match find_index eqb x (store st p) 0 with
  | None => Exn ValueError
  | Some j => P_delitem st p j
  end.

(* _detach_children: every view of store p gets a private SmartList copy *)
Fixpoint detach (vs : list view) (p : nat) (P : list A) (next : nat)
  : list view * list (list A) :=
  match vs with
  | [] => ([], [])
  | v :: t =>
      if Nat.eqb (v_store v) p then
        let '(t', ns) := detach t p P (S next) in
        ({| v_store := next; v_start := v_start v; v_stop := v_stop v |} :: t', P :: ns)
      else
        let '(t', ns) := detach t p P next in (v :: t', ns)
  end.

Definition P_reorder (st : sl) (p : nat) (f : list A -> list A) : sl :=
  let P := store st p in
  let '(vs, ns) := detach (views st) p P (length (stores st)) in
  {| stores := set_nth (stores st ++ ns) p (f P); views := vs |}.

(* ---- ListProxy ---- *)
Definition V_stop (st : sl) (v : view) : Z :=
  match v_stop v with None => zlen (store st (v_store v)) | Some e => e end.
Definition V_len (st : sl) (v : view) : Z := Z.max (V_stop st v - v_start v) 0.
(* _render: list(self._parent)[start:stop:1] *)
Definition V_render (st : sl) (v : view) : list A :=
  list_getslice (store st (v_store v)) (Some (v_start v)) (Some (V_stop st v)).

(* key normalisation shared by __setitem__/__delitem__(int) and pop *)
Definition V_key (st : sl) (v : view) (i : Z) : option Z :=
  let length := V_len st v in
  let key := if i <? 0 then length + i else i in
  if (key <? 0) || (key >=? length) then None else Some key.

(* the adjusted parent slice for __getitem__/__setitem__/__delitem__(slice) *)
Definition V_adjust (st : sl) (v : view) (lo hi : option Z) : Z * Z :=
  let '(ka, kb) := slice_indices (V_len st v) lo hi in
  (Z.min (v_start v + ka) (V_stop st v), Z.min (v_start v + kb) (V_stop st v)).

Definition ret (st : sl) : res (sl * @rv A) := Ok (st, RNone).

Definition view_step (st : sl) (v : view) (o : lop) : res (sl * @rv A) :=
  let p := v_store v in
  let s := v_start v in
  let stop := V_stop st v in
  match o with
  | LAppend x => ret (P_insert st p stop x)
  | LExtend xs | LIAdd xs => ret (P_setslice st p (Some stop) (Some stop) xs)
  | LInsert i x =>
      let length := V_len st v in
      let index := if i <? 0 then Z.max (length + i) 0 else i in
      ret (P_insert st p (s + Z.min index length) x)
  | LPop i =>
      let length := V_len st v in
      let index := match i with None => length - 1 | Some i => if i <? 0 then length + i else i end in
      if (index <? 0) || (index >=? length) then Exn IndexError
      else bind (P_pop st p (Some (s + index))) (fun '(st', x) => Ok (st', RVal x))
  | LRemove x =>
      match find_index eqb x (V_render st v) 0 with
      | None => Exn ValueError
      | Some j => bind (P_delitem st p (s + j)) ret
      end
  | LGetItem i =>
      let r := V_render st v in
      match norm_index (zlen r) i with
      | None => Exn IndexError
      | Some j => match znth r j with Some x => Ok (st, RVal x) | None => Exn IndexError end
      end
  | LSetItem i x =>
      match V_key st v i with
      | None => Exn IndexError
      | Some key => bind (P_setitem st p (s + key) x) ret
      end
  | LDelItem i =>
      match V_key st v i with
      | None => Exn IndexError
      | Some key => bind (P_delitem st p (s + key)) ret
      end
  | LSetSlice lo hi xs =>
      let '(a, b) := V_adjust st v lo hi in ret (P_setslice st p (Some a) (Some b) xs)
  | LDelSlice lo hi =>
      let '(a, b) := V_adjust st v lo hi in ret (P_delslice st p (Some a) (Some b))
  | LReverse => ret (P_setslice st p (Some s) (Some stop) (rev (V_render st v)))
  | LSort => ret (P_setslice st p (Some s) (Some stop) (sortf (V_render st v)))
  | LIndex x =>
      match find_index eqb x (V_render st v) 0 with
      | None => Exn ValueError
      | Some j => Ok (st, RInt j)
      end
  | LLen => Ok (st, RInt (V_len st v))
  end.

Definition parent_step (st : sl) (p : nat) (o : lop) : res (sl * @rv A) :=
  match o with
  | LAppend x => ret (P_extend st p [x])
  | LExtend xs | LIAdd xs => ret (P_extend st p xs)
  | LInsert i x => ret (P_insert st p i x)
  | LPop i => bind (P_pop st p i) (fun '(st', x) => Ok (st', RVal x))
  | LRemove x => bind (P_remove st p x) ret
  | LGetItem i => bind (P_getitem st p i) (fun x => Ok (st, RVal x))
  | LSetItem i x => bind (P_setitem st p i x) ret
  | LDelItem i => bind (P_delitem st p i) ret
  | LSetSlice lo hi xs => ret (P_setslice st p lo hi xs)
  | LDelSlice lo hi => ret (P_delslice st p lo hi)
  | LReverse => ret (P_reorder st p (@rev A))
  | LSort => ret (P_reorder st p sortf)
  | LIndex x =>
      match find_index eqb x (store st p) 0 with
      | None => Exn ValueError
      | Some j => Ok (st, RInt j)
      end
  | LLen => Ok (st, RInt (zlen (store st p)))
  end.

Definition sl_step (st : sl) (t : target) (o : lop) : res (sl * @rv A) :=
  match t with
  | Parent => parent_step st 0%nat o
  | View k =>
      match nth_error (views st) k with
      | Some v => view_step st v o
      | None => Exn TypeError      (* no such view: not a case of the property *)
      end
  end.

(* t[lo:hi]: a new registered view *)
Definition sl_getslice (st : sl) (t : target) (lo hi : option Z) : res (sl * nat) :=
  match t with
  | Parent => Ok (P_getslice st 0%nat lo hi)
  | View k =>
      match nth_error (views st) k with
      | Some v => let '(a, b) := V_adjust st v lo hi in Ok (P_getslice st (v_store v) (Some a) (Some b))
      | None => Exn TypeError
      end
  end.

(* Reading a view the way list(view) does (ListProxy.__iter__): parent[i] for i in
   [start, stop).  For bounds outside the parent the real code may raise IndexError;
   the model says "raises" for every such state (they are proved unreachable). *)
Definition V_read (st : sl) (v : view) : res (list A) :=
  let P := store st (v_store v) in
  let s := v_start v in let e := V_stop st v in
  if e <=? s then Ok []
  else if (0 <=? s) && (e <=? zlen P) then Ok (zslice P s e)
  else Exn IndexError.

Inductive act := AOp (t : target) (o : @lop A) | AGet (t : target) (lo hi : option Z).

Definition act_step (st : sl) (a : act) : sl :=
  match a with
  | AOp t o => match sl_step st t o with Ok (st', _) => st' | _ => st end
  | AGet t lo hi => match sl_getslice st t lo hi with Ok (st', _) => st' | _ => st end
  end.

Definition run (st : sl) (acts : list act) : sl := fold_left act_step acts st.

Definition init (items : list A) : sl := {| stores := [items]; views := [] |}.

End SL.

