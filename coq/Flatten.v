(* Tree -> token list: what a tokenizer must emit for the Builder to produce a given tree.
   [WF] states the normal forms the Builder's constructors establish. *)
From MW Require Import PyBase Nodes Builder.

Definition fl_comment_body (c : str) : list token := match c with [] => [] | _ => [TText c] end.

(* the wiki_markup attribute of the closing token: "" when the tree has no closing markup although
   the tag has wiki markup (table cells), absent when it is simply inherited / not wiki markup *)
Definition cwm_token (wm cwm : option str) : option str :=
  match cwm with
  | Some s => Some s
  | None => match wm with Some _ => Some [] | None => None end
  end.

Fixpoint fl_node (n : node) : list token :=
  let fl_code := fix fl_code (c : list node) : list token :=
    match c with [] => [] | x :: t => fl_node x ++ fl_code t end in
  match n with
  | NText v => [TText v]
  | NComment c => TCommentStart :: fl_comment_body c ++ [TCommentEnd]
  | NHeading title level => THeadingStart level :: fl_code title ++ [THeadingEnd]
  | NWikilink title None => TWikilinkOpen :: fl_code title ++ [TWikilinkClose]
  | NWikilink title (Some t) => TWikilinkOpen :: fl_code title ++ TWikilinkSeparator :: fl_code t ++ [TWikilinkClose]
  | NArgument name None => TArgumentOpen :: fl_code name ++ [TArgumentClose]
  | NArgument name (Some d) => TArgumentOpen :: fl_code name ++ TArgumentSeparator :: fl_code d ++ [TArgumentClose]
  | NExtLink url None br _ => TExternalLinkOpen br :: fl_code url ++ [TExternalLinkClose]
  | NExtLink url (Some t) br sp =>
      TExternalLinkOpen br :: fl_code url ++ TExternalLinkSeparator sp :: fl_code t ++ [TExternalLinkClose]
  | NEntity v named hexadecimal hc =>
      if named then [THTMLEntityStart; TText v; THTMLEntityEnd]
      else if hexadecimal then [THTMLEntityStart; THTMLEntityNumeric; THTMLEntityHex hc; TText v; THTMLEntityEnd]
      else [THTMLEntityStart; THTMLEntityNumeric; TText v; THTMLEntityEnd]
  | NTemplate name params =>
      TTemplateOpen :: fl_code name ++
      flat_map (fun p : list node * list node * bool =>
                  let '(k, v, showkey) := p in
                  TTemplateParamSeparator ::
                  (if showkey then fl_code k ++ [TTemplateParamEquals] else []) ++ fl_code v) params
      ++ [TTemplateClose]
  | NTag tg contents attrs wm self_closing invalid implicit padding closing_tag sep cwm =>
      TTagOpenOpen wm invalid :: fl_code tg ++
      flat_map (fun a : list node * option (list node) * option str * (str * str * str) =>
                  let '(nm, value, quotes, (pf, pb, pa)) := a in
                  TTagAttrStart pf pb pa ::
                  match value with
                  | Some v => fl_code nm ++ TTagAttrEquals ::
                              (match quotes with Some q => [TTagAttrQuote q] | None => [] end) ++ fl_code v
                  | None => fl_code nm
                  end) attrs
      ++ (if self_closing then [TTagCloseSelfclose padding implicit (cwm_token wm cwm)]
          else TTagCloseOpen padding sep :: fl_code contents ++ TTagOpenClose (cwm_token wm cwm) :: fl_code closing_tag
               ++ [TTagCloseClose])
  end.

Fixpoint fl_code (c : code) : list token :=
  match c with [] => [] | x :: t => fl_node x ++ fl_code t end.

Definition fl_param (p : param) : list token :=
  let '(k, v, showkey) := p in
  TTemplateParamSeparator :: (if showkey then fl_code k ++ [TTemplateParamEquals] else []) ++ fl_code v.

Definition fl_attr (a : attr) : list token :=
  let '(nm, value, quotes, (pf, pb, pa)) := a in
  TTagAttrStart pf pb pa ::
  match value with
  | Some v => fl_code nm ++ TTagAttrEquals :: (match quotes with Some q => [TTagAttrQuote q] | None => [] end) ++ fl_code v
  | None => fl_code nm
  end.

(* ---- well-formed trees: the normal forms of the Builder's output ---- *)

Fixpoint hidden_names_ok (params : list param) (default : N) : Prop :=
  match params with
  | [] => True
  | (k, _, showkey) :: t =>
      if showkey then hidden_names_ok t default
      else k = [NText (str_of_N default)] /\ hidden_names_ok t (default + 1)%N
  end.

Definition nonempty_opt (o : option str) : Prop := o <> Some [].

Fixpoint wf_node (n : node) : Prop :=
  let wf_code := fix wf_code (c : list node) : Prop :=
    match c with [] => True | x :: t => wf_node x /\ wf_code t end in
  let wf_ocode := fun (o : option (list node)) => match o with Some c => wf_code c | None => True end in
  match n with
  | NText _ => True
  | NComment _ => True
  | NHeading title _ => wf_code title
  | NWikilink title text => wf_code title /\ wf_ocode text
  | NArgument name default => wf_code name /\ wf_ocode default
  | NExtLink url title _ sp => wf_code url /\ wf_ocode title /\ (title = None -> sp = false)
  | NEntity _ named hexadecimal hc =>
      (named = true -> hexadecimal = false) /\ (hexadecimal = false -> hc = [120%N])
  | NTemplate name params =>
      wf_code name /\ hidden_names_ok params 1%N /\
      (fix wf_params (ps : list (list node * list node * bool)) : Prop :=
         match ps with [] => True | (k, v, _) :: t => wf_code k /\ wf_code v /\ wf_params t end) params
  | NTag tg contents attrs wm self_closing invalid implicit padding closing_tag sep cwm =>
      wf_code tg /\ wf_code contents /\ wf_code closing_tag /\
      nonempty_opt wm /\ nonempty_opt cwm /\
      (if self_closing then contents = [] /\ closing_tag = tg /\ sep = None
       else implicit = false /\ nonempty_opt sep) /\
      (fix wf_attrs (l : list (list node * option (list node) * option str * (str * str * str))) : Prop :=
         match l with
         | [] => True
         | (nm, value, quotes, _) :: t =>
             wf_code nm /\ wf_ocode value /\
             (match value with Some _ => str_code nm <> [] | None => quotes = None end) /\
             wf_attrs t
         end) attrs
  end.

Fixpoint wf_code (c : code) : Prop :=
  match c with [] => True | x :: t => wf_node x /\ wf_code t end.

(* ---- boolean mirror of wf (used to observe, in the correspondence, that the trees built from
   real token streams are well-formed; soundness: BuilderProofs.wf_codeb_sound) ---- *)
Definition str_eqb (a b : str) : bool :=
  Nat.eqb (length a) (length b) && forallb (fun p => N.eqb (fst p) (snd p)) (combine a b).
Definition is_none {A} (o : option A) : bool := match o with None => true | Some _ => false end.
Definition nonempty_optb (o : option str) : bool := match o with Some [] => false | _ => true end.

Fixpoint code_eqb_text (c : code) (s : str) : bool :=
  match c with [NText v] => str_eqb v s | _ => false end.

Fixpoint hidden_names_okb (params : list param) (default : N) : bool :=
  match params with
  | [] => true
  | (k, _, showkey) :: t =>
      if showkey then hidden_names_okb t default
      else code_eqb_text k (str_of_N default) && hidden_names_okb t (default + 1)%N
  end.

Fixpoint wf_nodeb (n : node) : bool :=
  let wf_codeb := fix wf_codeb (c : list node) : bool :=
    match c with [] => true | x :: t => wf_nodeb x && wf_codeb t end in
  let wf_ocodeb := fun (o : option (list node)) => match o with Some c => wf_codeb c | None => true end in
  match n with
  | NText _ | NComment _ => true
  | NHeading title _ => wf_codeb title
  | NWikilink title text => wf_codeb title && wf_ocodeb text
  | NArgument name default => wf_codeb name && wf_ocodeb default
  | NExtLink url title _ sp => wf_codeb url && wf_ocodeb title && (negb (is_none title) || negb sp)
  | NEntity _ named hexadecimal hc =>
      (negb named || negb hexadecimal) && (hexadecimal || str_eqb hc [120%N])
  | NTemplate name params =>
      wf_codeb name && hidden_names_okb params 1%N &&
      (fix wf_paramsb (ps : list (list node * list node * bool)) : bool :=
         match ps with [] => true | (k, v, _) :: t => wf_codeb k && wf_codeb v && wf_paramsb t end) params
  | NTag tg contents attrs wm self_closing invalid implicit padding closing_tag sep cwm =>
      wf_codeb tg && wf_codeb contents && wf_codeb closing_tag &&
      nonempty_optb wm && nonempty_optb cwm &&
      (if self_closing then
         match contents with [] => true | _ => false end && is_none sep
       else negb implicit && nonempty_optb sep) &&
      (fix wf_attrsb (l : list (list node * option (list node) * option str * (str * str * str))) : bool :=
         match l with
         | [] => true
         | (nm, value, quotes, _) :: t =>
             wf_codeb nm && wf_ocodeb value &&
             (match value with Some _ => negb (match str_code nm with [] => true | _ => false end) | None => is_none quotes end) &&
             wf_attrsb t
         end) attrs
  end.
Fixpoint wf_codeb (c : code) : bool :=
  match c with [] => true | x :: t => wf_nodeb x && wf_codeb t end.

(* token streams compared up to the wiki_markup of closing tokens (the tree inherits it from the opening token) *)
Definition erase (t : token) : token :=
  match t with
  | TTagCloseSelfclose p i _ => TTagCloseSelfclose p i None
  | TTagOpenClose _ => TTagOpenClose None
  | TTagOpenOpen wm inv => TTagOpenOpen (norm_opt wm) inv
  | TTagCloseOpen p sep => TTagCloseOpen p (norm_opt sep)
  | _ => t
  end.
