(* C08, string targets: what an edit at the exact matches of a string does to one node list. *)
From MW Require Import ListAux PyBase WeakSearch.

Section P.
Context {A : Type}.
Variable eqb : A -> A -> bool.

(* o is an occurrence of the pattern: same length, node for node equal (pattern node == list node) *)
Definition occurrence (pat o : list A) : Prop := Forall2 (fun a b => eqb a b = true) pat o.

(* l' is l with n disjoint occurrences of pat replaced, each by (h k occurrence) for some instance number k;
   every other node is kept, in order *)
Inductive Rep (pat : list A) (h : nat -> list A -> list A) : nat -> list A -> list A -> Prop :=
| Rep_same g : Rep pat h 0 g g
| Rep_occ o k out : occurrence pat o -> out = h k o -> Rep pat h 1 o out
| Rep_app n1 n2 a a' b b' : Rep pat h n1 a a' -> Rep pat h n2 b b' -> Rep pat h (n1 + n2) (a ++ b) (a' ++ b').

Lemma prefix_eqb_true (p : list A) : forall r, prefix_eqb eqb p r = true ->
  occurrence p (firstn (length p) r) /\ r = firstn (length p) r ++ skipn (length p) r.
Proof.
  induction p as [|a p IH]; intros r H; cbn [length firstn skipn]; [split; [constructor|reflexivity]|].
  destruct r as [|b r]; cbn [prefix_eqb] in H; [discriminate|].
  apply andb_true_iff in H. destruct H as [Hab H]. destruct (IH _ H) as [Ho Hr].
  cbn [firstn skipn]. split; [constructor; assumption|]. cbn [app]. now rewrite <- Hr.
Qed.

Lemma prefix_eqb_occ (p o b : list A) : occurrence p o -> prefix_eqb eqb p (o ++ b) = true.
Proof.
  intros H. induction H as [|x y p o Hxy H IH]; [reflexivity|]. cbn [app prefix_eqb]. now rewrite Hxy, IH.
Qed.

Section Scan.
Variable rp : list A.
Variable g : nat -> list A -> list A.
Hypothesis rp_nonempty : rp <> [].

Lemma scan_apply_rep : forall r skip k,
  Rep rp g (scan_count eqb rp r skip) (skipn skip r) (scan_apply eqb rp g r skip k).
Proof.
  induction r as [|x t IH]; intros skip k.
  - rewrite skipn_nil. cbn. constructor.
  - destruct skip as [|s]; cbn [scan_apply scan_count skipn]; [|apply IH].
    destruct (prefix_eqb eqb rp (x :: t)) eqn:E.
    + destruct (prefix_eqb_true _ _ E) as [Ho Hr].
      assert (Hm : exists m, length rp = S m) by (destruct rp; [congruence|cbn; eauto]).
      destruct Hm as [m Hm].
      assert (Hsk : skipn (length rp) (x :: t) = skipn (length rp - 1) t).
      { rewrite Hm. cbn [skipn]. f_equal. lia. }
      rewrite Hr at 1. rewrite Hsk.
      change (S (scan_count eqb rp t (length rp - 1))) with (1 + scan_count eqb rp t (length rp - 1)).
      apply Rep_app; [|apply IH]. eapply Rep_occ; [exact Ho|reflexivity].
    + change (x :: t) with ([x] ++ t) at 1. change (x :: scan_apply eqb rp g t 0 k) with ([x] ++ scan_apply eqb rp g t 0 k).
      change (scan_count eqb rp t 0) with (0 + scan_count eqb rp t 0).
      apply Rep_app; [constructor|]. exact (IH 0 k).
Qed.

(* nothing recorded -> the pattern occurs nowhere at or after position skip *)
Lemma scan_count_zero : forall r skip, scan_count eqb rp r skip = 0 ->
  forall a o b, r = a ++ o ++ b -> skip <= length a -> occurrence rp o -> False.
Proof.
  induction r as [|x t IH]; intros skip H a o b Hr Hs Ho.
  - destruct a; [|discriminate]. destruct o; [|discriminate]. inversion Ho. congruence.
  - destruct skip as [|s]; cbn [scan_count] in H.
    + destruct (prefix_eqb eqb rp (x :: t)) eqn:E; [discriminate|].
      destruct a as [|y a'].
      * cbn [app] in Hr. rewrite Hr, (prefix_eqb_occ _ _ _ Ho) in E. discriminate.
      * cbn [app] in Hr. injection Hr as _ Ht. eapply (IH 0 H a' o b); [exact Ht|lia|exact Ho].
    + destruct a as [|y a']; [cbn in Hs; lia|]. cbn [app] in Hr. injection Hr as _ Ht.
      eapply (IH s H a' o b); [exact Ht|cbn in Hs; lia|exact Ho].
Qed.

(* something recorded -> the pattern does occur *)
Lemma scan_count_pos : forall r skip, scan_count eqb rp r skip <> 0 ->
  exists a o b, r = a ++ o ++ b /\ occurrence rp o.
Proof.
  induction r as [|x t IH]; intros skip H; [cbn in H; congruence|].
  destruct skip as [|s]; cbn [scan_count] in H.
  - destruct (prefix_eqb eqb rp (x :: t)) eqn:E.
    + destruct (prefix_eqb_true _ _ E) as [Ho Hr]. exists [], (firstn (length rp) (x :: t)), (skipn (length rp) (x :: t)).
      split; [exact Hr|exact Ho].
    + destruct (IH 0 H) as (a & o & b & -> & Ho). exists (x :: a), o, b. split; [reflexivity|exact Ho].
  - destruct (IH s H) as (a & o & b & -> & Ho). exists (x :: a), o, b. split; [reflexivity|exact Ho].
Qed.
End Scan.

(* ---------- back to document order ---------- *)
Lemma occurrence_rev (p o : list A) : occurrence p o -> occurrence (rev p) (rev o).
Proof.
  intros H. induction H as [|x y p o Hxy H IH]; [constructor|]. cbn [rev].
  apply Forall2_app; [exact IH|constructor; [exact Hxy|constructor]].
Qed.

Lemma Rep_unrev (rp : list A) g pat h n a b :
  pat = rev rp -> (forall k o, h k o = rev (g k (rev o))) ->
  Rep rp g n a b -> Rep pat h n (rev a) (rev b).
Proof.
  intros -> Hh R. induction R as [x|o k out Ho ->|n1 n2 a a' b b' R1 IH1 R2 IH2].
  - constructor.
  - eapply Rep_occ; [apply occurrence_rev; exact Ho|]. rewrite Hh, rev_involutive. reflexivity.
  - rewrite !rev_app_distr, Nat.add_comm. now apply Rep_app.
Qed.

Theorem weak_edit_spec pat h l l' :
  weak_edit eqb pat h l = Ok l' -> exists n, n <> 0 /\ Rep pat h n l l'.
Proof.
  unfold weak_edit. destruct pat as [|p0 pt] eqn:Ep; [discriminate|]. rewrite <- Ep.
  destruct (Nat.eqb_spec (scan_count eqb (rev pat) (rev l) 0) 0) as [|Hn]; [discriminate|].
  intros [= <-]. exists (scan_count eqb (rev pat) (rev l) 0). split; [exact Hn|].
  assert (Hne : rev pat <> []).
  { rewrite Ep. cbn [rev]. intros H. apply app_eq_nil in H. destruct H; discriminate. }
  pose proof (scan_apply_rep (rev pat) (fun k seg => rev (h k (rev seg))) Hne (rev l) 0 0) as R.
  cbn [skipn] in R.
  assert (Hh : forall k o, h k o = rev ((fun k seg => rev (h k (rev seg))) k (rev o))).
  { intros k o. cbn. now rewrite !rev_involutive. }
  pose proof (Rep_unrev (rev pat) _ pat h _ _ _ (eq_sym (rev_involutive pat)) Hh R) as R'.
  now rewrite rev_involutive in R'.
Qed.

Theorem weak_edit_not_found pat h l :
  weak_edit eqb pat h l = Exn ValueError <->
  pat = [] \/ (forall a o b, l = a ++ o ++ b -> ~ occurrence pat o).
Proof.
  unfold weak_edit. destruct pat as [|p0 pt] eqn:Ep; [split; auto|]. rewrite <- Ep.
  assert (Hne : rev pat <> []).
  { rewrite Ep. cbn [rev]. intros H. apply app_eq_nil in H. destruct H; discriminate. }
  destruct (Nat.eqb_spec (scan_count eqb (rev pat) (rev l) 0) 0) as [H0|Hn]; split.
  - intros _. right. intros a o b Hl Ho.
    apply (scan_count_zero (rev pat) Hne (rev l) 0 H0 (rev b) (rev o) (rev a)); [|lia|now apply occurrence_rev].
    rewrite Hl, !rev_app_distr, app_assoc. reflexivity.
  - reflexivity.
  - discriminate.
  - intros [HE|Hno]; [rewrite Ep in HE; discriminate|]. exfalso.
    destruct (scan_count_pos (rev pat) (rev l) 0 Hn) as (a & o & b & Hr & Ho).
    apply (Hno (rev b) (rev o) (rev a)).
    + rewrite <- (rev_involutive l), Hr, !rev_app_distr, app_assoc. reflexivity.
    + rewrite <- (rev_involutive pat). now apply occurrence_rev.
Qed.

Theorem weak_edit_total pat h l : weak_edit eqb pat h l = Exn ValueError \/ exists l', weak_edit eqb pat h l = Ok l'.
Proof.
  unfold weak_edit. destruct pat; [now left|]. destruct (Nat.eqb _ 0); [now left|right; eauto].
Qed.

(* rendering: when node equality implies equal text, every replaced stretch had the pattern's text *)
Lemma occurrence_text {B} (f : A -> list B) pat o :
  (forall a b, eqb a b = true -> f a = f b) -> occurrence pat o -> flat_map f o = flat_map f pat.
Proof.
  intros Hf H. induction H as [|x y p o Hxy H IH]; [reflexivity|]. cbn [flat_map]. now rewrite IH, (Hf _ _ Hxy).
Qed.

(* text-level reading: the text of l' is the text of l with n disjoint occurrences of the pattern's text replaced *)
Inductive TRep {B} (old : list B) (new : nat -> list B -> list B) : nat -> list B -> list B -> Prop :=
| TRep_same t : TRep old new 0 t t
| TRep_occ k out : out = new k old -> TRep old new 1 old out
| TRep_app n1 n2 a a' b b' : TRep old new n1 a a' -> TRep old new n2 b b' -> TRep old new (n1 + n2) (a ++ b) (a' ++ b').

Theorem rep_text {B} (f : A -> list B) pat h (ht : nat -> list B -> list B) n l l' :
  (forall a b, eqb a b = true -> f a = f b) ->
  (forall k o, occurrence pat o -> flat_map f (h k o) = ht k (flat_map f pat)) ->
  Rep pat h n l l' -> TRep (flat_map f pat) ht n (flat_map f l) (flat_map f l').
Proof.
  intros Hf Hh R. induction R as [x|o k out Ho ->|n1 n2 a a' b b' R1 IH1 R2 IH2].
  - constructor.
  - rewrite (occurrence_text f pat o Hf Ho). apply TRep_occ with (k := k). now apply Hh.
  - rewrite !flat_map_app. now apply TRep_app.
Qed.
End P.
