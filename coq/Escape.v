(* Template._surface_escape (nodes/template.py): what Template.add does to a value so that a '|' (always) or an '='
   (hidden key) in it cannot be taken for a parameter separator when the template is parsed again.

   A value is a list of items.  Text is a list of code points.  A "closed" node (template, argument, wikilink,
   tag, comment, entity) brings its own brackets: whatever is inside is not looked at.  An "open" node (heading,
   external link) has no brackets that protect its text, so its child Wikicodes are escaped as well. *)
From MW Require Import PyBase.

Inductive item :=
| IText (s : str)
| IClosed (s : str)                                  (* rendered text of a node with brackets of its own *)
| IOpen (pre : str) (children : list (list item * str)).   (* heading / external link: pre, then each child followed by fixed text *)

Definition value := list item.

Section E.
Variable c : cp.                 (* the character to escape *)
Variable ent : str.              (* its spelling as an entity, e.g. "&#124;" *)

Definition esc_text (s : str) : str := flat_map (fun x => if N.eqb x c then ent else [x]) s.

Fixpoint esc_item (i : item) : item :=
  match i with
  | IText s => IText (esc_text s)
  | IClosed s => IClosed s
  | IOpen pre ch => IOpen pre (map (fun p => (map esc_item (fst p), snd p)) ch)
  end.
Definition escape (v : value) : value := map esc_item v.

(* rendering *)
Fixpoint str_item (i : item) : str :=
  match i with
  | IText s => s
  | IClosed s => s
  | IOpen pre ch => pre ++ flat_map (fun p => flat_map str_item (fst p) ++ snd p) ch
  end.
Definition str_value (v : value) : str := flat_map str_item v.

(* the characters no bracket protects: text at the top level and, recursively, inside open nodes *)
Fixpoint bare_item (i : item) : str :=
  match i with
  | IText s => s
  | IClosed _ => []
  | IOpen _ ch => flat_map (fun p => flat_map bare_item (fst p)) ch
  end.
Definition bare (v : value) : str := flat_map bare_item v.
End E.

(* everything that is not inside a closed node: text, and the markers / separators / children of open nodes
   ('==' of a heading, the brackets and the space of a link) *)
Fixpoint exposed_item (i : item) : str :=
  match i with
  | IText s => s
  | IClosed _ => []
  | IOpen pre ch => pre ++ flat_map (fun p => flat_map exposed_item (fst p) ++ snd p) ch
  end.
Definition exposed (v : value) : str := flat_map exposed_item v.

(* Template._has_unescapable_equals: a heading or an external link among the value's own nodes renders the character *)
Definition open_renders (c : cp) (v : value) : bool :=
  existsb (fun i => match i with IOpen _ _ => existsb (N.eqb c) (str_item i) | _ => false end) v.
