(* C08: an edit of a specific node changes exactly that node's span of its node list. *)
From MW Require Import ListAux PyBase SliceLemmas PyList SmartList SmartListProofs WikiEdit.
Local Open Scope Z_scope.

Section E.
Context {A : Type}.
Variable eqb : A -> A -> bool.           (* identity of nodes *)
Variable sortf : list A -> list A.
Hypothesis eqb_eq : forall a b, eqb a b = true -> a = b.

Notation list_step := (list_step eqb sortf).
Notation list_multi := (list_multi eqb sortf).
Notation wc_list := (wc_list eqb sortf).

Lemma find_index_split x : forall (L : list A) i j,
  find_index eqb x L i = Some j ->
  exists P Q, L = P ++ x :: Q /\ j = i + zlen P /\ Forall (fun y => eqb y x = false) P.
Proof.
  induction L as [|y t IH]; intros i j; cbn [find_index]; [discriminate|].
  destruct (eqb y x) eqn:E.
  - intros [= <-]. apply eqb_eq in E. subst y. exists [], t. cbn. repeat split; [unfold zlen; cbn; lia|constructor].
  - intros H. destruct (IH _ _ H) as (P & Q & -> & -> & HP). exists (y :: P), Q.
    repeat split; [unfold zlen; cbn [length]; lia|constructor; assumption].
Qed.

Lemma find_index_none x : forall (L : list A) i, find_index eqb x L i = None -> Forall (fun y => eqb y x = false) L.
Proof.
  induction L as [|y t IH]; intros i; cbn [find_index]; [constructor|].
  destruct (eqb y x) eqn:E; [discriminate|]. intros H. constructor; [exact E|eauto].
Qed.

Lemma zsplice_at (P Q new : list A) (d : list A) :
  zsplice (P ++ d ++ Q) (zlen P) (zlen P + zlen d) new = P ++ new ++ Q.
Proof.
  unfold zsplice, splice, zlen. rewrite Nat2Z.id.
  replace (Z.to_nat (Z.of_nat (length P) + Z.of_nat (length d))) with (length P + length d)%nat by lia.
  rewrite firstn_app_exact. rewrite <- app_length.
  replace (P ++ d ++ Q) with ((P ++ d) ++ Q) by (now rewrite <- app_assoc). now rewrite skipn_app_exact.
Qed.

(* inserting the nodes of a value one after another, starting at position |P| *)
Lemma ins_at_ok (ns P Q : list A) :
  list_multi (P ++ Q) (ins_at (zlen P) ns) = Ok (P ++ ns ++ Q).
Proof.
  revert P. induction ns as [|n t IH]; intros P; cbn [ins_at list_multi]; [reflexivity|].
  unfold PyList.list_step. cbn [list_splice].
  assert (Hadj : adj (zlen (P ++ Q)) (zlen P) = zlen P).
  { apply adj_in_range. rewrite zlen_app. pose proof (zlen_nonneg P). pose proof (zlen_nonneg Q). lia. }
  rewrite Hadj.
  pose proof (zsplice_at P Q [n] []) as Hs. cbn [app] in Hs. unfold zlen at 3 in Hs. cbn [length] in Hs.
  rewrite Z.add_0_r in Hs. rewrite Hs.
  replace (zlen P + 1) with (zlen (P ++ [n])) by (rewrite zlen_app; unfold zlen; cbn; lia).
  replace (P ++ n :: Q) with ((P ++ [n]) ++ Q) by (now rewrite <- app_assoc).
  rewrite IH. now rewrite <- app_assoc.
Qed.

Lemma pop_at_ok (P Q : list A) x :
  list_step (P ++ x :: Q) (LPop (Some (zlen P))) = Ok (P ++ Q, RVal x).
Proof.
  unfold PyList.list_step. cbn [list_splice].
  assert (Hn : norm_index (zlen (P ++ x :: Q)) (zlen P) = Some (zlen P)).
  { apply norm_index_in_range. rewrite zlen_app. unfold zlen. cbn [length]. lia. }
  rewrite Hn.
  assert (Hx : znth (P ++ x :: Q) (zlen P) = Some x).
  { unfold znth, zlen. rewrite Nat2Z.id. rewrite nth_error_app2 by lia. now rewrite Nat.sub_diag. }
  rewrite Hx. pose proof (zsplice_at P Q [] [x]) as Hs. unfold zlen at 3 in Hs. cbn [length app] in Hs.
  change (Z.of_nat 1) with 1 in Hs. now rewrite Hs.
Qed.

(* ---------------- node targets ---------------- *)
Theorem edit_node_target L x ns :
  match find_index eqb x L 0 with
  | None =>
      wc_list L (WRemoveNode x) = Exn ValueError /\ wc_list L (WReplaceNode x ns) = Exn ValueError /\
      wc_list L (WBeforeNode x ns) = Exn ValueError /\ wc_list L (WAfterNode x ns) = Exn ValueError
  | Some _ =>
      exists P Q, L = P ++ x :: Q /\ Forall (fun y => eqb y x = false) P /\
        wc_list L (WRemoveNode x) = Ok (P ++ Q) /\
        wc_list L (WReplaceNode x ns) = Ok (P ++ ns ++ Q) /\
        wc_list L (WBeforeNode x ns) = Ok (P ++ ns ++ x :: Q) /\
        wc_list L (WAfterNode x ns) = Ok (P ++ x :: ns ++ Q)
  end.
Proof.
  destruct (find_index eqb x L 0) as [j|] eqn:E.
  - destruct (find_index_split x L 0 j E) as (P & Q & -> & -> & HP). cbn [Z.add] in *.
    exists P, Q. split; [reflexivity|]. split; [exact HP|].
    unfold WikiEdit.wc_list, wc_ops. rewrite E. cbn [pop_ops repeat list_multi app].
    assert (Hlen : zlen (P ++ x :: Q) = zlen P + 1 + zlen Q) by (rewrite zlen_app; unfold zlen; cbn [length]; lia).
    pose proof (zlen_nonneg P). pose proof (zlen_nonneg Q).
    repeat split.
    + now rewrite pop_at_ok.
    + rewrite pop_at_ok. unfold ins_ops. rewrite adj_in_range by lia. apply ins_at_ok.
    + unfold ins_ops. rewrite adj_in_range by lia. apply (ins_at_ok ns P (x :: Q)).
    + unfold ins_ops. rewrite adj_in_range by lia.
      replace (zlen P + 1) with (zlen (P ++ [x])) by (rewrite zlen_app; unfold zlen; cbn; lia).
      replace (P ++ x :: Q) with ((P ++ [x]) ++ Q) by (now rewrite <- app_assoc).
      rewrite ins_at_ok. now rewrite <- app_assoc.
  - unfold WikiEdit.wc_list, wc_ops. rewrite E. auto.
Qed.

(* ---------------- index targets ---------------- *)
Theorem insert_at_index L i ns :
  let a := Z.to_nat (adj (zlen L) i) in
  wc_list L (WInsert i ns) = Ok (firstn a L ++ ns ++ skipn a L).
Proof.
  cbn zeta. unfold WikiEdit.wc_list, wc_ops, ins_ops.
  pose proof (adj_bounds (zlen L) i (zlen_nonneg L)) as Hb.
  set (a := Z.to_nat (adj (zlen L) i)).
  assert (Ha : adj (zlen L) i = zlen (firstn a L)).
  { unfold zlen in *. rewrite firstn_length. subst a. lia. }
  rewrite Ha. rewrite <- (firstn_skipn a L) at 1. apply ins_at_ok.
Qed.

Theorem append_at_end L ns : wc_list L (WAppend ns) = Ok (L ++ ns).
Proof.
  unfold WikiEdit.wc_list, wc_ops. revert L. induction ns as [|n t IH]; intros L; cbn [map list_multi]; [now rewrite app_nil_r|].
  unfold PyList.list_step. cbn [list_splice].
  pose proof (zsplice_at L [] [n] []) as Hs. cbn [app] in Hs. rewrite app_nil_r in Hs.
  unfold zlen at 3 in Hs. cbn [length] in Hs. change (Z.of_nat 0) with 0 in Hs. rewrite Z.add_0_r in Hs. rewrite Hs.
  rewrite IH. now rewrite <- app_assoc.
Qed.

(* the text: rendering distributes over the pieces, so exactly the target's span changes *)
Lemma render_pieces {B} (f : A -> list B) (P ns Q : list A) x :
  flat_map f (P ++ ns ++ x :: Q) = flat_map f P ++ flat_map f ns ++ f x ++ flat_map f Q.
Proof. now rewrite !flat_map_app. Qed.

End E.
