(* slice/splice algebra over nat indices: the core of C13 (view_after_splice). *)
From Coq Require Import List Arith Lia.
From MW Require Import ListAux PyBase.
Import ListNotations.

Section S.
Context {A : Type}.
Implicit Types l x y : list A.

Lemma slice_nil_ge l s e : e <= s -> slice l s e = [].
Proof. intros H. unfold slice. replace (e - s) with 0 by lia. reflexivity. Qed.

Lemma slice_nil_past l s e : length l <= s -> slice l s e = [].
Proof. intros H. unfold slice. rewrite skipn_all2 by lia. apply firstn_nil. Qed.

Lemma slice_all l e : length l <= e -> slice l 0 e = l.
Proof. intros H. unfold slice. cbn [skipn]. rewrite Nat.sub_0_r. now apply firstn_all2. Qed.

Lemma slice_clip l s e : slice l s e = slice l (Nat.min s (length l)) (Nat.min e (length l)).
Proof.
  unfold slice. destruct (Nat.le_gt_cases (length l) s) as [Hs|Hs].
  - rewrite (skipn_all2 l) by lia. rewrite (Nat.min_r s) by lia.
    rewrite skipn_all. now rewrite !firstn_nil.
  - rewrite (Nat.min_l s) by lia. destruct (Nat.le_gt_cases e (length l)) as [He|He].
    + now rewrite Nat.min_l by lia.
    + rewrite Nat.min_r by lia. rewrite !firstn_all2; auto; rewrite skipn_length; lia.
Qed.

Lemma slice_ext l s e s2 e2 :
  (Nat.min s (length l) = Nat.min s2 (length l) /\ Nat.min e (length l) = Nat.min e2 (length l))
  \/ ((e <= s \/ length l <= s) /\ (e2 <= s2 \/ length l <= s2)) ->
  slice l s e = slice l s2 e2.
Proof.
  intros [[H1 H2]|[H1 H2]].
  - rewrite (slice_clip l s e), (slice_clip l s2 e2). now rewrite H1, H2.
  - assert (E1 : slice l s e = []) by (destruct H1; [now apply slice_nil_ge|now apply slice_nil_past]).
    assert (E2 : slice l s2 e2 = []) by (destruct H2; [now apply slice_nil_ge|now apply slice_nil_past]).
    now rewrite E1, E2.
Qed.

Lemma slice_app x y s e :
  slice (x ++ y) s e = slice x s e ++ slice y (s - length x) (e - length x).
Proof.
  unfold slice. rewrite skipn_app, firstn_app, skipn_length. f_equal.
  destruct (Nat.le_gt_cases s (length x)).
  - replace (s - length x) with 0 by lia. cbn [skipn]. f_equal. lia.
  - f_equal. lia.
Qed.

Lemma slice_length l s e : length (slice l s e) = Nat.min e (length l) - s.
Proof. unfold slice. rewrite firstn_length, skipn_length. lia. Qed.

Lemma slice_full l s e : s = 0 -> length l <= e -> slice l s e = l.
Proof. intros -> H. now apply slice_all. Qed.

Lemma splice_decomp l a b new :
  a <= b -> b <= length l ->
  l = firstn a l ++ slice l a b ++ skipn b l /\
  splice l a b new = firstn a l ++ new ++ skipn b l /\
  length (firstn a l) = a /\ length (slice l a b) = b - a.
Proof.
  intros Hab Hb. repeat split.
  - unfold slice. rewrite <- (firstn_skipn a l) at 1. f_equal.
    rewrite <- (firstn_skipn (b - a) (skipn a l)) at 1. f_equal.
    rewrite skipn_skipn. f_equal. lia.
  - rewrite firstn_length. lia.
  - rewrite slice_length. lia.
Qed.

(* How a view [s,e) must move when l[a:b] := new  (k = length new). *)
Definition f_start (s a b k : nat) : nat :=
  if a <? s then (if b <=? s then s + k - (b - a) else a + k) else s.
Definition f_stop (e a b k : nat) : nat :=
  if b <=? e then e + k - (b - a) else if a <? e then a + k else e.

Lemma slice_piece (D : list A) i j : exists u w, D = u ++ slice D i j ++ w.
Proof.
  exists (firstn i D), (skipn (i + (j - i)) D). unfold slice.
  rewrite <- (firstn_skipn i D) at 1. f_equal.
  rewrite <- (firstn_skipn (j - i) (skipn i D)) at 1. f_equal.
  now rewrite skipn_skipn.
Qed.

(* pure arithmetic facts about the shift functions (b = a + d) *)
Lemma f_start_le_stop s e a d k : s <= e -> f_start s a (a + d) k <= f_stop e a (a + d) k.
Proof.
  intros. unfold f_start, f_stop.
  destruct (Nat.ltb_spec a s), (Nat.leb_spec (a + d) s), (Nat.leb_spec (a + d) e), (Nat.ltb_spec a e); lia.
Qed.
Lemma f_stop_bound e a d k n : e <= a + (d + n) -> f_stop e a (a + d) k <= a + (k + n).
Proof. intros. unfold f_stop. destruct (Nat.leb_spec (a + d) e), (Nat.ltb_spec a e); lia. Qed.
Lemma f_start_suffix s a d k : f_start s a (a + d) k - a - k = s - (a + d).
Proof. unfold f_start. destruct (Nat.ltb_spec a s), (Nat.leb_spec (a + d) s); lia. Qed.
Lemma f_stop_suffix e a d k : f_stop e a (a + d) k - a - k = e - (a + d).
Proof. unfold f_stop. destruct (Nat.leb_spec (a + d) e), (Nat.ltb_spec a e); lia. Qed.
Lemma f_start_prefix s a d k : Nat.min (f_start s a (a + d) k) a = Nat.min s a.
Proof. unfold f_start. destruct (Nat.ltb_spec a s), (Nat.leb_spec (a + d) s); lia. Qed.
Lemma f_stop_prefix e a d k : Nat.min (f_stop e a (a + d) k) a = Nat.min e a.
Proof. unfold f_stop. destruct (Nat.leb_spec (a + d) e), (Nat.ltb_spec a e); lia. Qed.
Lemma f_new_cases s e a d k : s <= e ->
  let i := f_start s a (a + d) k - a in let j := f_stop e a (a + d) k - a in
  (i = 0 /\ k <= j) \/ j <= i \/ k <= i.
Proof.
  intros Hse. cbn zeta. unfold f_start, f_stop.
  destruct (Nat.ltb_spec a s), (Nat.leb_spec (a + d) s), (Nat.leb_spec (a + d) e), (Nat.ltb_spec a e); lia.
Qed.

(* The same statement on an explicitly decomposed list  X ++ D ++ Y. *)
Lemma view_after_splice_app (X D Y new : list A) s e :
  let a := length X in let b := length X + length D in let k := length new in
  let l := X ++ D ++ Y in let l' := X ++ new ++ Y in
  s <= e -> e <= length l ->
  let s' := f_start s a b k in
  let e' := f_stop e a b k in
  s' <= e' /\ e' <= length l' /\
  slice l s e = slice X s e ++ slice D (s - a) (e - a) ++ slice Y (s - b) (e - b) /\
  slice l' s' e' = slice X s e ++ slice new (s' - a) (e' - a) ++ slice Y (s - b) (e - b) /\
  (slice new (s' - a) (e' - a) = [] \/ slice new (s' - a) (e' - a) = new).
Proof.
  cbn zeta. intros Hse He. rewrite !app_length in He.
  split; [now apply f_start_le_stop|].
  split; [rewrite !app_length; now apply f_stop_bound|].
  split; [|split].
  - rewrite slice_app, slice_app. f_equal. f_equal. f_equal; lia.
  - rewrite slice_app, slice_app. f_equal; [|f_equal].
    + apply slice_ext. left. split; [apply f_start_prefix|apply f_stop_prefix].
    + rewrite f_start_suffix, f_stop_suffix. reflexivity.
  - destruct (f_new_cases s e (length X) (length D) (length new) Hse) as [[H1 H2]|[H|H]].
    + right. now apply slice_full.
    + left. now apply slice_nil_ge.
    + left. now apply slice_nil_past.
Qed.

Theorem view_after_splice l a b new s e :
  a <= b -> b <= length l -> s <= e -> e <= length l ->
  let l' := splice l a b new in
  let s' := f_start s a b (length new) in
  let e' := f_stop e a b (length new) in
  s' <= e' /\ e' <= length l' /\
  exists pre del post ins,
    slice l s e = pre ++ del ++ post /\
    slice l' s' e' = pre ++ ins ++ post /\
    (ins = [] \/ ins = new) /\
    (exists u w, slice l a b = u ++ del ++ w) /\
    (* the kept parts are pieces of the untouched prefix and suffix *)
    pre = slice (firstn a l) s e /\ post = slice (skipn b l) (s - b) (e - b).
Proof.
  intros Hab Hb Hse He. cbn zeta.
  destruct (splice_decomp l a b new Hab Hb) as (Hl & Hl' & HlenX & HlenD).
  pose proof (view_after_splice_app (firstn a l) (slice l a b) (skipn b l) new s e) as H.
  cbn zeta in H. rewrite HlenX, HlenD in H.
  replace (a + (b - a)) with b in H by lia.
  rewrite <- Hl in H. rewrite <- Hl' in H.
  destruct (H Hse He) as (H1 & H2 & H3 & H4 & H5).
  split; [exact H1|]. split; [exact H2|].
  exists (slice (firstn a l) s e), (slice (slice l a b) (s - a) (e - a)),
         (slice (skipn b l) (s - b) (e - b)),
         (slice new (f_start s a b (length new) - a) (f_stop e a b (length new) - a)).
  split; [exact H3|]. split; [exact H4|]. split; [exact H5|].
  split; [apply slice_piece|]. split; reflexivity.
Qed.

End S.
