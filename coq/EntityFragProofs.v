(* Proofs about the entity fragment of the tokenizer (EntityFrag.v), for EVERY input string and EVERY marker table,
   entity-name table and size limit: the model's tree renders to the input, is well formed (so the proved Builder
   rebuilds it from the model's token stream) and canonical. *)
From Coq Require Import List NArith ZArith Arith Bool Lia.
From MW Require Import PyBase Nodes Builder Flatten BuilderProofs StripProofs Canon EntityFrag.
Import ListNotations.

Section WithTables.
Variable markers : list N.
Variable names : list str.
Variable max_size : nat.

Notation chunk := (chunk markers).
Notation try_entity := (try_entity markers names max_size).
Notation scan := (scan markers names max_size).

Lemma chunk_spec s : forall a r, chunk s = (a, r) -> s = a ++ r.
Proof.
  induction s as [|c t IH]; cbn [EntityFrag.chunk]; intros a r H.
  - injection H as <- <-. reflexivity.
  - destruct (is_marker markers c).
    + injection H as <- <-. reflexivity.
    + destruct (EntityFrag.chunk markers t) as [a' r'] eqn:Hc. injection H as <- <-.
      cbn [app]. f_equal. now apply IH.
Qed.

Lemma starts_semi_spec s : starts_semi s = true -> exists r, s = 59%N :: r.
Proof.
  destruct s as [|c r]; cbn [starts_semi]; [discriminate|].
  destruct c as [|p]; [discriminate|].
  do 6 (destruct p as [p|p|]; try discriminate). intros _. now exists r.
Qed.

Lemma firstn_app_semi (a r : str) : firstn (length a + 1) (a ++ 59%N :: r) = a ++ [59%N].
Proof. induction a as [|x a IH]; [reflexivity|]. cbn [length Nat.add app firstn]. now rewrite IH. Qed.

Ltac set_firstn n :=
  match goal with |- context [firstn ?k _] => replace k with n by (cbn [length]; lia) end.

Lemma str_entity v n h hc :
  str_node (NEntity v n h hc) =
  if n then s_amp ++ v ++ s_semi else if h then s_amp_hash ++ hc ++ v ++ s_semi else s_amp_hash ++ v ++ s_semi.
Proof. reflexivity. Qed.

Lemma wf_entity v n h hc :
  wf_node (NEntity v n h hc) = ((n = true -> h = false) /\ (h = false -> hc = [120%N])).
Proof. reflexivity. Qed.

Definition ent_ok (t : str) (e : node) (k : nat) : Prop :=
  k <= length t /\ str_node e = 38%N :: firstn k t /\ wf_node e /\ canon_node e = true /\ is_text e = false.

Lemma try_entity_spec t e k : try_entity t = Some (e, k) -> ent_ok t e k.
Proof.
  unfold EntityFrag.try_entity, ent_ok. intros H.
  assert (Hnamed : forall t0,
    (let '(ck, rest) := chunk t0 in
     match ck with
     | [] => None
     | _ => if forallb is_alnum_ascii ck && starts_semi rest && existsb (str_eqb ck) names
            then Some (NEntity ck true false [120%N], (1 + length ck)%nat) else None
     end) = Some (e, k) ->
    k <= length t0 /\ str_node e = 38%N :: firstn k t0 /\ wf_node e /\ canon_node e = true /\ is_text e = false).
  { intros t0 H0. destruct (chunk t0) as [ck rest] eqn:Hc. pose proof (chunk_spec _ _ _ Hc) as Ht.
    destruct ck as [|x ck]; [discriminate|].
    destruct (forallb is_alnum_ascii (x :: ck) && starts_semi rest && existsb (str_eqb (x :: ck)) names) eqn:Hb; [|discriminate].
    injection H0 as <- <-.
    apply andb_true_iff in Hb. destruct Hb as [Hb _]. apply andb_true_iff in Hb. destruct Hb as [_ Hs].
    destruct (starts_semi_spec _ Hs) as [r' ->]. subst t0.
    set_firstn (length (x :: ck) + 1)%nat.
    rewrite firstn_app_semi, str_entity, wf_entity. rewrite app_length. cbn [length].
    repeat split; try reflexivity; try lia; try discriminate. }
  destruct t as [|c t1]; [exact (Hnamed [] H)|].
  destruct (N.eq_dec c 35%N) as [->|Hne].
  - destruct (chunk t1) as [ck rest] eqn:Hc. pose proof (chunk_spec _ _ _ Hc) as Ht.
    destruct ck as [|x ds]; [discriminate|].
    destruct ((x =? 120)%N || (x =? 88)%N) eqn:Hx.
    + destruct ds as [|d ds]; [discriminate|].
      destruct (forallb is_hex (d :: ds) && starts_semi rest && in_range max_size 16 (d :: ds)) eqn:Hb; [|discriminate].
      injection H as <- <-.
      apply andb_true_iff in Hb. destruct Hb as [Hb _]. apply andb_true_iff in Hb. destruct Hb as [_ Hs].
      destruct (starts_semi_spec _ Hs) as [r' ->]. subst t1.
      rewrite str_entity, wf_entity.
      set_firstn (S (S (length (d :: ds) + 1))).
      change ((x :: d :: ds) ++ 59%N :: r') with (x :: ((d :: ds) ++ 59%N :: r')).
      repeat rewrite firstn_cons. rewrite firstn_app_semi.
      repeat split; try reflexivity; try discriminate.
      cbn [length]. rewrite app_length. cbn [length]. lia.
    + destruct (forallb is_digit (x :: ds) && starts_semi rest && in_range max_size 10 (x :: ds)) eqn:Hb; [|discriminate].
      injection H as <- <-.
      apply andb_true_iff in Hb. destruct Hb as [Hb _]. apply andb_true_iff in Hb. destruct Hb as [_ Hs].
      destruct (starts_semi_spec _ Hs) as [r' ->]. subst t1.
      rewrite str_entity, wf_entity.
      set_firstn (S (length (x :: ds) + 1)).
      repeat rewrite firstn_cons. rewrite firstn_app_semi.
      repeat split; try reflexivity; try discriminate.
      cbn [length]. rewrite app_length. cbn [length]. lia.
  - apply Hnamed. destruct c as [|p]; [exact H|].
    do 6 (destruct p as [p|p|]; try exact H). contradiction.
Qed.

Lemma starts_close_spec s : starts_close s = true -> exists r, s = 45%N :: 45%N :: 62%N :: r.
Proof.
  destruct s as [|a [|b [|c r]]]; cbn [starts_close]; try discriminate;
    try (destruct a as [|p]; [discriminate|]; do 6 (destruct p as [p|p|]; try discriminate)).
  - destruct b as [|p]; discriminate || (do 6 (destruct p as [p|p|]; try discriminate)).
  - destruct b as [|p]; [discriminate|]. do 6 (destruct p as [p|p|]; try discriminate).
    destruct c as [|p]; [discriminate|]. do 6 (destruct p as [p|p|]; try discriminate).
    intros _. now exists r.
Qed.

Lemma find_end_spec s : forall b, find_end s = Some b -> exists r, s = b ++ 45%N :: 45%N :: 62%N :: r.
Proof.
  induction s as [|c t IH]; intros b H; [discriminate|].
  cbn [find_end] in H. destruct (starts_close (c :: t)) eqn:Hs.
  - injection H as <-. destruct (starts_close_spec _ Hs) as [r Hr]. exists r. exact Hr.
  - destruct (find_end t) as [b'|] eqn:Hf; [|discriminate]. injection H as <-.
    destruct (IH _ eq_refl) as [r ->]. now exists r.
Qed.

Lemma firstn_app_close (b r : str) :
  firstn (length b + 3) (b ++ 45%N :: 45%N :: 62%N :: r) = b ++ [45%N; 45%N; 62%N].
Proof. induction b as [|x b IH]; [reflexivity|]. cbn [length Nat.add app firstn]. now rewrite IH. Qed.

Definition com_ok (t : str) (e : node) (k : nat) : Prop :=
  k <= length t /\ str_node e = 60%N :: firstn k t /\ wf_node e /\ canon_node e = true /\ is_text e = false.

Lemma try_comment_spec t e k : try_comment t = Some (e, k) -> com_ok t e k.
Proof.
  unfold try_comment, com_ok. intros H.
  destruct t as [|a [|b [|c rest]]]; try discriminate;
    try (destruct a as [|p]; [discriminate|]; do 6 (destruct p as [p|p|]; try discriminate)).
  - destruct b as [|p]; discriminate || (do 6 (destruct p as [p|p|]; try discriminate)).
  - destruct b as [|p]; [discriminate|]. do 6 (destruct p as [p|p|]; try discriminate).
    destruct c as [|p]; [discriminate|]. do 6 (destruct p as [p|p|]; try discriminate).
    destruct (find_end rest) as [body|] eqn:Hf; [|discriminate]. injection H as <- <-.
    destruct (find_end_spec _ _ Hf) as [r ->].
    set_firstn (S (S (S (length body + 3)))).
    repeat rewrite firstn_cons. rewrite firstn_app_close.
    repeat split; try reflexivity.
    cbn [length]. rewrite app_length. cbn [length]. lia.
Qed.

Fixpoint etext (ps : list epiece) : str :=
  match ps with
  | [] => []
  | ET c :: t => c :: etext t
  | EE e :: t => str_node e ++ etext t
  end.

Fixpoint epieces_ok (ps : list epiece) : Prop :=
  match ps with
  | [] => True
  | ET _ :: t => epieces_ok t
  | EE e :: t => (wf_node e /\ canon_node e = true /\ is_text e = false) /\ epieces_ok t
  end.

Lemma scan_spec s : forall skip, skip <= length s ->
  etext (scan skip s) = skipn skip s /\ epieces_ok (scan skip s).
Proof.
  induction s as [|c t IH]; intros skip Hk.
  - cbn [length] in Hk. replace skip with 0 by lia. split; [reflexivity|exact I].
  - cbn [EntityFrag.scan]. destruct skip as [|k].
    + cbn [skipn]. destruct (c =? 38)%N eqn:Hc.
      * apply N.eqb_eq in Hc. subst c.
        destruct (try_entity t) as [[e k]|] eqn:Ht.
        -- destruct (try_entity_spec _ _ _ Ht) as (Hle & Hs & Hw & Hcn & Hnt).
           destruct (IH k Hle) as [E P]. cbn [etext epieces_ok]. rewrite Hs, E.
           cbn [app]. rewrite firstn_skipn. repeat split; assumption.
        -- destruct (IH 0 (Nat.le_0_l _)) as [E P]. cbn [etext epieces_ok]. rewrite E. now split.
      * destruct (c =? 60)%N eqn:Hc2.
        -- apply N.eqb_eq in Hc2. subst c.
           destruct (try_comment t) as [[e k]|] eqn:Ht.
           ++ destruct (try_comment_spec _ _ _ Ht) as (Hle & Hs & Hw & Hcn & Hnt).
              destruct (IH k Hle) as [E P]. cbn [etext epieces_ok]. rewrite Hs, E.
              cbn [app]. rewrite firstn_skipn. repeat split; assumption.
           ++ destruct (IH 0 (Nat.le_0_l _)) as [E P]. cbn [etext epieces_ok]. rewrite E. now split.
        -- destruct (IH 0 (Nat.le_0_l _)) as [E P]. cbn [etext epieces_ok]. rewrite E. now split.
    + cbn [length] in Hk. cbn [skipn]. apply IH. lia.
Qed.

Lemma str_eflush acc : str_code (eflush acc) = acc.
Proof. destruct acc; [reflexivity|]. unfold eflush. rewrite str_code_cons. cbn. now rewrite app_nil_r. Qed.

Lemma str_emerge ps : forall acc, str_code (emerge acc ps) = acc ++ etext ps.
Proof.
  induction ps as [|[c|e] t IH]; intros acc; cbn [emerge etext].
  - rewrite str_eflush. now rewrite app_nil_r.
  - rewrite IH. now rewrite <- app_assoc.
  - rewrite str_code_app, str_eflush, str_code_cons, IH. reflexivity.
Qed.

Theorem efrag_lossless s : str_code (efrag_nodes markers names max_size s) = s.
Proof.
  unfold efrag_nodes. rewrite str_emerge. cbn [app].
  destruct (scan_spec s 0 (Nat.le_0_l _)) as [E _]. exact E.
Qed.

Lemma wf_code_app' a b : wf_code a -> wf_code b -> wf_code (a ++ b).
Proof.
  induction a as [|x a IH]; intros Ha Hb; [exact Hb|].
  cbn [app]. rewrite wf_code_cons in *. destruct Ha. split; auto.
Qed.

Lemma wf_eflush acc : wf_code (eflush acc).
Proof. destruct acc; cbn; auto. Qed.

Lemma wf_emerge ps : epieces_ok ps -> forall acc, wf_code (emerge acc ps).
Proof.
  induction ps as [|[c|e] t IH]; intros Hp acc; cbn [emerge].
  - apply wf_eflush.
  - apply IH. exact Hp.
  - destruct Hp as [(Hw & _) Hp]. apply wf_code_app'; [apply wf_eflush|]. rewrite wf_code_cons. split; [exact Hw|now apply IH].
Qed.

Theorem efrag_wf s : wf_code (efrag_nodes markers names max_size s).
Proof. apply wf_emerge. exact (proj2 (scan_spec s 0 (Nat.le_0_l _))). Qed.

Theorem efrag_end_to_end s :
  exists c, build (efrag_tokens markers names max_size s) = Ok c /\ str_code c = s.
Proof.
  exists (efrag_nodes markers names max_size s). split; [apply build_flatten_lemma, efrag_wf|apply efrag_lossless].
Qed.

Lemma hd_not_text e t : is_text e = false -> hd_is_text (e :: t) = false.
Proof. destruct e; cbn; congruence. Qed.

Lemma not_text_not_empty e : is_text e = false -> is_empty_text e = false.
Proof. destruct e; cbn; congruence. Qed.

Lemma canon_list_emerge ps : epieces_ok ps -> forall acc, canon_list (emerge acc ps) = true.
Proof.
  induction ps as [|[c|e] t IH]; intros Hp acc; cbn [emerge].
  - destruct acc; reflexivity.
  - apply IH. exact Hp.
  - destruct Hp as [(_ & _ & Hnt) Hp]. specialize (IH Hp []).
    assert (Hc : canon_list (e :: emerge [] t) = true).
    { cbn [canon_list]. rewrite (not_text_not_empty _ Hnt), Hnt, IH. reflexivity. }
    destruct acc as [|x acc]; [exact Hc|].
    cbn [eflush app canon_list is_empty_text is_text]. rewrite (hd_not_text e (emerge [] t) Hnt). cbn [negb andb].
    exact Hc.
Qed.

Lemma canon_each_app' a b : canon_each (a ++ b) = canon_each a && canon_each b.
Proof. induction a as [|x a IH]; [reflexivity|]. cbn [app canon_each]. now rewrite IH, andb_assoc. Qed.

Lemma canon_each_emerge ps : epieces_ok ps -> forall acc, canon_each (emerge acc ps) = true.
Proof.
  induction ps as [|[c|e] t IH]; intros Hp acc; cbn [emerge].
  - destruct acc; reflexivity.
  - apply IH. exact Hp.
  - destruct Hp as [(_ & Hcn & _) Hp]. rewrite canon_each_app'. cbn [canon_each]. rewrite Hcn, (IH Hp), andb_true_r.
    destruct acc; reflexivity.
Qed.

Theorem efrag_canonical s : canon_code (efrag_nodes markers names max_size s) = true.
Proof.
  pose proof (proj2 (scan_spec s 0 (Nat.le_0_l _))) as Hp.
  unfold canon_code, efrag_nodes. now rewrite canon_list_emerge, canon_each_emerge.
Qed.
End WithTables.

(* the model depends on the marker table only through the marker test on the characters of its input *)
Section Ext.
Variables (m1 m2 : list N) (names : list str) (max_size : nat).

Lemma chunk_ext s : (forall c, In c s -> is_marker m1 c = is_marker m2 c) -> chunk m1 s = chunk m2 s.
Proof.
  induction s as [|c t IH]; intros H; [reflexivity|]. cbn [chunk].
  rewrite (H c (or_introl eq_refl)). rewrite IH; [reflexivity|]. intros x Hx. apply H. now right.
Qed.

Lemma try_entity_ext t : (forall c, In c t -> is_marker m1 c = is_marker m2 c) ->
  try_entity m1 names max_size t = try_entity m2 names max_size t.
Proof.
  intros H. unfold try_entity. rewrite (chunk_ext t H).
  destruct t as [|c t1]; [reflexivity|].
  rewrite (chunk_ext t1); [reflexivity|]. intros x Hx. apply H. now right.
Qed.

Lemma scan_ext s : (forall c, In c s -> is_marker m1 c = is_marker m2 c) ->
  forall skip, scan m1 names max_size skip s = scan m2 names max_size skip s.
Proof.
  induction s as [|c t IH]; intros H skip; [reflexivity|].
  assert (Ht : forall x, In x t -> is_marker m1 x = is_marker m2 x) by (intros x Hx; apply H; now right).
  cbn [scan]. destruct skip as [|k]; [|now apply IH].
  rewrite (try_entity_ext t Ht). destruct (c =? 38)%N.
  - destruct (try_entity m2 names max_size t) as [[e k]|]; now rewrite IH.
  - destruct (c =? 60)%N; [|now rewrite IH].
    destruct (try_comment t) as [[e k]|]; now rewrite IH.
Qed.

Theorem efrag_tokens_ext s : (forall c, In c s -> is_marker m1 c = is_marker m2 c) ->
  efrag_tokens m1 names max_size s = efrag_tokens m2 names max_size s.
Proof. intros H. unfold efrag_tokens, efrag_nodes. now rewrite (scan_ext s H). Qed.
End Ext.
