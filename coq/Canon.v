(* C14: canonical form.  No empty Text and no two adjacent Text nodes in ANY node list of the tree
   (canon_code, deep) follows from the same property of the flat token stream (canon_toks). *)
From MW Require Import ListAux PyBase Nodes Builder Flatten BuilderProofs.

Definition is_empty_text (n : node) : bool := match n with NText [] => true | _ => false end.
Definition hd_is_text (c : list node) : bool := match c with NText _ :: _ => true | _ => false end.
Fixpoint canon_list (c : list node) : bool :=
  match c with
  | [] => true
  | x :: t => negb (is_empty_text x) && negb (is_text x && hd_is_text t) && canon_list t
  end.

Fixpoint canon_node (n : node) : bool :=
  let canon_code := fun (c : list node) =>
    canon_list c && (fix each (l : list node) : bool := match l with [] => true | x :: t => canon_node x && each t end) c in
  let canon_ocode := fun (o : option (list node)) => match o with Some c => canon_code c | None => true end in
  match n with
  | NText _ | NComment _ | NEntity _ _ _ _ => true
  | NHeading title _ => canon_code title
  | NWikilink title text => canon_code title && canon_ocode text
  | NArgument name default => canon_code name && canon_ocode default
  | NExtLink url title _ _ => canon_code url && canon_ocode title
  | NTemplate name params =>
      canon_code name &&
      (fix ps (l : list (list node * list node * bool)) : bool :=
         match l with [] => true | (k, v, sk) :: t => (if sk then canon_code k else true) && canon_code v && ps t end) params
  | NTag tg contents attrs _ self_closing _ _ _ closing_tag _ _ =>
      canon_code tg &&
      (fix ats (l : list (list node * option (list node) * option str * (str * str * str))) : bool :=
         match l with [] => true | (nm, value, _, _) :: t => canon_code nm && canon_ocode value && ats t end) attrs &&
      (if self_closing then true else canon_code contents && canon_code closing_tag)
  end.

Fixpoint canon_each (l : list node) : bool := match l with [] => true | x :: t => canon_node x && canon_each t end.
Definition canon_code (c : code) : bool := canon_list c && canon_each c.

(* ---- tokens ---- *)
Definition is_empty_ttext (t : token) : bool := match t with TText [] => true | _ => false end.
Definition hd_is_ttext (ts : list token) : bool := match ts with TText _ :: _ => true | _ => false end.
Fixpoint canon_toks (ts : list token) : bool :=
  match ts with
  | [] => true
  | x :: t => negb (is_empty_ttext x) && negb (is_ttext x && hd_is_ttext t) && canon_toks t
  end.

Lemma canon_toks_app a b : canon_toks (a ++ b) = true -> canon_toks a = true /\ canon_toks b = true.
Proof.
  induction a as [|x a IH]; cbn [app canon_toks]; [auto|].
  intros H. apply andb_true_iff in H. destruct H as [H1 H2]. apply andb_true_iff in H1. destruct H1 as [H0 H1].
  destruct (IH H2) as [Ha Hb]. split; [|exact Hb].
  rewrite H0, Ha. cbn [andb]. rewrite andb_true_r.
  destruct a as [|y a]; [destruct (is_ttext x); reflexivity|exact H1].
Qed.

Lemma canon_toks_cons x a : canon_toks (x :: a) = true -> canon_toks a = true.
Proof. cbn [canon_toks]. intros H. apply andb_true_iff in H. tauto. Qed.

(* first / last token of a node *)
Lemma fl_node_hd_text n : hd_is_ttext (fl_node n) = is_text n.
Proof. destruct (fl_node_cons n) as (tok & tl & E & _). destruct n as [v|c|t l|t [x|]|nm [d|]|u [t|] br sp|v nmd hx hc|nm ps|tg ct ats wm sc inv imp pad clt sep cwm];
  try reflexivity. cbn [fl_node]. destruct nmd; [|destruct hx]; reflexivity. Qed.

Lemma shallow c : canon_toks (fl_code c) = true -> canon_list c = true.
Proof.
  induction c as [|x c IH]; [reflexivity|]. cbn [fl_code canon_list]. intros H.
  destruct (canon_toks_app _ _ H) as [Hx Hc]. rewrite (IH Hc), andb_true_r.
  apply andb_true_iff. split.
  - destruct x as [[|? ?]| | | | | | | |]; try reflexivity. cbn in H. discriminate.
  - destruct x as [v| | | | | | | |]; try reflexivity. cbn [is_text andb].
    destruct c as [|y c]; [reflexivity|]. cbn [hd_is_text].
    destruct y as [w| | | | | | | |]; try reflexivity.
    cbn in H. destruct v; discriminate.
Qed.

(* equations *)
Lemma canon_node_heading t l : canon_node (NHeading t l) = canon_code t. Proof. reflexivity. Qed.

Lemma deep_code k c :
  (forall x, length (fl_node x) < k -> canon_toks (fl_node x) = true -> canon_node x = true) ->
  length (fl_code c) < k -> canon_toks (fl_code c) = true -> canon_code c = true.
Proof.
  intros IH Hl H. unfold canon_code. rewrite (shallow c H). cbn [andb].
  induction c as [|x c IHc]; [reflexivity|]. cbn [fl_code canon_each] in *. rewrite app_length in Hl.
  destruct (canon_toks_app _ _ H) as [Hx Hc]. rewrite IH by (try assumption; lia). cbn [andb].
  apply IHc; [lia|exact Hc].
Qed.

Ltac split_canon H :=
  repeat match type of H with
  | canon_toks (_ :: _) = true => apply canon_toks_cons in H
  | canon_toks (_ ++ _) = true => let H1 := fresh "Hc" in apply canon_toks_app in H; destruct H as [H1 H]
  end.

Theorem canon_deep : forall m n, length (fl_node n) <= m -> canon_toks (fl_node n) = true -> canon_node n = true.
Proof.
  induction m as [m IHm] using lt_wf_ind. intros n Hm H.
  assert (IH : forall x, length (fl_node x) < length (fl_node n) -> canon_toks (fl_node x) = true -> canon_node x = true)
    by (intros x Hx Hw; eapply IHm; [|reflexivity|exact Hw]; lia).
  clear IHm.
  destruct n as [v|c|title l|title [x|]|nm [d|]|u [t|] br sp|v nmd hx hc|nm ps|tg ct ats wm sc inv imp pad clt sep cwm];
    try reflexivity.
  - rewrite fl_heading in *. change (canon_node (NHeading title l)) with (canon_code title).
    apply canon_toks_cons in H. apply canon_toks_app in H. destruct H as [H _].
    apply (deep_code _ _ IH); [lens; lia|exact H].
  - rewrite fl_wikilink2 in *. change (canon_node (NWikilink title (Some x))) with (canon_code title && canon_code x).
    apply canon_toks_cons in H. apply canon_toks_app in H. destruct H as [H1 H].
    apply canon_toks_cons in H. apply canon_toks_app in H. destruct H as [H2 _].
    rewrite (deep_code _ _ IH) by (try assumption; lens; lia).
    rewrite (deep_code _ _ IH) by (try assumption; lens; lia). reflexivity.
  - rewrite fl_wikilink1 in *. change (canon_node (NWikilink title None)) with (canon_code title && true).
    apply canon_toks_cons in H. apply canon_toks_app in H. destruct H as [H1 _].
    rewrite (deep_code _ _ IH) by (try assumption; lens; lia). reflexivity.
  - rewrite fl_argument2 in *. change (canon_node (NArgument nm (Some d))) with (canon_code nm && canon_code d).
    apply canon_toks_cons in H. apply canon_toks_app in H. destruct H as [H1 H].
    apply canon_toks_cons in H. apply canon_toks_app in H. destruct H as [H2 _].
    rewrite (deep_code _ _ IH) by (try assumption; lens; lia).
    rewrite (deep_code _ _ IH) by (try assumption; lens; lia). reflexivity.
  - rewrite fl_argument1 in *. change (canon_node (NArgument nm None)) with (canon_code nm && true).
    apply canon_toks_cons in H. apply canon_toks_app in H. destruct H as [H1 _].
    rewrite (deep_code _ _ IH) by (try assumption; lens; lia). reflexivity.
  - rewrite fl_extlink2 in *. change (canon_node (NExtLink u (Some t) br sp)) with (canon_code u && canon_code t).
    apply canon_toks_cons in H. apply canon_toks_app in H. destruct H as [H1 H].
    apply canon_toks_cons in H. apply canon_toks_app in H. destruct H as [H2 _].
    rewrite (deep_code _ _ IH) by (try assumption; lens; lia).
    rewrite (deep_code _ _ IH) by (try assumption; lens; lia). reflexivity.
  - rewrite fl_extlink1 in *. change (canon_node (NExtLink u None br sp)) with (canon_code u && true).
    apply canon_toks_cons in H. apply canon_toks_app in H. destruct H as [H1 _].
    rewrite (deep_code _ _ IH) by (try assumption; lens; lia). reflexivity.
  - (* Template *) rewrite fl_template in *.
    change (canon_node (NTemplate nm ps)) with
      (canon_code nm && (fix psf (l : list param) : bool :=
         match l with [] => true | (k, v, sk) :: t => (if sk then canon_code k else true) && canon_code v && psf t end) ps).
    apply canon_toks_cons in H. apply canon_toks_app in H. destruct H as [H1 H].
    apply canon_toks_app in H. destruct H as [H2 _].
    rewrite (deep_code _ _ IH) by (try assumption; lens; lia). cbn [andb].
    assert (Hb : forall x, length (fl_node x) <= length (flat_map fl_param ps) -> canon_toks (fl_node x) = true -> canon_node x = true)
      by (intros x Hx Hc; apply IH; [lens; lia|exact Hc]).
    clear IH H1 Hm. induction ps as [|[[k v] sk] ps IHp]; [reflexivity|].
    cbn [flat_map] in *. rewrite fl_param_eq in *. unfold pbody in *.
    apply canon_toks_app in H2. destruct H2 as [Hp Hrest]. apply canon_toks_cons in Hp.
    rewrite IHp; [|exact Hrest|intros x Hx Hc; apply Hb; [lens; lia|exact Hc]]. rewrite andb_true_r.
    destruct sk.
    + apply canon_toks_app in Hp. destruct Hp as [Hk Hv]. apply canon_toks_app in Hk. destruct Hk as [Hk _].
      rewrite (deep_code (S (length (fl_code k))) k), (deep_code (S (length (fl_code v))) v); try assumption; try lia; try reflexivity;
        intros x Hx Hc; apply Hb; try exact Hc; lens; lia.
    + cbn [app] in Hp. rewrite (deep_code (S (length (fl_code v))) v); try assumption; try lia; try reflexivity.
      intros x Hx Hc; apply Hb; try exact Hc; lens; lia.
  - (* Tag *) rewrite fl_tag in *.
    change (canon_node (NTag tg ct ats wm sc inv imp pad clt sep cwm)) with
      (canon_code tg &&
       (fix atsf (l : list attr) : bool :=
          match l with [] => true | (n0, value, _, _) :: t =>
            canon_code n0 && match value with Some c0 => canon_code c0 | None => true end && atsf t end) ats &&
       (if sc then true else canon_code ct && canon_code clt)).
    apply canon_toks_cons in H. apply canon_toks_app in H. destruct H as [H1 H].
    apply canon_toks_app in H. destruct H as [H2 H3].
    rewrite (deep_code _ _ IH) by (try assumption; lens; lia). cbn [andb].
    assert (Htail : (if sc then true else canon_code ct && canon_code clt) = true).
    { destruct sc; [reflexivity|].
      apply canon_toks_cons in H3. apply canon_toks_app in H3. destruct H3 as [H4 H3].
      apply canon_toks_cons in H3. apply canon_toks_app in H3. destruct H3 as [H5 _].
      rewrite (deep_code _ _ IH) by (try assumption; lens; lia).
      rewrite (deep_code _ _ IH) by (try assumption; lens; lia). reflexivity. }
    rewrite Htail, andb_true_r.
    assert (Hb : forall x, length (fl_node x) <= length (flat_map fl_attr ats) -> canon_toks (fl_node x) = true -> canon_node x = true)
      by (intros x Hx Hc; apply IH; [lens; lia|exact Hc]).
    clear IH H1 H3 Hm Htail. induction ats as [|[[[n0 v] q] pads] ats IHa]; [reflexivity|].
    cbn [flat_map] in *. rewrite fl_attr_eq in *. cbn [abody] in *.
    apply canon_toks_app in H2. destruct H2 as [Ha Hrest]. apply canon_toks_cons in Ha.
    rewrite IHa; [|exact Hrest|intros x Hx Hc; apply Hb; [lens; lia|exact Hc]]. rewrite andb_true_r.
    destruct v as [v|].
    + apply canon_toks_app in Ha. destruct Ha as [Hn Hv]. apply canon_toks_cons in Hv.
      apply canon_toks_app in Hv. destruct Hv as [_ Hv].
      rewrite (deep_code (S (length (fl_code n0))) n0), (deep_code (S (length (fl_code v))) v); try assumption; try lia; try reflexivity;
        intros x Hx Hc; apply Hb; try exact Hc; lens; lia.
    + rewrite (deep_code (S (length (fl_code n0))) n0); try assumption; try lia; try reflexivity.
      intros x Hx Hc; apply Hb; try exact Hc; lens; lia.
Qed.

Theorem canon_tokens_canon_tree c : canon_toks (fl_code c) = true -> canon_code c = true.
Proof.
  intros H. apply (deep_code (S (length (fl_code c)))); [|lia|exact H].
  intros x _ Hx. now apply (canon_deep (length (fl_node x))).
Qed.
