(* Model of Python attribute lookup as far as C16 needs it: normal lookup through the class
   (the node class and its bases), StringMixIn, object; then StringMixIn.__getattr__, which
   delegates to str(self) for names str has and raises AttributeError otherwise. *)
From Coq Require Import String List Bool.
Import ListNotations.
Local Open Scope string_scope.

Definition mem (x : string) (l : list string) : bool := existsb (String.eqb x) l.

Inductive outcome := FoundClass | FoundMixin | FoundObject | Delegated | AttrError.

Definition lookup (class_defined mixin_defined object_dir str_dir : list string) (name : string) : outcome :=
  if mem name class_defined then FoundClass
  else if mem name mixin_defined then FoundMixin
  else if mem name object_dir then FoundObject
  else if mem name str_dir then Delegated   (* __getattr__: getattr(self.__str__(), attr) *)
  else AttrError.                           (* __getattr__: raise AttributeError, str(self) NOT evaluated *)

Lemma mem_In x l : mem x l = true <-> In x l.
Proof.
  unfold mem. rewrite existsb_exists. split.
  - intros (y & Hy & E). apply String.eqb_eq in E. now subst.
  - intros H. exists x. split; [exact H|apply String.eqb_refl].
Qed.

Lemma mem_not_In x l : mem x l = false <-> ~ In x l.
Proof. rewrite <- mem_In. destruct (mem x l); split; congruence. Qed.

Lemma delegated_lemma cd md od sd name :
  ~ In name cd -> ~ In name md -> ~ In name od -> In name sd -> lookup cd md od sd name = Delegated.
Proof.
  intros H1 H2 H3 H4. unfold lookup.
  apply mem_not_In in H1, H2, H3. apply mem_In in H4. now rewrite H1, H2, H3, H4.
Qed.

Lemma unknown_lemma cd md od sd name :
  ~ In name sd -> lookup cd md od sd name <> Delegated /\
  (~ In name cd -> ~ In name md -> ~ In name od -> lookup cd md od sd name = AttrError).
Proof.
  intros H4. apply mem_not_In in H4. split.
  - unfold lookup. destruct (mem name cd), (mem name md), (mem name od); try discriminate. now rewrite H4.
  - intros H1 H2 H3. apply mem_not_In in H1, H2, H3. unfold lookup. now rewrite H1, H2, H3, H4.
Qed.

(* names of str found on [object] that describe the object itself, not its text *)
Definition object_describing : list string :=
  ["__class__"; "__delattr__"; "__dir__"; "__getattribute__"; "__getstate__"; "__init__";
   "__init_subclass__"; "__new__"; "__reduce__"; "__reduce_ex__"; "__setattr__"; "__sizeof__";
   "__subclasshook__"].

(* the explicit magic methods and the only bodies under which they delegate to str(self) with the
   operands in the right order *)
Definition expected_bodies : list (string * string) :=
  [("__bytes__", "(self): return bytes(self.__str__(), getdefaultencoding())");
   ("__repr__", "(self): return repr(self.__str__())");
   ("__lt__", "(self, other): return self.__str__() < other");
   ("__le__", "(self, other): return self.__str__() <= other");
   ("__eq__", "(self, other): return self.__str__() == other");
   ("__ne__", "(self, other): return self.__str__() != other");
   ("__gt__", "(self, other): return self.__str__() > other");
   ("__ge__", "(self, other): return self.__str__() >= other");
   ("__bool__", "(self): return bool(self.__str__())");
   ("__len__", "(self): return len(self.__str__())");
   ("__iter__", "(self): yield from self.__str__()");
   ("__getitem__", "(self, key): return self.__str__()[key]");
   ("__reversed__", "(self): return reversed(self.__str__())");
   ("__contains__", "(self, item): return str(item) in self.__str__()");
   ("__format__", "(self, format_spec): return format(self.__str__(), format_spec)");
   ("maketrans", "= str.maketrans")].

Definition not_text : list string := ["__str__"; "__doc__"; "__hash__"; "__getattr__"; "__dict__"; "__module__"; "__weakref__"].

Definition pair_mem (p : string * string) (l : list (string * string)) : bool :=
  existsb (fun q => String.eqb (fst p) (fst q) && String.eqb (snd p) (snd q)) l.

(* every str name the mixin defines explicitly has a delegating body *)
Definition bodies_ok (mixin_defined : list string) (bodies : list (string * string)) (str_dir : list string) : bool :=
  forallb (fun name =>
    negb (mem name str_dir) || mem name not_text ||
    existsb (fun q => String.eqb name (fst q) && pair_mem q expected_bodies) bodies) mixin_defined.

(* no text behaviour of str is shadowed by [object]: a str name that normal lookup finds on
   object (and that neither the class nor the mixin defines) must be object-describing *)
Definition no_shadow (classes : list (string * list string)) (mixin_defined object_dir str_dir : list string) : bool :=
  forallb (fun cls => forallb (fun name =>
    match lookup (snd cls) mixin_defined object_dir str_dir name with
    | FoundObject => mem name object_describing
    | AttrError => false
    | _ => true
    end) str_dir) classes.

(* the names of dir(str) that a node class may define itself: what every class has (its own rendering, constructor,
   docstring) and the few tree operations / attributes that share a name with a str method *)
Definition redefinable_by_all : list string := ["__doc__"; "__init__"; "__str__"; "__module__"].
Definition redefinable : list (string * list string) :=
  [("Wikicode", ["index"; "replace"]); ("ExternalLink", ["title"]); ("Heading", ["title"]); ("Wikilink", ["title"]);
   ("Template", ["__getitem__"])].

Definition allowed_for (cls : string) : list string :=
  redefinable_by_all ++ flat_map (fun p => if String.eqb (fst p) cls then snd p else []) redefinable.

(* every name of dir(str) that a class defines itself is on that list: any other str behaviour comes from the mixin
   (explicit magic method or delegation) and so equals str's *)
Definition only_documented_redefinitions (classes : list (string * list string)) (str_dir : list string) : bool :=
  forallb (fun cls => forallb (fun name => negb (mem name str_dir) || mem name (allowed_for (fst cls))) (snd cls)) classes.
