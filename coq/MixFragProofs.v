(* Proofs about the combined fragment (MixFrag.v): for EVERY string, marker / entity table, size limit and depth limit
   the model's tree renders to the input, is well formed (the proved Builder rebuilds it from the model's token
   stream) and canonical in every node list (top level and heading titles). *)
From Coq Require Import List NArith ZArith Arith Bool Lia.
From MW Require Import PyBase Nodes Builder Flatten BuilderProofs StripProofs Canon.
From MW Require Import HeadingFrag HeadingFragProofs EntityFrag EntityFragProofs MixFrag.
Import ListNotations.

Lemma etext_app a b : etext (a ++ b) = etext a ++ etext b.
Proof.
  induction a as [|[c|e] a IH]; cbn [app etext]; [reflexivity| |]; rewrite IH; [reflexivity|now rewrite app_assoc].
Qed.

Lemma etext_eqsA n : etext (eqsA n) = eqs n.
Proof. induction n as [|n IH]; [reflexivity|]. cbn [eqsA etext]. now rewrite IH, eqs_S. Qed.

Lemma eqsA_add a b : eqsA (a + b) = eqsA a ++ eqsA b.
Proof. induction a as [|a IH]; [reflexivity|]. cbn [Nat.add eqsA app]. now rewrite IH. Qed.

Lemma eqsA_split n l : l <= n -> eqsA n = eqsA (n - l) ++ eqsA l.
Proof. intros H. rewrite <- eqsA_add. f_equal. lia. Qed.

Lemma a_is_eq_true a : a_is_eq a = true -> a = ET 61%N.
Proof. destruct a as [c|e]; cbn [a_is_eq]; [|discriminate]. intros H. now rewrite (is_eq_true _ H). Qed.

Lemma span_eqA_spec l : forall a r, span_eqA l = (a, r) -> l = eqsA a ++ r.
Proof.
  induction l as [|c t IH]; cbn [span_eqA]; intros a r H.
  - injection H as <- <-. reflexivity.
  - destruct (a_is_eq c) eqn:Hc.
    + destruct (span_eqA t) as [n r'] eqn:Hs. injection H as <- <-.
      cbn [eqsA app]. rewrite (a_is_eq_true _ Hc). f_equal. now apply IH.
    + injection H as <- <-. reflexivity.
Qed.

Lemma unsegsA_segsA r : forall ss tl, segsA r = (ss, tl) -> unsegsA ss tl = r.
Proof.
  induction r as [|c r' IH]; cbn [segsA]; intros ss tl H.
  - injection H as <- <-. reflexivity.
  - destruct (segsA r') as [ss0 tl0] eqn:Hs. specialize (IH _ _ eq_refl).
    destruct (a_is_eq c) eqn:Hc.
    + rewrite (a_is_eq_true _ Hc).
      destruct ss0 as [|[t b] ss'].
      * injection H as <- <-. cbn [unsegsA eqsA app] in *. now rewrite IH.
      * destruct t as [|x t].
        -- injection H as <- <-. cbn [unsegsA eqsA app] in *. now rewrite IH.
        -- injection H as <- <-. cbn [unsegsA eqsA app] in *. now rewrite IH.
    + destruct ss0 as [|[t b] ss'].
      * injection H as <- <-. cbn [unsegsA] in *. now rewrite IH.
      * injection H as <- <-. cbn [unsegsA app] in *. now rewrite IH.
Qed.

Lemma hbA_spec md cur tl : forall ss depth title l rest,
  hbA md depth cur ss = Some (title, l, rest) ->
  unsegsA ss tl = title ++ eqsA l ++ unsegsA rest tl /\ l <= cur.
Proof.
  induction ss as [|[t b] ss' IH]; cbn [hbA]; intros depth title l rest H; [discriminate|].
  set (level := Nat.min cur (Nat.min b 6)) in *.
  assert (Hlv : level <= cur /\ level <= b) by (unfold level; lia).
  destruct (if depth <? md then hbA md (S depth) cur ss' else None) as [[[after al] rest']|] eqn:Hr.
  - injection H as <- <- <-.
    destruct (depth <? md); [|discriminate].
    destruct (IH _ _ _ _ Hr) as (E & H1).
    cbn [unsegsA]. rewrite E. repeat rewrite <- app_assoc. split; [reflexivity|assumption].
  - injection H as <- <- <-. cbn [unsegsA].
    rewrite (eqsA_split b level) by lia. repeat rewrite <- app_assoc. split; [reflexivity|lia].
Qed.

(* text and well-formedness of an item list *)
Fixpoint itext (is : list item) : str :=
  match is with
  | [] => []
  | IT (ET c) :: t => c :: itext t
  | IT (EE e) :: t => str_node e ++ itext t
  | IH title l :: t => eqs l ++ etext title ++ eqs l ++ itext t
  end.

Fixpoint items_ok (is : list item) : Prop :=
  match is with
  | [] => True
  | IT a :: t => epieces_ok [a] /\ items_ok t
  | IH title _ :: t => epieces_ok title /\ items_ok t
  end.

Lemma itext_app a b : itext (a ++ b) = itext a ++ itext b.
Proof.
  induction a as [|[[c|e]|ti l] a IH]; cbn [app itext]; [reflexivity| | |]; rewrite IH; now repeat rewrite <- app_assoc.
Qed.

Lemma itext_map_IT l : itext (map IT l) = etext l.
Proof. induction l as [|[c|e] l IH]; cbn [map itext etext]; [reflexivity| |]; now rewrite IH. Qed.

Lemma epieces_ok_app a b : epieces_ok (a ++ b) <-> epieces_ok a /\ epieces_ok b.
Proof.
  induction a as [|[c|e] a IH]; cbn [app epieces_ok]; [tauto|exact IH|]. rewrite IH. tauto.
Qed.

Lemma epieces_ok_eqsA n : epieces_ok (eqsA n).
Proof. induction n; cbn [eqsA epieces_ok]; auto. Qed.

Lemma items_ok_app a b : items_ok a -> items_ok b -> items_ok (a ++ b).
Proof. induction a as [|[x|ti l] a IH]; cbn [app items_ok]; intros Ha Hb; auto; destruct Ha; split; auto. Qed.

Lemma items_ok_map_IT l : epieces_ok l -> items_ok (map IT l).
Proof.
  induction l as [|[c|e] l IH]; cbn [map items_ok epieces_ok]; intros H; auto.
  destruct H as [He H]. auto.
Qed.

Lemma a_is_nl_true a : a_is_nl a = true -> a = ET 10%N.
Proof. destruct a as [c|e]; cbn [a_is_nl]; [|discriminate]. unfold is_nl. intros H. apply N.eqb_eq in H. now subst. Qed.

Fixpoint join_textA (ls : list (list atom)) : list atom :=
  match ls with
  | [] => []
  | [l] => l
  | l :: rest => l ++ ET 10%N :: join_textA rest
  end.

Lemma linesA_nonempty s : linesA s <> [].
Proof. destruct s as [|c t]; cbn [linesA]; [discriminate|]. destruct (a_is_nl c); [discriminate|]. destruct (linesA t); discriminate. Qed.

Lemma join_linesA_text s : join_textA (linesA s) = s.
Proof.
  induction s as [|c t IH]; [reflexivity|]. cbn [linesA].
  destruct (a_is_nl c) eqn:Hc.
  - rewrite (a_is_nl_true _ Hc). pose proof (linesA_nonempty t) as Hn.
    destruct (linesA t) as [|l ls]; [contradiction|].
    change (join_textA ([] :: l :: ls)) with ([] ++ ET 10%N :: join_textA (l :: ls)). now rewrite IH.
  - destruct (linesA t) as [|l ls] eqn:Hl; [exfalso; now apply (linesA_nonempty t)|].
    destruct ls as [|l2 ls]; cbn [join_textA app] in *; now rewrite IH.
Qed.

Lemma linesA_ok s : epieces_ok s -> Forall epieces_ok (linesA s).
Proof.
  induction s as [|c t IH]; intros H; [repeat constructor|]. cbn [linesA].
  assert (Ht : epieces_ok t) by (destruct c; cbn [epieces_ok] in H; tauto).
  specialize (IH Ht). destruct (a_is_nl c).
  - constructor; [exact I|exact IH].
  - destruct (linesA t) as [|l ls]; [repeat constructor; destruct c; cbn [epieces_ok] in *; tauto|].
    inversion IH as [|? ? Hl Hls]. constructor; [|exact Hls].
    destruct c; cbn [epieces_ok] in *; tauto.
Qed.

Section WithDepth.
Variable md : nat.

Notation tok_lineA := (tok_lineA md).
Notation join_linesA := (join_linesA md).

Lemma tok_lineA_spec atoms : epieces_ok atoms -> itext (tok_lineA atoms) = etext atoms /\ items_ok (tok_lineA atoms).
Proof.
  intros Ok. unfold MixFrag.tok_lineA.
  destruct (span_eqA atoms) as [a r] eqn:Hs. pose proof (span_eqA_spec _ _ _ Hs) as Hl.
  destruct a as [|a']; [split; [now rewrite itext_map_IT|now apply items_ok_map_IT]|].
  destruct (segsA r) as [ss tl] eqn:Hg. pose proof (unsegsA_segsA _ _ _ Hg) as Hr.
  destruct (hbA md 2 (Nat.min (S a') 6) ss) as [[[title l] rest]|] eqn:Hh;
    [|split; [now rewrite itext_map_IT|now apply items_ok_map_IT]].
  destruct (hbA_spec md _ tl _ _ _ _ _ Hh) as (E & H1).
  assert (Hsp : eqsA (S a') = eqsA l ++ eqsA (S a' - l)) by (rewrite <- eqsA_add; f_equal; lia).
  assert (Hat : atoms = eqsA l ++ (eqsA (S a' - l) ++ title) ++ eqsA l ++ unsegsA rest tl).
  { rewrite Hl, <- Hr, E, Hsp. now repeat rewrite <- app_assoc. }
  split.
  - cbn [itext]. rewrite itext_map_IT. rewrite Hat.
    repeat rewrite etext_app. repeat rewrite etext_eqsA. now repeat rewrite <- app_assoc.
  - rewrite Hat in Ok. repeat (apply epieces_ok_app in Ok; destruct Ok as [? Ok]).
    cbn [items_ok]. split; [assumption|now apply items_ok_map_IT].
Qed.

Lemma join_linesA_spec ls : Forall epieces_ok ls ->
  itext (join_linesA ls) = etext (join_textA ls) /\ items_ok (join_linesA ls).
Proof.
  induction ls as [|l rest IH]; intros Hf; [split; [reflexivity|exact I]|].
  inversion Hf as [|? ? Hl Hrest]. subst.
  destruct rest as [|l2 rest]; [cbn [MixFrag.join_linesA join_textA]; now apply tok_lineA_spec|].
  change (join_linesA (l :: l2 :: rest)) with (tok_lineA l ++ IT (ET 10%N) :: join_linesA (l2 :: rest)).
  change (join_textA (l :: l2 :: rest)) with (l ++ ET 10%N :: join_textA (l2 :: rest)).
  destruct (IH Hrest) as [IHt IHo]. destruct (tok_lineA_spec l Hl) as [Ht Ho]. split.
  - rewrite itext_app, Ht, etext_app. cbn [itext etext]. now rewrite IHt.
  - apply items_ok_app; [assumption|]. cbn [items_ok epieces_ok]. auto.
Qed.
End WithDepth.

Section WithTables.
Variable markers : list N.
Variable names : list str.
Variable max_size : nat.
Variable md : nat.

Lemma mfrag_items s :
  itext (join_linesA md (linesA (scan markers names max_size 0 s))) = s /\
  items_ok (join_linesA md (linesA (scan markers names max_size 0 s))).
Proof.
  destruct (scan_spec markers names max_size s 0 (Nat.le_0_l _)) as [Et Ok]. cbn [skipn] in Et.
  destruct (join_linesA_spec md _ (linesA_ok _ Ok)) as [Ht Ho]. split; [|exact Ho].
  now rewrite Ht, join_linesA_text.
Qed.

Lemma str_mmerge is : forall acc, str_code (mmerge acc is) = acc ++ itext is.
Proof.
  induction is as [|[[c|e]|title l] t IH]; intros acc; cbn [mmerge itext].
  - rewrite str_eflush. now rewrite app_nil_r.
  - rewrite IH. now rewrite <- app_assoc.
  - rewrite str_code_app, str_eflush, str_code_cons, IH. reflexivity.
  - rewrite str_code_app, str_eflush, str_code_cons, IH.
    change (str_node (NHeading (emerge [] title) (Z.of_nat l)))
      with (repeat_str s_eq (Z.to_nat (Z.of_nat l)) ++ str_code (emerge [] title) ++ repeat_str s_eq (Z.to_nat (Z.of_nat l))).
    rewrite Nat2Z.id, str_emerge. unfold eqs. cbn [app]. now repeat rewrite <- app_assoc.
Qed.

Theorem mfrag_lossless s : str_code (mfrag_nodes markers names max_size md s) = s.
Proof.
  unfold mfrag_nodes. rewrite str_mmerge. cbn [app]. exact (proj1 (mfrag_items s)).
Qed.

Lemma wf_mmerge is : items_ok is -> forall acc, wf_code (mmerge acc is).
Proof.
  induction is as [|[[c|e]|title l] t IH]; intros Hp acc; cbn [mmerge].
  - apply wf_eflush.
  - apply IH. exact (proj2 Hp).
  - destruct Hp as [[(Hw & _) _] Hp]. apply wf_code_app'; [apply wf_eflush|]. rewrite wf_code_cons. split; [exact Hw|now apply IH].
  - destruct Hp as [Ht Hp]. apply wf_code_app'; [apply wf_eflush|]. rewrite wf_code_cons. split; [|now apply IH].
    change (wf_node (NHeading (emerge [] title) (Z.of_nat l))) with (wf_code (emerge [] title)). now apply wf_emerge.
Qed.

Theorem mfrag_wf s : wf_code (mfrag_nodes markers names max_size md s).
Proof. apply wf_mmerge. exact (proj2 (mfrag_items s)). Qed.

Theorem mfrag_end_to_end s :
  exists c, build (mfrag_tokens markers names max_size md s) = Ok c /\ str_code c = s.
Proof.
  exists (mfrag_nodes markers names max_size md s). split; [apply build_flatten_lemma, mfrag_wf|apply mfrag_lossless].
Qed.

Lemma canon_list_mmerge is : items_ok is -> forall acc, canon_list (mmerge acc is) = true.
Proof.
  induction is as [|[[c|e]|title l] t IH]; intros Hp acc; cbn [mmerge].
  - destruct acc; reflexivity.
  - apply IH. exact (proj2 Hp).
  - destruct Hp as [[(_ & _ & Hnt) _] Hp]. specialize (IH Hp []).
    assert (Hc : canon_list (e :: mmerge [] t) = true).
    { cbn [canon_list]. rewrite (not_text_not_empty _ Hnt), Hnt, IH. reflexivity. }
    destruct acc as [|x acc]; [exact Hc|].
    cbn [eflush app canon_list is_empty_text is_text]. rewrite (hd_not_text e (mmerge [] t) Hnt). cbn [negb andb].
    exact Hc.
  - destruct Hp as [_ Hp]. specialize (IH Hp []).
    assert (Hc : canon_list (NHeading (emerge [] title) (Z.of_nat l) :: mmerge [] t) = true).
    { cbn [canon_list is_empty_text is_text negb andb]. exact IH. }
    destruct acc as [|x acc]; [exact Hc|].
    cbn [eflush app canon_list is_empty_text is_text hd_is_text negb andb]. exact Hc.
Qed.

Lemma canon_each_mmerge is : items_ok is -> forall acc, canon_each (mmerge acc is) = true.
Proof.
  induction is as [|[[c|e]|title l] t IH]; intros Hp acc; cbn [mmerge].
  - destruct acc; reflexivity.
  - apply IH. exact (proj2 Hp).
  - destruct Hp as [[(_ & Hcn & _) _] Hp]. rewrite canon_each_app'. cbn [canon_each]. rewrite Hcn, (IH Hp), andb_true_r.
    destruct acc; reflexivity.
  - destruct Hp as [Ht Hp]. rewrite canon_each_app'. cbn [canon_each]. rewrite (IH Hp), andb_true_r.
    rewrite canon_node_heading. unfold canon_code. rewrite (canon_list_emerge _ Ht), (canon_each_emerge _ Ht).
    destruct acc; reflexivity.
Qed.

Theorem mfrag_canonical s : canon_code (mfrag_nodes markers names max_size md s) = true.
Proof.
  pose proof (proj2 (mfrag_items s)) as Hp.
  unfold canon_code, mfrag_nodes. now rewrite canon_list_mmerge, canon_each_mmerge.
Qed.
End WithTables.

(* the combined model depends on the marker table only through the marker test on the characters of its input *)
Theorem mfrag_tokens_ext (m1 m2 : list N) (names : list str) (max_size md : nat) s :
  (forall c, In c s -> is_marker m1 c = is_marker m2 c) ->
  mfrag_tokens m1 names max_size md s = mfrag_tokens m2 names max_size md s.
Proof. intros H. unfold mfrag_tokens, mfrag_nodes. now rewrite (scan_ext m1 m2 names max_size s H). Qed.
