(* One-hole contexts of the node tree (C08, C10, C18): a child Wikicode sits in its node, and the node in
   the page, in such a way that the page's text is  pre ++ text(child) ++ post  with pre and post
   independent of the child.  So replacing the contents of a nested Wikicode (what every edit method and
   every setter does after the search has found its list) changes the page's text exactly in that
   child's span and nowhere else.  [node_hole] enumerates the places; [hole_covers_children] shows
   that every Wikicode that __children__ yields (Strip.children_of) is such a place. *)
From MW Require Import ListAux PyBase Nodes Strip BuilderProofs StripProofs.

Definition attr_t := (list node * option (list node) * option str * (str * str * str))%type.
Definition param_t := (list node * list node * bool)%type.

Inductive node_hole : (code -> node) -> Prop :=
| H_heading l : node_hole (fun c => NHeading c l)
| H_wl_title x : node_hole (fun c => NWikilink c x)
| H_wl_text t : node_hole (fun c => NWikilink t (Some c))
| H_arg_name d : node_hole (fun c => NArgument c d)
| H_arg_default nm : node_hole (fun c => NArgument nm (Some c))
| H_ext_url t b s : node_hole (fun c => NExtLink c t b s)
| H_ext_title u s : node_hole (fun c => NExtLink u (Some c) true s)   (* a free link never renders a title *)
| H_tpl_name ps : node_hole (fun c => NTemplate c ps)
| H_tpl_pname nm (ps1 : list param_t) v ps2 : node_hole (fun c => NTemplate nm (ps1 ++ (c, v, true) :: ps2))
| H_tpl_pvalue nm (ps1 : list param_t) k sk ps2 : node_hole (fun c => NTemplate nm (ps1 ++ (k, c, sk) :: ps2))
| H_tag_contents tg ats wm inv imp pad clt sep cwm :
    node_hole (fun c => NTag tg c ats wm false inv imp pad clt sep cwm)
| H_tag_name ct ats wm sc inv imp pad clt sep cwm : norm_opt wm = None ->
    node_hole (fun c => NTag c ct ats wm sc inv imp pad clt sep cwm)
| H_tag_closing tg ct ats wm inv imp pad sep cwm : norm_opt wm = None ->
    node_hole (fun c => NTag tg ct ats wm false inv imp pad c sep cwm)
| H_tag_attr_name tg ct (a1 : list attr_t) v q pads a2 wm sc inv imp pad clt sep cwm :
    node_hole (fun c => NTag tg ct (a1 ++ (c, v, q, pads) :: a2) wm sc inv imp pad clt sep cwm)
| H_tag_attr_value tg ct (a1 : list attr_t) nm q pads a2 wm sc inv imp pad clt sep cwm :
    node_hole (fun c => NTag tg ct (a1 ++ (nm, Some c, q, pads) :: a2) wm sc inv imp pad clt sep cwm).

(* a place anywhere below a node list: the list itself, or inside a child of one of its nodes *)
Inductive code_hole : (code -> code) -> Prop :=
| CH_here : code_hole (fun c => c)
| CH_in pre post F G : node_hole F -> code_hole G -> code_hole (fun c => pre ++ F (G c) :: post).

(* ---- rendering of parameter and attribute lists around one element *)
Section Join.
Variable sc : list node -> str.
Definition join_before (ps : list param_t) : str := flat_map (fun p => str_param_with sc p ++ s_pipe) ps.
Definition join_after (ps : list param_t) : str := flat_map (fun p => s_pipe ++ str_param_with sc p) ps.

Lemma join_cons p ps : join_params_with sc (p :: ps) = str_param_with sc p ++ join_after ps.
Proof.
  revert p. induction ps as [|q ps IH]; intros p.
  - cbn [join_params_with join_after flat_map]. now rewrite app_nil_r.
  - change (join_params_with sc (p :: q :: ps)) with (str_param_with sc p ++ s_pipe ++ join_params_with sc (q :: ps)).
    rewrite IH. cbn [join_after flat_map]. now rewrite <- !app_assoc.
Qed.

Lemma join_split ps1 p ps2 :
  join_params_with sc (ps1 ++ p :: ps2) = join_before ps1 ++ str_param_with sc p ++ join_after ps2.
Proof.
  induction ps1 as [|q ps1 IH].
  - cbn [app join_before flat_map]. apply join_cons.
  - change ((q :: ps1) ++ p :: ps2) with (q :: (ps1 ++ p :: ps2)).
    destruct (ps1 ++ p :: ps2) as [|r rest] eqn:E; [destruct ps1; discriminate|].
    change (join_params_with sc (q :: r :: rest)) with (str_param_with sc q ++ s_pipe ++ join_params_with sc (r :: rest)).
    rewrite IH. cbn [join_before flat_map]. now rewrite <- !app_assoc.
Qed.

Lemma attrs_split (a1 : list attr_t) a a2 :
  str_attrs_with sc (a1 ++ a :: a2) = str_attrs_with sc a1 ++ str_attr_with sc a ++ str_attrs_with sc a2.
Proof.
  induction a1 as [|b a1 IH]; [reflexivity|].
  change ((b :: a1) ++ a :: a2) with (b :: (a1 ++ a :: a2)). cbn [str_attrs_with]. rewrite IH. now rewrite <- !app_assoc.
Qed.
End Join.

Lemma str_template_nonempty nm ps : ps <> [] ->
  str_node (NTemplate nm ps) = s_lbrace2 ++ str_code nm ++ s_pipe ++ join_params_with str_code ps ++ s_rbrace2.
Proof. destruct ps; [congruence|reflexivity]. Qed.

Lemma str_tag_eq tg ct ats wm sc inv imp pad clt sep cwm :
  str_node (NTag tg ct ats wm sc inv imp pad clt sep cwm) =
  match norm_opt wm with
  | Some w => if sc then w ++ str_attrs_with str_code ats ++ pad ++ opt_str sep
              else w ++ str_attrs_with str_code ats ++ pad ++ opt_str sep ++ str_code ct ++ opt_str cwm
  | None => let open := (if inv then s_lt_slash else s_lt) ++ str_code tg ++ str_attrs_with str_code ats in
            if sc then open ++ pad ++ (if imp then s_gt else s_slash_gt)
            else open ++ pad ++ s_gt ++ str_code ct ++ s_lt_slash ++ str_code clt ++ s_gt
  end.
Proof. reflexivity. Qed.

Ltac assoc_done := intros c; repeat rewrite <- app_assoc; reflexivity.

Theorem node_hole_span F : node_hole F ->
  exists pre post, forall c, str_node (F c) = pre ++ str_code c ++ post.
Proof.
  intros H. destruct H.
  - exists (repeat_str s_eq (Z.to_nat l)), (repeat_str s_eq (Z.to_nat l)). intros c. reflexivity.
  - destruct x as [x|].
    + exists s_lbrack2, (s_pipe ++ str_code x ++ s_rbrack2). intros c. reflexivity.
    + exists s_lbrack2, s_rbrack2. intros c. reflexivity.
  - exists (s_lbrack2 ++ str_code t ++ s_pipe), s_rbrack2.
    intros c. change (str_node (NWikilink t (Some c))) with (s_lbrack2 ++ str_code t ++ s_pipe ++ str_code c ++ s_rbrack2).
    now repeat rewrite <- app_assoc.
  - destruct d as [d|].
    + exists s_lbrace3, (s_pipe ++ str_code d ++ s_rbrace3). intros c. reflexivity.
    + exists s_lbrace3, s_rbrace3. intros c. reflexivity.
  - exists (s_lbrace3 ++ str_code nm ++ s_pipe), s_rbrace3.
    intros c. change (str_node (NArgument nm (Some c))) with (s_lbrace3 ++ str_code nm ++ s_pipe ++ str_code c ++ s_rbrace3).
    now repeat rewrite <- app_assoc.
  - destruct b.
    + destruct t as [t|].
      * destruct s.
        -- exists s_lbrack, (str_code t ++ s_rbrack). intros c. reflexivity.
        -- exists s_lbrack, (s_space ++ str_code t ++ s_rbrack). intros c. reflexivity.
      * exists s_lbrack, s_rbrack. intros c. reflexivity.
    + exists [], []. intros c.
      change (str_node (NExtLink c t false s)) with (str_code c). now rewrite app_nil_r.
  - destruct s.
    + exists (s_lbrack ++ str_code u), s_rbrack. intros c.
      change (str_node (NExtLink u (Some c) true true)) with (s_lbrack ++ str_code u ++ str_code c ++ s_rbrack).
      now repeat rewrite <- app_assoc.
    + exists (s_lbrack ++ str_code u ++ s_space), s_rbrack. intros c.
      change (str_node (NExtLink u (Some c) true false)) with (s_lbrack ++ str_code u ++ s_space ++ str_code c ++ s_rbrack).
      now repeat rewrite <- app_assoc.
  - (* template name *)
    destruct ps as [|p ps].
    + exists s_lbrace2, s_rbrace2. intros c. reflexivity.
    + exists s_lbrace2, (s_pipe ++ join_params_with str_code (p :: ps) ++ s_rbrace2). intros c. reflexivity.
  - (* parameter name (shown) *)
    exists (s_lbrace2 ++ str_code nm ++ s_pipe ++ join_before str_code ps1),
           (s_eq ++ str_code v ++ join_after str_code ps2 ++ s_rbrace2).
    intros c. rewrite str_template_nonempty by (destruct ps1; discriminate).
    rewrite join_split. cbn [str_param_with]. now repeat rewrite <- app_assoc.
  - (* parameter value *)
    destruct sk.
    + exists (s_lbrace2 ++ str_code nm ++ s_pipe ++ join_before str_code ps1 ++ str_code k ++ s_eq),
             (join_after str_code ps2 ++ s_rbrace2).
      intros c. rewrite str_template_nonempty by (destruct ps1; discriminate).
      rewrite join_split. cbn [str_param_with]. now repeat rewrite <- app_assoc.
    + exists (s_lbrace2 ++ str_code nm ++ s_pipe ++ join_before str_code ps1),
             (join_after str_code ps2 ++ s_rbrace2).
      intros c. rewrite str_template_nonempty by (destruct ps1; discriminate).
      rewrite join_split. cbn [str_param_with]. now repeat rewrite <- app_assoc.
  - (* tag contents *)
    destruct (norm_opt wm) as [w|] eqn:E.
    + exists (w ++ str_attrs_with str_code ats ++ pad ++ opt_str sep), (opt_str cwm).
      intros c. rewrite str_tag_eq, E. now repeat rewrite <- app_assoc.
    + exists ((if inv then s_lt_slash else s_lt) ++ str_code tg ++ str_attrs_with str_code ats ++ pad ++ s_gt),
             (s_lt_slash ++ str_code clt ++ s_gt).
      intros c. rewrite str_tag_eq, E. cbn zeta. now repeat rewrite <- app_assoc.
  - (* tag name *)
    destruct sc.
    + exists (if inv then s_lt_slash else s_lt), (str_attrs_with str_code ats ++ pad ++ (if imp then s_gt else s_slash_gt)).
      intros c. rewrite str_tag_eq, H. cbn zeta. now repeat rewrite <- app_assoc.
    + exists (if inv then s_lt_slash else s_lt),
             (str_attrs_with str_code ats ++ pad ++ s_gt ++ str_code ct ++ s_lt_slash ++ str_code clt ++ s_gt).
      intros c. rewrite str_tag_eq, H. cbn zeta. now repeat rewrite <- app_assoc.
  - (* closing tag *)
    exists ((if inv then s_lt_slash else s_lt) ++ str_code tg ++ str_attrs_with str_code ats ++ pad ++ s_gt ++ str_code ct ++ s_lt_slash), s_gt.
    intros c. rewrite str_tag_eq, H. cbn zeta. now repeat rewrite <- app_assoc.
  - (* attribute name *)
    assert (Ha : exists x y, forall c, str_attrs_with str_code (a1 ++ (c, v, q, pads) :: a2) = x ++ str_code c ++ y).
    { destruct pads as [[pf pb] pa].
      destruct v as [v|].
      - destruct (norm_opt q) as [qq|] eqn:Eq.
        + exists (str_attrs_with str_code a1 ++ pf), (pb ++ s_eq ++ pa ++ qq ++ str_code v ++ qq ++ str_attrs_with str_code a2).
          intros c. rewrite attrs_split. cbn [str_attr_with]. rewrite Eq. now repeat rewrite <- app_assoc.
        + exists (str_attrs_with str_code a1 ++ pf), (pb ++ s_eq ++ pa ++ str_code v ++ str_attrs_with str_code a2).
          intros c. rewrite attrs_split. cbn [str_attr_with]. rewrite Eq. now repeat rewrite <- app_assoc.
      - exists (str_attrs_with str_code a1 ++ pf), (pb ++ str_attrs_with str_code a2).
        intros c. rewrite attrs_split. cbn [str_attr_with]. now repeat rewrite <- app_assoc. }
    destruct Ha as (x & y & Ha).
    destruct (norm_opt wm) as [w|] eqn:E; destruct sc.
    + exists (w ++ x), (y ++ pad ++ opt_str sep). intros c. rewrite str_tag_eq, E, Ha. now repeat rewrite <- app_assoc.
    + exists (w ++ x), (y ++ pad ++ opt_str sep ++ str_code ct ++ opt_str cwm). intros c. rewrite str_tag_eq, E, Ha. now repeat rewrite <- app_assoc.
    + exists ((if inv then s_lt_slash else s_lt) ++ str_code tg ++ x), (y ++ pad ++ (if imp then s_gt else s_slash_gt)).
      intros c. rewrite str_tag_eq, E, Ha. cbn zeta. now repeat rewrite <- app_assoc.
    + exists ((if inv then s_lt_slash else s_lt) ++ str_code tg ++ x), (y ++ pad ++ s_gt ++ str_code ct ++ s_lt_slash ++ str_code clt ++ s_gt).
      intros c. rewrite str_tag_eq, E, Ha. cbn zeta. now repeat rewrite <- app_assoc.
  - (* attribute value *)
    assert (Ha : exists x y, forall c, str_attrs_with str_code (a1 ++ (nm, Some c, q, pads) :: a2) = x ++ str_code c ++ y).
    { destruct pads as [[pf pb] pa].
      destruct (norm_opt q) as [qq|] eqn:Eq.
      - exists (str_attrs_with str_code a1 ++ pf ++ str_code nm ++ pb ++ s_eq ++ pa ++ qq), (qq ++ str_attrs_with str_code a2).
        intros c. rewrite attrs_split. cbn [str_attr_with]. rewrite Eq. now repeat rewrite <- app_assoc.
      - exists (str_attrs_with str_code a1 ++ pf ++ str_code nm ++ pb ++ s_eq ++ pa), (str_attrs_with str_code a2).
        intros c. rewrite attrs_split. cbn [str_attr_with]. rewrite Eq. now repeat rewrite <- app_assoc. }
    destruct Ha as (x & y & Ha).
    destruct (norm_opt wm) as [w|] eqn:E; destruct sc.
    + exists (w ++ x), (y ++ pad ++ opt_str sep). intros c. rewrite str_tag_eq, E, Ha. now repeat rewrite <- app_assoc.
    + exists (w ++ x), (y ++ pad ++ opt_str sep ++ str_code ct ++ opt_str cwm). intros c. rewrite str_tag_eq, E, Ha. now repeat rewrite <- app_assoc.
    + exists ((if inv then s_lt_slash else s_lt) ++ str_code tg ++ x), (y ++ pad ++ (if imp then s_gt else s_slash_gt)).
      intros c. rewrite str_tag_eq, E, Ha. cbn zeta. now repeat rewrite <- app_assoc.
    + exists ((if inv then s_lt_slash else s_lt) ++ str_code tg ++ x), (y ++ pad ++ s_gt ++ str_code ct ++ s_lt_slash ++ str_code clt ++ s_gt).
      intros c. rewrite str_tag_eq, E, Ha. cbn zeta. now repeat rewrite <- app_assoc.
Qed.

(* the page's text around a nested Wikicode does not depend on that Wikicode *)
Theorem code_hole_span K : code_hole K ->
  exists pre post, forall c, str_code (K c) = pre ++ str_code c ++ post.
Proof.
  intros H. induction H as [|pre post F G HF HG IH].
  - exists [], []. intros c. now rewrite app_nil_r.
  - destruct IH as (a & b & IH). destruct (node_hole_span F HF) as (x & y & HFs).
    exists (str_code pre ++ x ++ a), (b ++ y ++ str_code post).
    intros c. rewrite str_code_app, str_code_cons, HFs, IH. now repeat rewrite <- app_assoc.
Qed.

(* replacing the contents of a nested Wikicode changes exactly its span of the page's text *)
Corollary nested_edit_span K : code_hole K ->
  exists pre post, forall old new,
    str_code (K old) = pre ++ str_code old ++ post /\ str_code (K new) = pre ++ str_code new ++ post.
Proof.
  intros H. destruct (code_hole_span K H) as (pre & post & E). exists pre, post. intros old new. split; apply E.
Qed.

(* every Wikicode that __children__ yields is such a place (the title of an unbracketed link, which can only
   be made by hand and is never rendered, is the one exception) *)
Theorem hole_covers_children n c : In c (children_of n) ->
  (exists F, node_hole F /\ F c = n) \/ (exists u s, n = NExtLink u (Some c) false s).
Proof.
  destruct n as [v|cm|t l|t x|nm d|u t br sp|v nmd hx hc|nm ps|tg ct ats wm sc inv imp pad clt sep cwm];
    cbn [children_of]; intros Hin; try contradiction.
  - destruct Hin as [<-|[]]. left. exists (fun c => NHeading c l). split; [constructor|reflexivity].
  - destruct Hin as [<-|Hin].
    + left. exists (fun c => NWikilink c x). split; [constructor|reflexivity].
    + destruct x as [x|]; [|contradiction]. destruct Hin as [<-|[]].
      left. exists (fun c => NWikilink t (Some c)). split; [constructor|reflexivity].
  - destruct Hin as [<-|Hin].
    + left. exists (fun c => NArgument c d). split; [constructor|reflexivity].
    + destruct d as [d|]; [|contradiction]. destruct Hin as [<-|[]].
      left. exists (fun c => NArgument nm (Some c)). split; [constructor|reflexivity].
  - destruct Hin as [<-|Hin].
    + left. exists (fun c => NExtLink c t br sp). split; [constructor|reflexivity].
    + destruct t as [t|]; [|contradiction]. destruct Hin as [<-|[]].
      destruct br.
      * left. exists (fun c => NExtLink u (Some c) true sp). split; [constructor|reflexivity].
      * right. exists u, sp. reflexivity.
  - destruct Hin as [<-|Hin].
    + left. exists (fun c => NTemplate c ps). split; [constructor|reflexivity].
    + apply in_flat_map in Hin. destruct Hin as ([[k v] sk] & Hp & Hc).
      apply in_split in Hp. destruct Hp as (ps1 & ps2 & ->). left.
      destruct sk.
      * destruct Hc as [<-|[<-|[]]].
        -- exists (fun c => NTemplate nm (ps1 ++ (c, v, true) :: ps2)). split; [constructor|reflexivity].
        -- exists (fun c => NTemplate nm (ps1 ++ (k, c, true) :: ps2)). split; [constructor|reflexivity].
      * destruct Hc as [<-|[]].
        exists (fun c => NTemplate nm (ps1 ++ (k, c, false) :: ps2)). split; [constructor|reflexivity].
  - left. apply in_app_or in Hin. destruct Hin as [Hin|Hin].
    + destruct (norm_opt wm) eqn:E; cbn [is_none_s] in Hin; [contradiction|]. destruct Hin as [<-|[]].
      exists (fun c => NTag c ct ats wm sc inv imp pad clt sep cwm). split; [now constructor|reflexivity].
    + apply in_app_or in Hin. destruct Hin as [Hin|Hin].
      * apply in_flat_map in Hin. destruct Hin as ([[[anm av] aq] apads] & Ha & Hc).
        apply in_split in Ha. destruct Ha as (a1 & a2 & ->).
        destruct Hc as [<-|Hc].
        -- exists (fun c => NTag tg ct (a1 ++ (c, av, aq, apads) :: a2) wm sc inv imp pad clt sep cwm). split; [constructor|reflexivity].
        -- destruct av as [av|]; [|contradiction]. destruct Hc as [<-|[]].
           exists (fun c => NTag tg ct (a1 ++ (anm, Some c, aq, apads) :: a2) wm sc inv imp pad clt sep cwm). split; [constructor|reflexivity].
      * destruct sc; [contradiction|]. destruct Hin as [<-|Hin].
        -- exists (fun c => NTag tg c ats wm false inv imp pad clt sep cwm). split; [constructor|reflexivity].
        -- destruct (norm_opt wm) eqn:E; cbn [is_none_s] in Hin; [contradiction|].
           destruct (str_code clt); [contradiction|]. destruct Hin as [<-|[]].
           exists (fun c => NTag tg ct ats wm false inv imp pad c sep cwm). split; [now constructor|reflexivity].
Qed.
