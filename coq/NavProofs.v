From MW Require Import ListAux PyBase Nodes Strip.

(* the pre-order walk of Wikicode._get_children is: the node, then the walks of the Wikicodes that
   __children__ yields, in that order *)
Lemma descend_code_app a b : descend_code (a ++ b) = descend_code a ++ descend_code b.
Proof. induction a as [|x a IH]; cbn [app descend_code]; [reflexivity|]. now rewrite IH, app_assoc. Qed.

Theorem descend_children_lemma n : descend n = n :: flat_map descend_code (children_of n).
Proof.
  destruct n as [v|c|t l|t [x|]|nm [d|]|u [t|] br sp|v nmd hx hc|nm ps|tg ct ats wm sc inv imp pad clt sep cwm];
    try (cbn [descend children_of flat_map opt_code app]; rewrite ?app_nil_r; reflexivity).
  - (* Template *) cbn [descend children_of flat_map]. f_equal. f_equal.
    induction ps as [|[[k v] sk] ps IH]; [reflexivity|].
    cbn [flat_map]. rewrite flat_map_app. rewrite <- IH. destruct sk; cbn [flat_map app]; rewrite ?app_nil_r, <- ?app_assoc; reflexivity.
  - (* Tag *) cbn [descend children_of]. f_equal. rewrite !flat_map_app. f_equal; [|f_equal].
    + destruct (is_none_s (norm_opt wm)); cbn [flat_map app]; rewrite ?app_nil_r; reflexivity.
    + induction ats as [|[[[n0 v] q] pads] ats IH]; [reflexivity|].
      cbn [flat_map]. rewrite flat_map_app. rewrite <- IH. destruct v; cbn [flat_map opt_code app]; rewrite ?app_nil_r, <- ?app_assoc; reflexivity.
    + destruct sc; [reflexivity|]. cbn [flat_map]. f_equal.
      destruct (is_none_s (norm_opt wm)); [|reflexivity]. destruct (str_code clt); cbn [flat_map app]; rewrite ?app_nil_r; reflexivity.
Qed.

(* every Wikicode that contributes text to a node is yielded by __children__:
   emptying all the others does not change the rendering *)
Lemma join_hidden sc ps :
  join_params_with sc (map (fun p : param => let '(k, v, sk) := p in ((if sk then k else []), v, sk)) ps)
  = join_params_with sc ps.
Proof.
  induction ps as [|[[k v] sk] ps IH]; [reflexivity|]. cbn [map join_params_with].
  rewrite IH. destruct ps as [|q ps]; cbn [map]; destruct sk; reflexivity.
Qed.

Theorem children_cover_str_lemma n : str_node (prune n) = str_node n.
Proof.
  destruct n as [v|c|t l|t x|nm d|u t br sp|v nmd hx hc|nm ps|tg ct ats wm sc inv imp pad clt sep cwm];
    try reflexivity.
  - (* Template: hidden keys are not rendered *)
    cbn [prune str_node]. destruct ps as [|p ps]; [reflexivity|].
    rewrite join_hidden. reflexivity.
  - (* Tag *)
    cbn [prune str_node]. destruct (norm_opt wm) eqn:Ewm; cbn [is_none_s negb orb].
    + destruct sc; reflexivity.
    + destruct sc; cbn [orb]; reflexivity.
Qed.
