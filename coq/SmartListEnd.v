(* C11 / C13: appending to the parent and the views that run to its end.
   After parent.extend(xs) (append is extend [x]) every registered view of that parent whose end is the end of the
   parent - an open-ended view, or one whose explicit stop equals len(parent) - again ends at the end of the parent,
   so it shows the new items; its start does not move unless it was an empty view at the very end. *)
From MW Require Import ListAux PyBase PyList SliceLemmas SmartList SmartListProofs.
Local Open Scope Z_scope.

Section E.
Context {A : Type}.

Lemma slice_indices_at_end len : 0 <= len -> slice_indices len (Some len) (Some len) = (len, len).
Proof.
  intros H. unfold slice_indices, adj_opt, adj.
  destruct (len <? 0) eqn:E; [apply Z.ltb_lt in E; lia|]. rewrite Z.min_id, Z.max_id. reflexivity.
Qed.

Theorem extend_reaches_views_at_the_end (st : @sl A) (p : nat) (xs : list A) (k : nat) (v : view) :
  (p < length (stores st))%nat ->
  nth_error (views st) k = Some v -> v_store v = p ->
  V_stop st v = zlen (store st p) ->
  let st' := P_extend st p xs in
  exists v', nth_error (views st') k = Some v' /\ v_store v' = p /\
             V_stop st' v' = zlen (store st' p) /\ zlen (store st' p) = zlen (store st p) + zlen xs /\
             (v_start v < zlen (store st p) -> v_start v' = v_start v).
Proof.
  intros Hp Hk Hs Hstop st'. subst st'. unfold P_extend, P_setslice.
  rewrite (slice_indices_at_end _ (zlen_nonneg (store st p))).
  set (n := zlen (store st p)) in *.
  assert (Hstore : store (set_store st p (zsplice (store st p) n n xs) (shift_children (views st) p n n (zlen xs))) p
                   = zsplice (store st p) n n xs).
  { unfold set_store, store. cbn. now apply nth_set_nth_same. }
  assert (Hlen : zlen (zsplice (store st p) n n xs) = n + zlen xs).
  { rewrite zlen_zsplice; [lia|subst n; pose proof (zlen_nonneg (store st p)); lia|subst n; lia]. }
  exists (shift_view n n (zlen xs) v). repeat split.
  - unfold set_store. cbn [views]. unfold shift_children. rewrite nth_error_map, Hk. cbn [option_map].
    rewrite Hs, Nat.eqb_refl. reflexivity.
  - cbn. exact Hs.
  - unfold V_stop. cbn [shift_view v_stop v_store]. rewrite Hs, Hstore, Hlen.
    unfold V_stop in Hstop. rewrite Hs in Hstop. fold n in Hstop.
    destruct (v_stop v) as [ce|]; [|reflexivity]. subst ce.
    rewrite (proj2 (Z.geb_le n n)) by lia. lia.
  - rewrite Hstore. exact Hlen.
  - intros Hlt. cbn [shift_view v_start]. destruct (v_start v >? n) eqn:E; [apply Z.gtb_lt in E; lia|reflexivity].
Qed.
End E.
