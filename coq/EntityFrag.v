(* A second fragment of the TOKENIZER inside the model: HTML entities and HTML comments in running text.  Sub-language: the markers
   '&', '#', ';' and non-markers, on ONE line, not beginning with '#' or ';' (at a line start those are list
   markers).  Follows tokenizer.py _parse ('&' branch, default branch), _parse_entity, _really_parse_entity and the
   same functions of tok_parse.c.

   - after '&' comes, optionally, '#' (numeric) and then ONE chunk: the maximal run of non-markers (`chunk`);
   - numeric: an initial 'x' / 'X' makes it hexadecimal (the character is kept in the token) and must be followed by
     at least one digit; all characters must be (hex) digits; after stripping leading zeros at most
     MAX_ENTITY_SIZE digits may remain and the value must lie in 1 .. 0x10FFFF;
   - named: ASCII letters and digits only, and the name must be in the entity table (gen/Tables.v, regenerated);
   - the chunk must be followed by ';' at once; any failure (BadRoute) rewinds and emits the '&' as text;
   - text pieces are merged by the text buffer (`emerge`).

   `scan skip s` walks the input once; `skip` is the number of characters still covered by the entity just
   recognised (so that the function is structurally recursive).                                              *)
From Coq Require Import List NArith ZArith Arith Bool String Ascii.
From MW Require Import PyBase Nodes Flatten.
Import ListNotations.
Local Open Scope N_scope.

Section WithTables.
Variable markers : list N.            (* MARKERS of the tokenizer under test *)
Variable names : list str.            (* html.entities.entitydefs keys / the C table, as code points *)
Variable max_size : nat.              (* MAX_ENTITY_SIZE *)

Definition is_marker (c : N) : bool := existsb (N.eqb c) markers.

Fixpoint chunk (s : str) : str * str :=
  match s with
  | c :: t => if is_marker c then ([], s) else (let '(a, r) := chunk t in (c :: a, r))
  | [] => ([], [])
  end.

Definition is_digit (c : N) : bool := (48 <=? c) && (c <=? 57).
Definition is_hex (c : N) : bool := is_digit c || ((65 <=? c) && (c <=? 70)) || ((97 <=? c) && (c <=? 102)).
Definition is_alnum_ascii (c : N) : bool := is_digit c || ((65 <=? c) && (c <=? 90)) || ((97 <=? c) && (c <=? 122)).
Definition hexval (c : N) : N := if is_digit c then c - 48 else if c <=? 70 then c - 55 else c - 87.

Fixpoint lstrip0 (s : str) : str := match s with 48 :: t => lstrip0 t | _ => s end.
Definition value_of (base : N) (s : str) : N := fold_left (fun acc c => acc * base + hexval c) s 0.
Definition in_range (base : N) (s : str) : bool :=
  let d := lstrip0 s in
  (Nat.leb (List.length d) max_size) && (1 <=? value_of base d) && (value_of base d <=? 1114111).

Definition str_eqb (a b : str) : bool := if list_eq_dec N.eq_dec a b then true else false.
Definition starts_semi (s : str) : bool := match s with 59 :: _ => true | _ => false end.

(* what follows the '&': the entity node and the number of characters it covers (without the '&') *)
Definition try_entity (t : str) : option (node * nat) :=
  match t with
  | 35 :: t1 =>
      let '(ck, rest) := chunk t1 in
      match ck with
      | [] => None
      | x :: ds =>
          if (x =? 120) || (x =? 88) then
            match ds with
            | [] => None
            | _ => if forallb is_hex ds && starts_semi rest && in_range 16 ds
                   then Some (NEntity ds false true [x], (3 + List.length ds)%nat) else None
            end
          else if forallb is_digit ck && starts_semi rest && in_range 10 ck
               then Some (NEntity ck false false [120], (2 + List.length ck)%nat) else None
      end
  | _ =>
      let '(ck, rest) := chunk t in
      match ck with
      | [] => None
      | _ => if forallb is_alnum_ascii ck && starts_semi rest && existsb (str_eqb ck) names
             then Some (NEntity ck true false [120], (1 + List.length ck)%nat) else None
      end
  end.

(* HTML comments (_parse_comment / Tokenizer_parse_comment): after "<!--" the FIRST "-->" ends the comment, whose body is
   kept verbatim (no entity is recognised inside); without an end the "<!--" is text.  Sub-language: '<' is followed by
   '!', '-', '>', '<', '&', '#', ';' or the end (a letter after '<' starts a tag), and the input does not begin with '-'. *)
Definition starts_close (s : str) : bool := match s with 45 :: 45 :: 62 :: _ => true | _ => false end.
Fixpoint find_end (s : str) : option str :=
  match s with
  | [] => None
  | c :: t => if starts_close s then Some []
              else match find_end t with Some b => Some (c :: b) | None => None end
  end.
(* what follows the '<': the comment node and the number of characters it covers (without the '<') *)
Definition try_comment (t : str) : option (node * nat) :=
  match t with
  | 33 :: 45 :: 45 :: rest =>
      match find_end rest with
      | Some b => Some (NComment b, (6 + List.length b)%nat)
      | None => None
      end
  | _ => None
  end.

Inductive epiece := ET (c : N) | EE (n : node).

Fixpoint scan (skip : nat) (s : str) : list epiece :=
  match s with
  | [] => []
  | c :: t =>
      match skip with
      | S k => scan k t
      | O => if c =? 38 then
               match try_entity t with
               | Some (e, k) => EE e :: scan k t
               | None => ET c :: scan 0 t
               end
             else if c =? 60 then
               match try_comment t with
               | Some (e, k) => EE e :: scan k t
               | None => ET c :: scan 0 t
               end
             else ET c :: scan 0 t
      end
  end.

Definition eflush (acc : str) : code := match acc with [] => [] | _ => [NText acc] end.

Fixpoint emerge (acc : str) (ps : list epiece) : code :=
  match ps with
  | [] => eflush acc
  | ET c :: t => emerge (acc ++ [c]) t
  | EE e :: t => eflush acc ++ e :: emerge [] t
  end.

Definition efrag_nodes (s : str) : code := emerge [] (scan 0 s).
Definition efrag_tokens (s : str) : list token := fl_code (efrag_nodes s).
End WithTables.

Fixpoint codes_of_string (s : string) : str :=
  match s with
  | EmptyString => []
  | String a r => N_of_ascii a :: codes_of_string r
  end.
