(* Proofs about the heading fragment of the tokenizer (HeadingFrag.v): for EVERY input string and every depth limit
   the model's token stream spells the input, is the flattening of a well-formed tree (so the proved Builder
   rebuilds exactly that tree and its rendering is the input), is canonical, and heading levels are in 1..6. *)
From Coq Require Import List NArith ZArith Arith Bool Lia.
From MW Require Import PyBase Nodes Builder Flatten BuilderProofs StripProofs Canon HeadingFrag.
Import ListNotations.

Lemma eqs_S n : eqs (S n) = 61%N :: eqs n.
Proof. reflexivity. Qed.

Lemma eqs_add a b : eqs (a + b) = eqs a ++ eqs b.
Proof. induction a as [|a IH]; [reflexivity|]. cbn [Nat.add]. rewrite !eqs_S, IH. reflexivity. Qed.

Lemma eqs_split n l : l <= n -> eqs n = eqs (n - l) ++ eqs l.
Proof. intros H. rewrite <- eqs_add. f_equal. lia. Qed.

Lemma is_eq_true c : is_eq c = true -> c = 61%N.
Proof. unfold is_eq. apply N.eqb_eq. Qed.

Lemma span_eq_spec l : forall a r, span_eq l = (a, r) -> l = eqs a ++ r.
Proof.
  induction l as [|c t IH]; cbn [span_eq]; intros a r H.
  - injection H as <- <-. reflexivity.
  - destruct (is_eq c) eqn:Hc.
    + destruct (span_eq t) as [n r'] eqn:Hs. injection H as <- <-.
      rewrite eqs_S. cbn [app]. rewrite (is_eq_true _ Hc). f_equal. now apply IH.
    + injection H as <- <-. reflexivity.
Qed.

Lemma unsegs_segs r : forall ss tl, segs r = (ss, tl) -> unsegs ss tl = r.
Proof.
  induction r as [|c r' IH]; cbn [segs]; intros ss tl H.
  - injection H as <- <-. reflexivity.
  - destruct (segs r') as [ss0 tl0] eqn:Hs. specialize (IH _ _ eq_refl).
    destruct (is_eq c) eqn:Hc.
    + rewrite (is_eq_true _ Hc).
      destruct ss0 as [|[t b] ss'].
      * injection H as <- <-. cbn [unsegs app] in *. now rewrite IH.
      * destruct t as [|x t].
        -- injection H as <- <-. cbn [unsegs app] in *. rewrite eqs_S. cbn [app]. now rewrite IH.
        -- injection H as <- <-. cbn [unsegs app] in *. now rewrite IH.
    + destruct ss0 as [|[t b] ss'].
      * injection H as <- <-. cbn [unsegs] in *. now rewrite IH.
      * injection H as <- <-. cbn [unsegs app] in *. now rewrite IH.
Qed.

Lemma hb_spec md cur tl : forall ss depth title l rest,
  hb md depth cur ss = Some (title, l, rest) ->
  unsegs ss tl = title ++ eqs l ++ unsegs rest tl /\ l <= cur /\ l <= 6 /\ (1 <= cur -> Forall (fun s => 1 <= snd s) ss -> 1 <= l).
Proof.
  induction ss as [|[t b] ss' IH]; cbn [hb]; intros depth title l rest H; [discriminate|].
  set (level := Nat.min cur (Nat.min b 6)) in *.
  assert (Hlv : level <= cur /\ level <= b /\ level <= 6) by (unfold level; lia).
  destruct (if depth <? md then hb md (S depth) cur ss' else None) as [[[after al] rest']|] eqn:Hr.
  - injection H as <- <- <-.
    destruct (depth <? md); [|discriminate].
    destruct (IH _ _ _ _ Hr) as (E & H1 & H2 & H3).
    cbn [unsegs]. rewrite E. repeat rewrite <- app_assoc. repeat split; try assumption.
    intros Hc Hf. apply H3; [assumption|]. now inversion Hf.
  - injection H as <- <- <-. cbn [unsegs].
    rewrite (eqs_split b level) by lia. repeat rewrite <- app_assoc. repeat split; try lia.
    intros Hc Hf. inversion Hf as [|? ? Hb _]. cbn [snd] in Hb. unfold level. lia.
Qed.

(* the text a piece list spells *)
Fixpoint ptext (ps : list piece) : str :=
  match ps with
  | [] => []
  | PT s :: t => s ++ ptext t
  | PH title l :: t => eqs l ++ title ++ eqs l ++ ptext t
  end.

Lemma ptext_app a b : ptext (a ++ b) = ptext a ++ ptext b.
Proof.
  induction a as [|[s|ti l] a IH]; cbn [app ptext]; [reflexivity| |]; rewrite IH; now repeat rewrite <- app_assoc.
Qed.

Lemma tok_line_text md line : ptext (tok_line md line) = line.
Proof.
  unfold tok_line. destruct (span_eq line) as [a r] eqn:Hs.
  pose proof (span_eq_spec _ _ _ Hs) as Hl.
  destruct a as [|a']; [cbn [ptext]; now rewrite app_nil_r|].
  destruct (segs r) as [ss tl] eqn:Hg. pose proof (unsegs_segs _ _ _ Hg) as Hr.
  destruct (hb md 2 (Nat.min (S a') 6) ss) as [[[title l] rest]|] eqn:Hh; [|cbn [ptext]; now rewrite app_nil_r].
  destruct (hb_spec md _ tl _ _ _ _ _ Hh) as (E & H1 & _).
  cbn [ptext]. rewrite app_nil_r. rewrite Hl, <- Hr, E.
  assert (Hsp : eqs (S a') = eqs l ++ eqs (S a' - l)) by (rewrite <- eqs_add; f_equal; lia).
  rewrite Hsp. now repeat rewrite <- app_assoc.
Qed.

Fixpoint join_text (ls : list str) : str :=
  match ls with
  | [] => []
  | [l] => l
  | l :: rest => l ++ 10%N :: join_text rest
  end.

Lemma lines_nonempty s : lines s <> [].
Proof. destruct s as [|c t]; cbn [lines]; [discriminate|]. destruct (is_nl c); [discriminate|]. destruct (lines t); discriminate. Qed.

Lemma join_lines_text s : join_text (lines s) = s.
Proof.
  induction s as [|c t IH]; [reflexivity|]. cbn [lines].
  destruct (is_nl c) eqn:Hc.
  - apply N.eqb_eq in Hc. subst c. pose proof (lines_nonempty t) as Hn.
    destruct (lines t) as [|l ls]; [contradiction|].
    change (join_text ([] :: l :: ls)) with ([] ++ 10%N :: join_text (l :: ls)). now rewrite IH.
  - destruct (lines t) as [|l ls] eqn:Hl; [exfalso; now apply (lines_nonempty t)|].
    destruct ls as [|l2 ls]; cbn [join_text app] in *; now rewrite IH.
Qed.

Lemma join_lines_ptext md ls : ptext (join_lines md ls) = join_text ls.
Proof.
  induction ls as [|l rest IH]; [reflexivity|].
  destruct rest as [|l2 rest]; [cbn [join_lines join_text]; apply tok_line_text|].
  change (join_lines md (l :: l2 :: rest)) with (tok_line md l ++ PT [10%N] :: join_lines md (l2 :: rest)).
  change (join_text (l :: l2 :: rest)) with (l ++ 10%N :: join_text (l2 :: rest)).
  rewrite ptext_app, tok_line_text. cbn [ptext app]. now rewrite IH.
Qed.

Lemma str_flush acc : str_code (flush acc) = acc.
Proof. destruct acc; [reflexivity|]. unfold flush. rewrite str_code_cons. cbn. now rewrite app_nil_r. Qed.

Lemma str_merge ps : forall acc, str_code (merge acc ps) = acc ++ ptext ps.
Proof.
  induction ps as [|[s|title l] t IH]; intros acc; cbn [merge ptext].
  - rewrite str_flush. now rewrite app_nil_r.
  - rewrite IH. now rewrite <- app_assoc.
  - rewrite str_code_app, str_flush, str_code_cons, IH.
    change (str_node (NHeading (flush title) (Z.of_nat l)))
      with (repeat_str s_eq (Z.to_nat (Z.of_nat l)) ++ str_code (flush title) ++ repeat_str s_eq (Z.to_nat (Z.of_nat l))).
    rewrite Nat2Z.id, str_flush. unfold eqs. cbn [app]. now repeat rewrite <- app_assoc.
Qed.

Theorem frag_lossless md s : str_code (frag_nodes md s) = s.
Proof. unfold frag_nodes. rewrite str_merge, join_lines_ptext, join_lines_text. reflexivity. Qed.

Lemma wf_flush acc : wf_code (flush acc).
Proof. destruct acc; cbn; auto. Qed.

Lemma wf_code_app a b : wf_code a -> wf_code b -> wf_code (a ++ b).
Proof.
  induction a as [|x a IH]; intros Ha Hb; [exact Hb|].
  cbn [app]. rewrite wf_code_cons in *. destruct Ha. split; auto.
Qed.

Lemma wf_merge ps : forall acc, wf_code (merge acc ps).
Proof.
  induction ps as [|[s|title l] t IH]; intros acc; cbn [merge].
  - apply wf_flush.
  - apply IH.
  - apply wf_code_app; [apply wf_flush|]. rewrite wf_code_cons. split; [|apply IH].
    change (wf_node (NHeading (flush title) (Z.of_nat l))) with (wf_code (flush title)). apply wf_flush.
Qed.

Theorem frag_wf md s : wf_code (frag_nodes md s).
Proof. apply wf_merge. Qed.

(* end to end on the fragment: tokenizer model, then the PROVED Builder, then rendering *)
Theorem frag_end_to_end md s : exists c, build (frag_tokens md s) = Ok c /\ str_code c = s.
Proof.
  exists (frag_nodes md s). split; [apply build_flatten_lemma, frag_wf | apply frag_lossless].
Qed.

(* canonical form: the text buffer never yields an empty or a split Text *)
Lemma canon_flush acc : canon_code (flush acc) = true.
Proof. destruct acc; reflexivity. Qed.

Lemma canon_list_flush_app acc c :
  canon_list c = true -> hd_is_text c = false -> canon_list (flush acc ++ c) = true.
Proof.
  intros Hc Hh. destruct acc as [|x acc]; [exact Hc|].
  cbn [flush app canon_list is_empty_text is_text]. rewrite Hh, Hc. reflexivity.
Qed.

Lemma canon_list_merge ps : forall acc, canon_list (merge acc ps) = true.
Proof.
  induction ps as [|[s|title l] t IH]; intros acc; cbn [merge].
  - destruct acc; reflexivity.
  - apply IH.
  - apply canon_list_flush_app; [|reflexivity].
    cbn [canon_list is_empty_text is_text andb negb]. apply IH.
Qed.

Lemma canon_each_app a b : canon_each (a ++ b) = canon_each a && canon_each b.
Proof. induction a as [|x a IH]; [reflexivity|]. cbn [app canon_each]. now rewrite IH, andb_assoc. Qed.

Lemma canon_each_merge ps : forall acc, canon_each (merge acc ps) = true.
Proof.
  induction ps as [|[s|title l] t IH]; intros acc; cbn [merge].
  - destruct acc; reflexivity.
  - apply IH.
  - rewrite canon_each_app. cbn [canon_each]. rewrite IH, andb_true_r.
    rewrite canon_node_heading, canon_flush, andb_true_r. destruct acc; reflexivity.
Qed.

Theorem frag_canonical md s : canon_code (frag_nodes md s) = true.
Proof. unfold canon_code, frag_nodes. now rewrite canon_list_merge, canon_each_merge. Qed.

(* every heading the model produces has a level in 1..6, at most the length of the opening run's cap *)
Fixpoint levels_ok (ps : list piece) : Prop :=
  match ps with
  | [] => True
  | PT _ :: t => levels_ok t
  | PH _ l :: t => 1 <= l <= 6 /\ levels_ok t
  end.

Lemma segs_runs_pos r : forall ss tl, segs r = (ss, tl) -> Forall (fun s => 1 <= snd s) ss.
Proof.
  induction r as [|c r' IH]; cbn [segs]; intros ss tl H.
  - injection H as <- <-. constructor.
  - destruct (segs r') as [ss0 tl0] eqn:Hs. specialize (IH _ _ eq_refl).
    destruct (is_eq c).
    + destruct ss0 as [|[t b] ss'].
      * injection H as <- <-. constructor; [cbn; lia|constructor].
      * destruct t as [|x t]; injection H as <- <-.
        -- inversion IH. constructor; [cbn; lia|assumption].
        -- constructor; [cbn; lia|assumption].
    + destruct ss0 as [|[t b] ss'].
      * injection H as <- <-. constructor.
      * injection H as <- <-. inversion IH. constructor; assumption.
Qed.

Lemma tok_line_levels md line : levels_ok (tok_line md line).
Proof.
  unfold tok_line. destruct (span_eq line) as [a r]. destruct a as [|a']; [exact I|].
  destruct (segs r) as [ss tl] eqn:Hg.
  destruct (hb md 2 (Nat.min (S a') 6) ss) as [[[title l] rest]|] eqn:Hh; [|exact I].
  destruct (hb_spec md _ tl _ _ _ _ _ Hh) as (_ & H1 & H2 & H3).
  cbn [levels_ok]. repeat split; try lia. apply H3; [lia|]. eapply segs_runs_pos; eassumption.
Qed.

Lemma levels_ok_app a b : levels_ok a -> levels_ok b -> levels_ok (a ++ b).
Proof. induction a as [|[s|t l] a IH]; cbn [app levels_ok]; intros Ha Hb; auto. destruct Ha. split; auto. Qed.

Theorem frag_levels md s : levels_ok (join_lines md (lines s)).
Proof.
  induction (lines s) as [|l rest IH]; [exact I|].
  destruct rest as [|l2 rest]; [apply tok_line_levels|].
  change (join_lines md (l :: l2 :: rest)) with (tok_line md l ++ PT [10%N] :: join_lines md (l2 :: rest)).
  apply levels_ok_app; [apply tok_line_levels|exact IH].
Qed.
