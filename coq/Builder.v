(* Model of parser/builder.py: tokens -> tree, handler by handler, each `while self._tokens`
   loop a function on explicit fuel (one unit per call / iteration; exhaustion = Resource).
   Exn ParserError where the code raises ParserError ("missed a close token", unexpected token);
   Exn TypeError stands for any other exception of the real Builder on malformed streams
   (unbound local, pop of a missing attribute) - those streams are outside every property. *)
From MW Require Import PyBase Nodes.

Definition R (A : Type) := res (A * list token).

(* str(default) for the positional parameter counter *)
Fixpoint digits_fuel (fuel : nat) (n : N) (acc : str) : str :=
  match fuel with
  | O => acc
  | S f => let d := (48 + N.modulo n 10)%N in
           if N.ltb n 10 then d :: acc else digits_fuel f (N.div n 10) (d :: acc)
  end.
Definition str_of_N (n : N) : str := digits_fuel 40 n [].

Fixpoint handle (fuel : nat) (tok : token) (ts : list token) {struct fuel} : R node :=
  match fuel with
  | O => Resource
  | S f =>
    match tok with
    | TText s => Ok (NText s, ts)
    | TTemplateOpen => template_name f [] ts
    | TArgumentOpen => argument f [] None ts
    | TWikilinkOpen => wikilink f [] None ts
    | TExternalLinkOpen brackets => extlink f brackets [] None false ts
    | THTMLEntityStart =>
        match ts with
        | THTMLEntityNumeric :: THTMLEntityHex c :: TText s :: _ :: ts' => Ok (NEntity s false true c, ts')
        | THTMLEntityNumeric :: TText s :: _ :: ts' => Ok (NEntity s false false [120%N], ts')
        | TText s :: _ :: ts' => Ok (NEntity s true false [120%N], ts')
        | _ => Exn TypeError
        end
    | THeadingStart level => heading f level [] ts
    | TCommentStart => comment f [] ts
    | TTagOpenOpen wm invalid => tag f wm invalid [] None None [] None None None false false false wm ts
    | _ => Exn ParserError      (* _handle_token() got unexpected ... *)
    end
  end

(* _handle_template before the first separator: collecting the name *)
with template_name (fuel : nat) (cur : code) (ts : list token) {struct fuel} : R node :=
  match fuel with
  | O => Resource
  | S f =>
    match ts with
    | [] => Exn ParserError
    | TTemplateParamSeparator :: ts' => template_params f cur [] 1%N ts'
    | TTemplateClose :: ts' => Ok (NTemplate cur [], ts')
    | tok :: ts' => match handle f tok ts' with
                    | Ok (n, ts'') => template_name f (cur ++ [n]) ts''
                    | Exn e => Exn e | Resource => Resource
                    end
    end
  end

(* ... after a separator: one parameter, then the next separator or the close *)
with template_params (fuel : nat) (name : code) (params : list param) (default : N) (ts : list token)
  {struct fuel} : R node :=
  match fuel with
  | O => Resource
  | S f =>
    match parameter f default None false [] ts with
    | Ok (p, ts') =>
        let params' := params ++ [p] in
        let default' := if snd p then default else (default + 1)%N in
        match ts' with
        | TTemplateParamSeparator :: ts'' => template_params f name params' default' ts''
        | TTemplateClose :: ts'' => Ok (NTemplate name params', ts'')
        | _ => Exn ParserError
        end
    | Exn e => Exn e | Resource => Resource
    end
  end

(* _handle_parameter(default): returns the parameter and leaves the closing token in place *)
with parameter (fuel : nat) (default : N) (key : option code) (showkey : bool) (cur : code)
  (ts : list token) {struct fuel} : R param :=
  match fuel with
  | O => Resource
  | S f =>
    match ts with
    | [] => Exn ParserError
    | TTemplateParamEquals :: ts' => parameter f default (Some cur) true [] ts'
    | TTemplateParamSeparator :: _ | TTemplateClose :: _ =>
        let k := match key with Some k => k | None => [NText (str_of_N default)] end in
        Ok ((k, cur, showkey), ts)
    | tok :: ts' => match handle f tok ts' with
                    | Ok (n, ts'') => parameter f default key showkey (cur ++ [n]) ts''
                    | Exn e => Exn e | Resource => Resource
                    end
    end
  end

with argument (fuel : nat) (cur : code) (name : option code) (ts : list token) {struct fuel} : R node :=
  match fuel with
  | O => Resource
  | S f =>
    match ts with
    | [] => Exn ParserError
    | TArgumentSeparator :: ts' => argument f [] (Some cur) ts'
    | TArgumentClose :: ts' =>
        Ok (match name with Some nm => NArgument nm (Some cur) | None => NArgument cur None end, ts')
    | tok :: ts' => match handle f tok ts' with
                    | Ok (n, ts'') => argument f (cur ++ [n]) name ts''
                    | Exn e => Exn e | Resource => Resource
                    end
    end
  end

with wikilink (fuel : nat) (cur : code) (title : option code) (ts : list token) {struct fuel} : R node :=
  match fuel with
  | O => Resource
  | S f =>
    match ts with
    | [] => Exn ParserError
    | TWikilinkSeparator :: ts' => wikilink f [] (Some cur) ts'
    | TWikilinkClose :: ts' =>
        Ok (match title with Some t => NWikilink t (Some cur) | None => NWikilink cur None end, ts')
    | tok :: ts' => match handle f tok ts' with
                    | Ok (n, ts'') => wikilink f (cur ++ [n]) title ts''
                    | Exn e => Exn e | Resource => Resource
                    end
    end
  end

with extlink (fuel : nat) (brackets : bool) (cur : code) (url : option code) (suppress : bool)
  (ts : list token) {struct fuel} : R node :=
  match fuel with
  | O => Resource
  | S f =>
    match ts with
    | [] => Exn ParserError
    | TExternalLinkSeparator sp :: ts' => extlink f brackets [] (Some cur) sp ts'
    | TExternalLinkClose :: ts' =>
        Ok (match url with
            | Some u => NExtLink u (Some cur) brackets suppress
            | None => NExtLink cur None brackets suppress
            end, ts')
    | tok :: ts' => match handle f tok ts' with
                    | Ok (n, ts'') => extlink f brackets (cur ++ [n]) url suppress ts''
                    | Exn e => Exn e | Resource => Resource
                    end
    end
  end

with heading (fuel : nat) (level : Z) (cur : code) (ts : list token) {struct fuel} : R node :=
  match fuel with
  | O => Resource
  | S f =>
    match ts with
    | [] => Exn ParserError
    | THeadingEnd :: ts' => Ok (NHeading cur level, ts')
    | tok :: ts' => match handle f tok ts' with
                    | Ok (n, ts'') => heading f level (cur ++ [n]) ts''
                    | Exn e => Exn e | Resource => Resource
                    end
    end
  end

with comment (fuel : nat) (cur : code) (ts : list token) {struct fuel} : R node :=
  match fuel with
  | O => Resource
  | S f =>
    match ts with
    | [] => Exn ParserError
    | TCommentEnd :: ts' => Ok (NComment (str_code cur), ts')     (* Comment(contents): str(value) *)
    | tok :: ts' => match handle f tok ts' with
                    | Ok (n, ts'') => comment f (cur ++ [n]) ts''
                    | Exn e => Exn e | Resource => Resource
                    end
    end
  end

(* _handle_attribute(start): returns the attribute and leaves the terminating token in place *)
with attribute (fuel : nat) (pads : str * str * str) (name : option code) (quotes : option str)
  (cur : code) (ts : list token) {struct fuel} : R attr :=
  match fuel with
  | O => Resource
  | S f =>
    match ts with
    | [] => Exn ParserError
    | TTagAttrEquals :: ts' => attribute f pads (Some cur) quotes [] ts'
    | TTagAttrQuote c :: ts' => attribute f pads name (Some c) cur ts'
    | TTagAttrStart _ _ _ :: _ | TTagCloseOpen _ _ :: _ | TTagCloseSelfclose _ _ _ :: _ =>
        (* `if name:` is the truthiness of a Wikicode: a name that renders empty counts as absent *)
        match name with
        | Some nm => match str_code nm with
                     | [] => Ok ((cur, None, quotes, pads), ts)
                     | _ => Ok ((nm, Some cur, quotes, pads), ts)
                     end
        | None => Ok ((cur, None, quotes, pads), ts)
        end
    | tok :: ts' => match handle f tok ts' with
                    | Ok (n, ts'') => attribute f pads name quotes (cur ++ [n]) ts''
                    | Exn e => Exn e | Resource => Resource
                    end
    end
  end

(* _handle_tag: local variables tag / padding may still be unbound (None) on malformed input *)
with tag (fuel : nat) (wm : option str) (invalid : bool) (cur : code) (tagname : option code)
  (contents : option code) (attrs : list attr) (padding : option str) (sep : option str)
  (closing_tag : option code) (self_closing implicit seen_open_close : bool) (cwm : option str)
  (ts : list token) {struct fuel} : R node :=
  match fuel with
  | O => Resource
  | S f =>
    match ts with
    | [] => Exn ParserError
    | TTagAttrStart pf pb pa :: ts' =>
        match attribute f (pf, pb, pa) None None [] ts' with
        | Ok (a, ts'') => tag f wm invalid cur tagname contents (attrs ++ [a]) padding sep closing_tag
                              self_closing implicit seen_open_close cwm ts''
        | Exn e => Exn e | Resource => Resource
        end
    | TTagCloseOpen pad wsep :: ts' =>
        tag f wm invalid [] (Some cur) contents attrs (Some pad) wsep closing_tag self_closing implicit
            seen_open_close cwm ts'
    | TTagOpenClose wmc :: ts' =>
        tag f wm invalid [] tagname (Some cur) attrs padding sep closing_tag self_closing implicit true wmc ts'
    | TTagCloseSelfclose pad impl wmc :: ts' =>
        Ok (mk_tag cur contents attrs wm true invalid impl pad closing_tag sep wmc, ts')
    | TTagCloseClose :: ts' =>
        match tagname, padding with
        | Some tg, Some pad => Ok (mk_tag tg contents attrs wm false invalid implicit pad (Some cur) sep cwm, ts')
        | _, _ => Exn TypeError
        end
    | tok :: ts' => match handle f tok ts' with
                    | Ok (n, ts'') => tag f wm invalid (cur ++ [n]) tagname contents attrs padding sep closing_tag
                                          self_closing implicit seen_open_close cwm ts''
                    | Exn e => Exn e | Resource => Resource
                    end
    end
  end.

(* Builder.build *)
Fixpoint build_loop (fuel : nat) (cur : code) (ts : list token) : res code :=
  match fuel with
  | O => Resource
  | S f =>
    match ts with
    | [] => Ok cur
    | tok :: ts' => match handle f tok ts' with
                    | Ok (n, ts'') => build_loop f (cur ++ [n]) ts''
                    | Exn e => Exn e | Resource => Resource
                    end
    end
  end.

Definition build (ts : list token) : res code := build_loop (2 * length ts + 2) [] ts.
