From MW Require Import ListAux PyBase SliceLemmas PyList SmartList SmartListProofs WikiEdit.
Local Open Scope Z_scope.

Section P.
Context {A : Type}.
Variable eqb : A -> A -> bool.
Variable sortf : list A -> list A.
Hypothesis sortf_length : forall l, length (sortf l) = length l.

Notation sl := (@sl A).

Lemma sl_step_inv (st st' : sl) t o r :
  views_inv st -> sl_step eqb sortf st t o = Ok (st', r) -> views_inv st'.
Proof.
  intros Hinv H. pose proof (inv_step eqb sortf sortf_length st (AOp t o) Hinv) as Hs.
  cbn [act_step] in Hs. now rewrite H in Hs.
Qed.

Lemma multi_step_inv ops : forall (st st' : sl) t,
  views_inv st -> multi_step eqb sortf st t ops = Ok st' -> views_inv st'.
Proof.
  induction ops as [|o r IH]; intros st st' t Hinv; cbn [multi_step].
  - now intros [= <-].
  - destruct (sl_step eqb sortf st t o) as [[st1 r1]| |] eqn:E; try discriminate.
    intros H. eapply IH; [|exact H]. eapply sl_step_inv; eauto.
Qed.

(* ---- a sequence of operations through a view = the same sequence on a plain list ---- *)
Lemma firstn_app_exact_nat (X M Y : list A) : firstn (length X) (X ++ M ++ Y) = X.
Proof. apply firstn_app_exact. Qed.

Lemma multi_view ops : forall (st : sl) k v,
  views_inv st -> nth_error (views st) k = Some v ->
  match list_multi eqb sortf (V_render st v) ops with
  | Exn e => multi_step eqb sortf st (View k) ops = Exn e
  | Resource => False
  | Ok L' =>
      exists st', multi_step eqb sortf st (View k) ops = Ok st' /\ views_inv st' /\
        (exists v', nth_error (views st') k = Some v' /\ v_store v' = v_store v /\
                    v_start v' = v_start v /\ V_render st' v' = L') /\
        store st' (v_store v)
          = firstn (Z.to_nat (v_start v)) (store st (v_store v)) ++ L'
            ++ skipn (Z.to_nat (V_stop st v)) (store st (v_store v))
  end.
Proof.
  induction ops as [|o r IH]; intros st k v Hinv Hk; cbn [list_multi multi_step].
  - pose proof (view_ok_of_inv _ _ _ Hinv Hk) as Hok.
    exists st. split; [reflexivity|]. split; [exact Hinv|]. split.
    + exists v. auto.
    + rewrite render_valid by assumption. destruct Hok as (Hst & Hse & He).
      unfold zslice. unfold zlen in He.
      destruct (splice_decomp (store st (v_store v)) (Z.to_nat (v_start v)) (Z.to_nat (V_stop st v)) []
                  ltac:(lia) ltac:(lia)) as (HP & _). exact HP.
  - pose proof (proxy_op_is_list_op_lemma eqb sortf st k v o Hinv Hk) as H1.
    destruct (list_step eqb sortf (V_render st v) o) as [[L1 r1]| |] eqn:E1; [| |contradiction].
    2:{ now rewrite H1. }
    destruct H1 as (st1 & Hs1 & (v1 & Hk1 & Hp1 & Hst1 & Hrd1) & Hstore1).
    rewrite Hs1.
    pose proof (sl_step_inv _ _ _ _ _ Hinv Hs1) as Hinv1.
    pose proof (view_ok_of_inv _ _ _ Hinv1 Hk1) as Hok1.
    rewrite read_valid in Hrd1 by assumption. injection Hrd1 as Hrd1.
    specialize (IH st1 k v1 Hinv1 Hk1). rewrite Hrd1 in IH.
    destruct (list_multi eqb sortf L1 r) as [L'| |]; [|exact IH|exact IH].
    destruct IH as (st' & Hm & Hinv' & (v' & Hk' & Hp' & Hst' & Hrd') & Hstore').
    exists st'. split; [exact Hm|]. split; [exact Hinv'|]. split.
    + exists v'. repeat split; congruence.
    + (* compose the two decompositions *)
      rewrite Hp1 in Hstore'. rewrite Hstore'. rewrite Hst1.
      pose proof (view_ok_of_inv _ _ _ Hinv Hk) as (Hst & Hse & He). unfold zlen in He.
      assert (HlenX : length (firstn (Z.to_nat (v_start v)) (store st (v_store v))) = Z.to_nat (v_start v))
        by (rewrite firstn_length; lia).
      (* bounds of v1 in st1 *)
      assert (Hstop1 : Z.to_nat (V_stop st1 v1) = (Z.to_nat (v_start v) + length L1)%nat).
      { pose proof (zlen_render st1 v1 Hok1) as Hl. rewrite Hrd1 in Hl. unfold zlen in Hl.
        destruct Hok1 as (_ & Hse1 & _). lia. }
      rewrite Hstop1, Hstore1.
      set (X := firstn (Z.to_nat (v_start v)) (store st (v_store v))) in *.
      set (Y := skipn (Z.to_nat (V_stop st v)) (store st (v_store v))) in *.
      rewrite <- HlenX at 1. rewrite firstn_app_exact.
      replace (Z.to_nat (v_start v) + length L1)%nat with (length (X ++ L1)) by (rewrite app_length; lia).
      replace (X ++ L1 ++ Y) with ((X ++ L1) ++ Y) by (now rewrite app_assoc).
      rewrite skipn_app_exact. reflexivity.
Qed.

(* ---- the page itself ---- *)
Lemma parent_step_list (st : sl) o :
  views_inv st -> reorders o = false ->
  match list_step eqb sortf (store st 0%nat) o with
  | Exn e => sl_step eqb sortf st Parent o = Exn e
  | Resource => False
  | Ok (L', r) => exists st', sl_step eqb sortf st Parent o = Ok (st', r) /\ views_inv st' /\ store st' 0%nat = L'
  end.
Proof.
  intros Hinv Hre. pose proof (store0_exists _ Hinv) as Hp0.
  cbn [sl_step]. rewrite parent_step_spec. unfold list_step.
  destruct (list_splice eqb sortf (store st 0%nat) o) as [[[[a b] new] r]| |] eqn:E.
  - pose proof (list_splice_bounds eqb sortf _ _ _ _ _ _ E) as Hb.
    destruct (mutates o) eqn:Hm.
    + exists (spliced st 0%nat a b new). split.
      * destruct o; try discriminate Hre; try discriminate Hm; cbn [parent_outcome mutates]; now rewrite E.
      * split; [apply inv_spliced; auto; lia|now apply store_spliced_same].
    + exists st. split.
      * destruct o; try discriminate Hre; try discriminate Hm; cbn [parent_outcome mutates]; now rewrite E.
      * split; [exact Hinv|].
        assert (Hnil : a = 0 /\ b = 0 /\ new = []).
        { destruct o; try discriminate; cbn in E;
          repeat match type of E with context [match ?x with _ => _ end] => destruct x end;
          try discriminate; injection E as <- <- <- <-; auto. }
        destruct Hnil as (-> & -> & ->). symmetry. apply zsplice_nil_id. lia.
  - destruct o; try discriminate Hre; cbn [parent_outcome]; now rewrite E.
  - destruct o; cbn in E; repeat match type of E with
      | context [match ?x with _ => _ end] => destruct x end; discriminate.
Qed.

Lemma multi_parent ops : forall (st : sl),
  views_inv st -> Forall (fun o => reorders o = false) ops ->
  match list_multi eqb sortf (store st 0%nat) ops with
  | Exn e => multi_step eqb sortf st Parent ops = Exn e
  | Resource => False
  | Ok L' => exists st', multi_step eqb sortf st Parent ops = Ok st' /\ views_inv st' /\ store st' 0%nat = L'
  end.
Proof.
  induction ops as [|o r IH]; intros st Hinv Hre; cbn [list_multi multi_step].
  - exists st. auto.
  - inversion Hre as [|? ? Ho Hr]; subst.
    pose proof (parent_step_list st o Hinv Ho) as H1.
    destruct (list_step eqb sortf (store st 0%nat) o) as [[L1 r1]| |]; [| |contradiction].
    2:{ now rewrite H1. }
    destruct H1 as (st1 & -> & Hinv1 & <-). now apply IH.
Qed.

(* ---- what happens to the other views: a chain of splices ---- *)
Inductive chain (fresh : list A) : list A -> list A -> Prop :=
| chain_refl l : chain fresh l l
| chain_step old mid new pre del post ins :
    old = pre ++ del ++ post -> mid = pre ++ ins ++ post -> incl ins fresh ->
    chain fresh mid new -> chain fresh old new.

Definition op_new (o : @lop A) : list A :=
  match o with
  | LAppend x | LInsert _ x | LSetItem _ x => [x]
  | LExtend xs | LIAdd xs | LSetSlice _ _ xs => xs
  | _ => []
  end.

Lemma list_splice_new l o a b new r :
  reorders o = false -> list_splice eqb sortf l o = Ok (a, b, new, r) -> incl new (op_new o).
Proof.
  intros Hre. destruct o; try discriminate Hre; cbn [list_splice op_new];
  repeat match goal with |- context [match ?x with _ => _ end] => destruct x end;
  try discriminate; intros [= <- <- <- <-]; auto using incl_refl, incl_nil_l.
Qed.

Lemma multi_chain fresh j ops : forall (st st' : sl) t w,
  views_inv st -> multi_step eqb sortf st t ops = Ok st' ->
  Forall (fun o => incl (op_new o) fresh /\ reorders o = false) ops ->
  t <> View j -> nth_error (views st) j = Some w ->
  exists w', nth_error (views st') j = Some w' /\ view_ok st' w' /\
             chain fresh (V_render st w) (V_render st' w').
Proof.
  induction ops as [|o r IH]; intros st st' t w Hinv Hm Hall Ht Hj; cbn [multi_step] in Hm.
  - injection Hm as <-. exists w. split; [exact Hj|]. split; [eapply view_ok_of_inv; eauto|constructor].
  - inversion Hall as [|? ? [Hnew Hre] Hr]; subst.
    destruct (sl_step eqb sortf st t o) as [[st1 r1]| |] eqn:E; try discriminate.
    destruct (others_keep_survivors_lemma eqb sortf st t o st1 r1 j w Hinv E Ht Hj (fun _ => Hre))
      as (w1 & Hj1 & Hok1 & pre & del & post & ins & H1 & H2 & H3).
    pose proof (sl_step_inv _ _ _ _ _ Hinv E) as Hinv1.
    destruct (IH st1 st' t w1 Hinv1 Hm Hr Ht Hj1) as (w' & Hj' & Hok' & Hch).
    exists w'. split; [exact Hj'|]. split; [exact Hok'|].
    eapply chain_step; [exact H1|exact H2| |exact Hch].
    destruct H3 as [->|(a & b & new & r' & Hsp & ->)]; [apply incl_nil_l|].
    eapply incl_tran; [eapply list_splice_new; eauto|exact Hnew].
Qed.

Lemma chain_no_gain fresh old new : chain fresh old new -> forall x, In x new -> In x old \/ In x fresh.
Proof.
  induction 1 as [l|old mid new pre del post ins -> -> Hins _ IH]; intros x Hx; [now left|].
  destruct (IH x Hx) as [Hmid|Hf]; [|now right].
  rewrite !in_app_iff in Hmid. rewrite !in_app_iff.
  destruct Hmid as [H|[H|H]]; auto.
Qed.

(* ---- the operations of one Wikicode call ---- *)
Lemma wc_ops_new L w ops :
  wc_ops eqb L w = Ok ops -> Forall (fun o => incl (op_new o) (wop_new w) /\ reorders o = false) ops.
Proof.
  assert (Hins : forall len i ns, Forall (fun o => incl (op_new o) ns /\ reorders o = false) (ins_ops len i ns)).
  { intros len i ns. unfold ins_ops. generalize (adj len i). intros z.
    assert (G : forall (l ns0 : list A) z0, incl l ns0 -> Forall (fun o => incl (op_new o) ns0 /\ reorders o = false) (ins_at z0 l)).
    { induction l as [|x l IHl]; intros ns0 z0 Hi; cbn [ins_at]; constructor.
      - split; [|reflexivity]. cbn. intros y [<-|[]]. apply Hi. now left.
      - apply IHl. intros y Hy. apply Hi. now right. }
    apply G. apply incl_refl. }
  assert (Hpop : forall i n ns, Forall (fun o => incl (op_new o) ns /\ reorders o = false) (pop_ops i n)).
  { intros i n ns. unfold pop_ops. apply Forall_forall. intros o Ho. apply repeat_spec in Ho. subst o.
    split; [apply incl_nil_l|reflexivity]. }
  destruct w; cbn [wc_ops wop_new];
  repeat match goal with |- context [match ?x with _ => _ end] => destruct x end;
  try discriminate; intros [= <-]; try apply Forall_app; auto.
  - apply Forall_forall. intros o Ho. apply in_map_iff in Ho. destruct Ho as (x & <- & Hx).
    split; [|reflexivity]. cbn. intros y [<-|[]]. exact Hx.
  - repeat constructor. apply incl_nil_l.
  - constructor; [|constructor]. split; [|reflexivity]. cbn. intros y [<-|[]]. now left.
  - constructor; [split; [apply incl_nil_l|reflexivity]|apply Hins].
  - constructor; [|constructor]. split; [|reflexivity]. cbn. apply incl_refl.
Qed.

(* ================================================================ C11 *)

Theorem edit_through_section_lemma (st : sl) k v w :
  views_inv st -> nth_error (views st) k = Some v ->
  match wc_list eqb sortf (V_render st v) w with
  | Exn e => wc_step eqb sortf st (View k) w = Exn e
  | Resource => False
  | Ok L' =>
      exists st', wc_step eqb sortf st (View k) w = Ok st' /\ views_inv st' /\
        (exists v', nth_error (views st') k = Some v' /\ V_render st' v' = L') /\
        store st' (v_store v)
          = firstn (Z.to_nat (v_start v)) (store st (v_store v)) ++ L'
            ++ skipn (Z.to_nat (V_stop st v)) (store st (v_store v))
  end.
Proof.
  intros Hinv Hk. unfold wc_list, wc_step. cbn [target_content]. rewrite Hk.
  destruct (wc_ops eqb (V_render st v) w) as [ops| |] eqn:E; [|reflexivity|].
  2:{ destruct w; cbn in E; repeat match type of E with
        | context [match ?x with _ => _ end] => destruct x end; discriminate. }
  pose proof (multi_view ops st k v Hinv Hk) as H.
  destruct (list_multi eqb sortf (V_render st v) ops) as [L'| |]; [|exact H|exact H].
  destruct H as (st' & Hm & Hinv' & (v' & Hk' & _ & _ & Hr) & Hstore).
  exists st'. split; [exact Hm|]. split; [exact Hinv'|]. split; [exists v'; auto|exact Hstore].
Qed.

Theorem edit_through_page_lemma (st : sl) w :
  views_inv st ->
  match wc_list eqb sortf (store st 0%nat) w with
  | Exn e => wc_step eqb sortf st Parent w = Exn e
  | Resource => False
  | Ok L' => exists st', wc_step eqb sortf st Parent w = Ok st' /\ views_inv st' /\ store st' 0%nat = L'
  end.
Proof.
  intros Hinv. unfold wc_list, wc_step. cbn [target_content].
  destruct (wc_ops eqb (store st 0%nat) w) as [ops| |] eqn:E; [|reflexivity|].
  2:{ destruct w; cbn in E; repeat match type of E with
        | context [match ?x with _ => _ end] => destruct x end; discriminate. }
  apply multi_parent; [exact Hinv|].
  eapply Forall_impl; [|exact (wc_ops_new _ _ _ E)]. now intros o [_ H].
Qed.

Theorem other_sections_lemma (st st' : sl) t w j sec :
  views_inv st -> wc_step eqb sortf st t w = Ok st' -> t <> View j ->
  nth_error (views st) j = Some sec ->
  exists sec', nth_error (views st') j = Some sec' /\ view_ok st' sec' /\
    V_read st' sec' = Ok (V_render st' sec') /\
    chain (wop_new w) (V_render st sec) (V_render st' sec') /\
    (forall x, In x (V_render st' sec') -> In x (V_render st sec) \/ In x (wop_new w)).
Proof.
  intros Hinv Hs Ht Hj. unfold wc_step in Hs.
  destruct (wc_ops eqb (target_content st t) w) as [ops| |] eqn:E; try discriminate.
  destruct (multi_chain (wop_new w) j ops st st' t sec Hinv Hs (wc_ops_new _ _ _ E) Ht Hj)
    as (sec' & Hj' & Hok' & Hch).
  exists sec'. split; [exact Hj'|]. split; [exact Hok'|]. split; [now apply read_valid|].
  split; [exact Hch|]. now apply chain_no_gain.
Qed.

Theorem sections_remain_views_lemma (st : sl) edits :
  views_inv st -> views_inv (wc_run eqb sortf st edits).
Proof.
  unfold wc_run. revert st. induction edits as [|[t w] r IH]; intros st Hinv; cbn [fold_left];
    [exact Hinv|].
  apply IH. destruct (wc_step eqb sortf st t w) as [st'| |] eqn:E; try exact Hinv.
  unfold wc_step in E. destruct (wc_ops eqb (target_content st t) w) as [ops| |]; try discriminate.
  eapply multi_step_inv; eauto.
Qed.

End P.
