From MW Require Import ListAux PyBase Template.

Section P.
Variables (name value : Type).
Variable eqb : name -> name -> bool.
Variable num : name -> option nat.
Variable blank : value -> value.
Variable unescapable : value -> bool.
Hypothesis eqb_spec : forall a b, eqb a b = true <-> a = b.

Notation param := (param name value).
Notation has := (has name value eqb).
Notation rem := (rem name value eqb blank).
Notation hidden_names := (hidden_names name value).
Notation Hidden := (Hidden name value num).
Notation add := (add name value eqb num blank unescapable).
Notation remove := (remove name value eqb blank).

Lemma eqb_refl a : eqb a a = true.
Proof. now apply eqb_spec. Qed.

(* ---------- the hidden names after a removal pass are a prefix of those before ---------- *)
Lemma hn_cons p (t : list param) :
  hidden_names (p :: t) = if shown _ _ p then hidden_names t else pn _ _ p :: hidden_names t.
Proof. unfold Template.hidden_names. cbn. destruct (shown _ _ p); reflexivity. Qed.

(* with the flag set, only a blanked-and-kept hidden match could stay hidden - but it is shown first *)
Lemma rem_flag_no_hidden n keep ps : hidden_names (rem n keep true ps) = [].
Proof.
  revert keep. induction ps as [|p t IH]; intros keep; cbn [Template.rem]; [reflexivity|].
  destruct (eqb n (pn _ _ p)).
  - destruct keep.
    + destruct (shown _ _ p && existsb _ t); [apply IH|].
      rewrite hn_cons. cbn. apply IH.
    + cbn [orb]. apply IH.
  - rewrite hn_cons. cbn. apply IH.
Qed.

Lemma rem_prefix n : forall ps keep, exists k, hidden_names (rem n keep false ps) = firstn k (hidden_names ps).
Proof.
  induction ps as [|p t IH]; intros keep; cbn [Template.rem]; [exists 0; reflexivity|].
  destruct (eqb n (pn _ _ p)) eqn:E.
  - destruct keep.
    + destruct (shown _ _ p && existsb _ t) eqn:HS.
      * apply andb_true_iff in HS. destruct HS as [HS _]. destruct (IH true) as [k Hk].
        exists k. rewrite Hk, hn_cons, HS. reflexivity.
      * destruct (IH false) as [k Hk]. rewrite !hn_cons. cbn [Template.blanked Template.shown Template.pn].
        destruct (shown _ _ p); [exists k; exact Hk|exists (S k); cbn; now rewrite Hk].
    + cbn [orb]. destruct (shown _ _ p) eqn:HS; cbn [negb].
      * destruct (IH false) as [k Hk]. exists k. now rewrite Hk, hn_cons, HS.
      * exists 0. rewrite rem_flag_no_hidden. reflexivity.
  - destruct (IH keep) as [k Hk]. rewrite !hn_cons.
    destruct (shown _ _ p); [exists k; exact Hk|exists (S k); cbn; now rewrite Hk].
Qed.

Lemma Hidden_prefix (l : list name) k :
  map num l = map Some (seq 1 (length l)) -> map num (firstn k l) = map Some (seq 1 (length (firstn k l))).
Proof.
  intros H. assert (G : forall (l : list name) s k, map num l = map Some (seq s (length l)) ->
                         map num (firstn k l) = map Some (seq s (length (firstn k l)))).
  { clear. induction l as [|x l IH]; intros s k H; destruct k; cbn in *; try reflexivity.
    injection H as Hx Hl. rewrite Hx. f_equal. now apply IH. }
  now apply G.
Qed.

Theorem hidden_inv_remove_lemma n keep ps : Hidden ps -> Hidden (rem n keep false ps).
Proof.
  unfold Template.Hidden. intros H. destruct (rem_prefix n ps keep) as [k ->]. now apply Hidden_prefix.
Qed.

(* ---------- add ---------- *)
Lemma hidden_nums_spec (ps : list param) :
  Hidden ps -> hidden_nums _ _ num ps = seq 1 (length (hidden_names ps)).
Proof.
  unfold Template.Hidden, Template.hidden_nums, Template.hidden_names.
  generalize 1. induction ps as [|p t IH]; intros s H; cbn in *; [reflexivity|].
  destruct (shown _ _ p); cbn in *; [now apply IH|].
  injection H as Hp Ht. rewrite Hp. cbn. f_equal. now apply IH.
Qed.

Lemma first_missing_seq fuel : forall k j, j <= k -> k <= fuel + j ->
  first_missing fuel (S j) (seq 1 k) = S k.
Proof.
  induction fuel as [|f IH]; intros k j Hj Hk; cbn [first_missing].
  - f_equal. lia.
  - destruct (existsb (Nat.eqb (S j)) (seq 1 k)) eqn:E.
    + apply existsb_exists in E. destruct E as (x & Hx & Ex). apply Nat.eqb_eq in Ex. subst x.
      apply in_seq in Hx. apply IH; lia.
    + assert (~ In (S j) (seq 1 k)).
      { intros Hin. assert (existsb (Nat.eqb (S j)) (seq 1 k) = true); [|congruence].
        apply existsb_exists. exists (S j). split; [exact Hin|apply Nat.eqb_refl]. }
      rewrite in_seq in H. f_equal. lia.
Qed.

Lemma expected_spec (ps : list param) : Hidden ps -> expected _ _ num ps = S (length (hidden_names ps)).
Proof.
  intros H. unfold Template.expected. rewrite (hidden_nums_spec ps H). rewrite seq_length.
  apply (first_missing_seq (S (length (hidden_names ps))) (length (hidden_names ps)) 0); lia.
Qed.

Lemma hidden_names_app (a b : list param) : hidden_names (a ++ b) = hidden_names a ++ hidden_names b.
Proof. unfold Template.hidden_names. now rewrite filter_app, map_app. Qed.

Lemma hidden_names_map_show (t : list param) : hidden_names (map (show _ _) t) = [].
Proof. induction t as [|p t IH]; [reflexivity|]. cbn [map]. rewrite hn_cons. cbn. exact IH. Qed.

Lemma set_last_hidden n v (ps : list param) :
  exists k, hidden_names (set_last _ _ eqb unescapable n v ps) = firstn k (hidden_names ps).
Proof.
  induction ps as [|p t IH]; cbn [Template.set_last]; [exists 0; reflexivity|].
  destruct (eqb n (pn _ _ p) && negb (has n t)).
  - destruct (negb (shown _ _ p) && unescapable v) eqn:E.
    + exists 0. rewrite hn_cons. cbn. apply hidden_names_map_show.
    + exists (length (hidden_names (p :: t))). rewrite firstn_all. rewrite !hn_cons. cbn. reflexivity.
  - destruct IH as [k Hk]. rewrite !hn_cons. destruct (shown _ _ p).
    + exists k. exact Hk.
    + exists (S k). cbn [firstn]. now rewrite Hk.
Qed.

Theorem hidden_inv_add_lemma n v ps : Hidden ps -> Hidden (add n v ps).
Proof.
  intros H. unfold Template.add. destruct (has n ps).
  - unfold Template.Hidden. destruct (set_last_hidden n v (rem n true false ps)) as [k ->].
    apply Hidden_prefix. now apply hidden_inv_remove_lemma.
  - destruct (num n) as [k|] eqn:En.
    + rewrite (expected_spec ps H). destruct (Nat.eqb_spec (S (length (hidden_names ps))) k) as [<-|Hne]; cbn [negb].
      * destruct (unescapable v).
        -- unfold Template.Hidden in *. rewrite hidden_names_app. unfold Template.hidden_names at 2 4. cbn.
           now rewrite app_nil_r.
        -- unfold Template.Hidden in *. rewrite hidden_names_app. unfold Template.hidden_names at 2 4. cbn.
           rewrite map_app, app_length. cbn [map length]. rewrite En. rewrite seq_app, map_app. cbn [seq map].
           rewrite H. f_equal.
      * unfold Template.Hidden in *. rewrite hidden_names_app. unfold Template.hidden_names at 2 4. cbn.
        now rewrite app_nil_r.
    + unfold Template.Hidden in *. rewrite hidden_names_app. unfold Template.hidden_names at 2 4. cbn.
      now rewrite app_nil_r.
Qed.

Theorem hidden_inv_reachable_lemma ops : forall ps, Hidden ps -> Hidden (run _ _ eqb num blank unescapable ps ops).
Proof.
  induction ops as [|o ops IH]; intros ps H; cbn [Template.run fold_left]; [exact H|].
  apply IH. destruct o as [n v|n keep]; cbn [Template.step].
  - now apply hidden_inv_add_lemma.
  - unfold Template.remove. destruct (has n ps); [now apply hidden_inv_remove_lemma|exact H].
Qed.

(* ---------- has / names ---------- *)
Lemma has_app n (a b : list param) : has n (a ++ b) = has n a || has n b.
Proof. unfold Template.has. apply existsb_app. Qed.

Lemma names_rem n : forall ps flag,
  map (pn _ _) (rem n false flag ps) = filter (fun m => negb (eqb n m)) (map (pn _ _) ps).
Proof.
  induction ps as [|p t IH]; intros flag; cbn [Template.rem map filter]; [reflexivity|].
  destruct (eqb n (pn _ _ p)); cbn [negb].
  - apply IH.
  - cbn [map]. rewrite IH. destruct flag; reflexivity.
Qed.

Theorem remove_renames_nobody_lemma n ps :
  map (pn _ _) (rem n false false ps) = filter (fun m => negb (eqb n m)) (map (pn _ _) ps).
Proof. apply names_rem. Qed.

Theorem not_has_after_remove_lemma n ps : has n (rem n false false ps) = false.
Proof.
  unfold Template.has. destruct (existsb _ _) eqn:E; [|reflexivity].
  apply existsb_exists in E. destruct E as (p & Hp & Ep).
  assert (Hin : In (pn _ _ p) (map (pn _ _) (rem n false false ps))) by (apply in_map; exact Hp).
  rewrite remove_renames_nobody_lemma in Hin. apply filter_In in Hin. destruct Hin as [_ Hneg].
  rewrite Ep in Hneg. discriminate.
Qed.

Lemma has_set_last n v m (ps : list param) : has m (set_last _ _ eqb unescapable n v ps) = has m ps.
Proof.
  induction ps as [|p t IH]; cbn [Template.set_last]; [reflexivity|].
  destruct (eqb n (pn _ _ p) && negb (has n t)).
  - destruct (negb (shown _ _ p) && unescapable v); [|reflexivity].
    unfold Template.has. cbn [existsb Template.pn]. f_equal. clear IH.
    induction t as [|q t IHt]; [reflexivity|]. cbn [map existsb Template.show Template.pn]. now rewrite IHt.
  - unfold Template.has in *. cbn. now rewrite IH.
Qed.

Lemma has_rem_keep n : forall ps flag, has n ps = true -> has n (rem n true flag ps) = true.
Proof.
  induction ps as [|p t IH]; intros flag H; [discriminate H|]. cbn [Template.rem].
  unfold Template.has in H. cbn [existsb] in H.
  destruct (eqb n (pn _ _ p)) eqn:E.
  - destruct (shown _ _ p && existsb _ t) eqn:HS.
    + apply andb_true_iff in HS. destruct HS as [_ HS]. apply IH.
      apply existsb_exists in HS. destruct HS as (q & Hq & Eq). apply andb_true_iff in Eq.
      unfold Template.has. apply existsb_exists. exists q. tauto.
    + unfold Template.has. cbn [existsb Template.blanked Template.pn]. destruct flag; cbn; now rewrite E.
  - cbn [orb] in H. unfold Template.has. cbn [existsb]. destruct flag; cbn [Template.show Template.pn]; rewrite E; cbn [orb]; now apply IH.
Qed.

Theorem has_after_add_lemma n v ps : has n (add n v ps) = true.
Proof.
  unfold Template.add. destruct (has n ps) eqn:H.
  - rewrite has_set_last. now apply has_rem_keep.
  - rewrite has_app. unfold Template.has at 2. cbn. now rewrite eqb_refl, orb_true_r.
Qed.

Theorem keep_field_keeps_name_lemma n ps : has n ps = true -> has n (rem n true false ps) = true.
Proof. apply has_rem_keep. Qed.

End P.
