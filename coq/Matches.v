(* Model of Wikicode.matches (wikicode.py) over the already strip_code()'d strings.
   clean s = normalize (s.replace("_", " ").strip());  normalize = upper-case the first character.
   [isspace] and [upper] are Python's str.isspace / str.upper on one character (upper may
   yield several characters). *)
From MW Require Import PyBase.

Section M.
Variable isspace : cp -> bool.
Variable upper : cp -> list cp.

Definition underscore : cp := 95%N.
Definition space : cp := 32%N.

Definition us2sp (s : str) : str := map (fun c => if N.eqb c underscore then space else c) s.

Fixpoint lstrip (s : str) : str :=
  match s with
  | [] => []
  | c :: t => if isspace c then lstrip t else s
  end.
Definition rstrip (s : str) : str := rev (lstrip (rev s)).
Definition strip (s : str) : str := rstrip (lstrip s).

Definition normalize (s : str) : str :=
  match s with [] => [] | c :: t => upper c ++ t end.

Definition clean (s : str) : str := normalize (strip (us2sp s)).

Definition str_eqb (a b : str) : bool :=
  (Nat.eqb (length a) (length b)) && forallb (fun p => N.eqb (fst p) (snd p)) (combine a b).

Definition matches (a b : str) : bool := str_eqb (clean a) (clean b).
Definition matches_any (a : str) (bs : list str) : bool := existsb (matches a) bs.

End M.
