(* Small list lemmas missing from the 8.16 standard library. *)
From Coq Require Import List Arith Lia.
Import ListNotations.

Lemma In_firstn {A} (x : A) n l : In x (firstn n l) -> In x l.
Proof.
  revert l. induction n as [|n IH]; intros [|y l]; cbn; try tauto.
  intros [->|H]; [now left|right; now apply IH].
Qed.

Lemma In_skipn {A} (x : A) n l : In x (skipn n l) -> In x l.
Proof.
  revert l. induction n as [|n IH]; intros [|y l]; cbn; try tauto.
  intros H. right. now apply IH.
Qed.

Lemma firstn_app_exact {A} (l r : list A) : firstn (length l) (l ++ r) = l.
Proof. induction l; cbn; congruence. Qed.

Lemma skipn_app_exact {A} (l r : list A) : skipn (length l) (l ++ r) = r.
Proof. induction l; cbn; auto. Qed.

Lemma skipn_skipn {A} (n m : nat) (l : list A) : skipn n (skipn m l) = skipn (m + n) l.
Proof.
  revert l. induction m as [|m IH]; intros l; cbn [skipn Nat.add]; [reflexivity|].
  destruct l; [now rewrite skipn_nil|]. apply IH.
Qed.

Lemma nth_error_firstn {A} (l : list A) n i : i < n -> nth_error (firstn n l) i = nth_error l i.
Proof.
  revert n i. induction l as [|x t IH]; intros n i H.
  - rewrite firstn_nil. reflexivity.
  - destruct n as [|n]; [lia|]. destruct i as [|i]; cbn; [reflexivity|]. apply IH. lia.
Qed.

Lemma nth_error_skipn {A} (l : list A) n i : nth_error (skipn n l) i = nth_error l (n + i).
Proof.
  revert l. induction n as [|n IH]; intros l; cbn [skipn Nat.add]; [reflexivity|].
  destruct l as [|x t]; [now destruct i|]. cbn. apply IH.
Qed.

Lemma Forall2_impl {A B} (P Q : A -> B -> Prop) l l' :
  (forall a b, P a b -> Q a b) -> Forall2 P l l' -> Forall2 Q l l'.
Proof. intros H F. induction F; constructor; auto. Qed.

Lemma Forall2_nth_error {A B} (P : A -> B -> Prop) l l' k a :
  Forall2 P l l' -> nth_error l k = Some a -> exists b, nth_error l' k = Some b /\ P a b.
Proof.
  intros F. revert k. induction F as [|x y l l' Hxy F IH]; intros [|k]; cbn; try discriminate.
  - intros [= <-]. eauto.
  - apply IH.
Qed.

Lemma Forall2_length {A B} (P : A -> B -> Prop) l l' : Forall2 P l l' -> length l = length l'.
Proof. induction 1; cbn; auto. Qed.
