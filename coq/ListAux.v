(* Small list lemmas missing from the 8.16 standard library. *)
From Coq Require Import List Arith Lia.
Import ListNotations.

Lemma In_firstn {A} (x : A) n l : In x (firstn n l) -> In x l.
Proof.
  revert l. induction n as [|n IH]; intros [|y l]; cbn; try tauto.
  intros [->|H]; [now left|right; now apply IH].
Qed.

Lemma In_skipn {A} (x : A) n l : In x (skipn n l) -> In x l.
Proof.
  revert l. induction n as [|n IH]; intros [|y l]; cbn; try tauto.
  intros H. right. now apply IH.
Qed.

Lemma firstn_app_exact {A} (l r : list A) : firstn (length l) (l ++ r) = l.
Proof. induction l; cbn; congruence. Qed.

Lemma skipn_app_exact {A} (l r : list A) : skipn (length l) (l ++ r) = r.
Proof. induction l; cbn; auto. Qed.
